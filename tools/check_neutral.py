#!/usr/bin/env python3
"""Run ALL twenty quick checks against a scratch copy of /repo/src with a property-preserving
patch applied (pull requests written by independent agents, tools/neutral_prompt.txt); every
check must keep exit 0.  Prints silent / ALARM(rule ids) / ANALYSIS-ERROR per patch and property.
usage: check_neutral.py [dir-with-patch.diff ...]   (default: /verif/neutral/*)"""
import glob, json, os, shutil, subprocess, sys, tempfile, concurrent.futures as cf
PY = "/venv/bin/python"
VERIF = os.path.dirname(os.path.dirname(os.path.abspath(__file__)))
PROPS = [f"C{i:02d}" for i in range(1, 21)]


def one(nd):
    name = os.path.basename(nd.rstrip("/"))
    tmp = tempfile.mkdtemp(prefix="neutralrun.")
    res = {}
    try:
        shutil.copytree("/repo/src", os.path.join(tmp, "src"),
                        ignore=shutil.ignore_patterns("__pycache__", "*.egg-info"))
        a = subprocess.run(["git", "apply", "--directory", tmp, "--unsafe-paths", os.path.join(nd, "patch.diff")],
                           cwd=tmp, capture_output=True, text=True)
        if a.returncode != 0:
            a = subprocess.run(["patch", "-p1", "-d", tmp, "-i", os.path.join(nd, "patch.diff")],
                               capture_output=True, text=True)
            if a.returncode != 0:
                return name, {"*": ("PATCH-FAILED", a.stdout[-300:] + a.stderr[-300:])}
        for pid in PROPS:
            r = subprocess.run([PY, "-B", "-m", "dv.cli", pid, "--src", os.path.join(tmp, "src"),
                                "--evidence", os.path.join(tmp, f"ev{pid}.json")],
                               cwd=VERIF, capture_output=True, text=True)
            if r.returncode != 0:
                lines = [l for l in r.stdout.splitlines() if l.startswith(("VIOLATION", "  rule=", "ANALYSIS-ERROR"))]
                res[pid] = ({1: "ALARM", 2: "ANALYSIS-ERROR"}.get(r.returncode, str(r.returncode)),
                            "\n".join(lines[:8])[:1500])
        return name, res
    finally:
        shutil.rmtree(tmp, ignore_errors=True)


if __name__ == "__main__":
    dirs = sys.argv[1:] or sorted(glob.glob(os.path.join(VERIF, "neutral", "*")))
    dirs = [d for d in dirs if os.path.exists(os.path.join(d, "patch.diff"))]
    bad = 0
    with cf.ThreadPoolExecutor(8) as ex:
        for name, res in ex.map(one, dirs):
            if not res:
                print(f"{name}: silent (20/20 exit 0)")
            for pid, (st, detail) in sorted(res.items()):
                bad += 1
                print(f"{name}: {pid} {st}\n{detail}")
    print(f"{len(dirs)} neutral patches, {bad} non-zero check runs")
    sys.exit(1 if bad else 0)
