#!/usr/bin/env python3
"""Print a markdown table: seeded defect | what was changed | rules that report it."""
import glob, json, os, re, subprocess, sys, tempfile, shutil, concurrent.futures as cf
VERIF = os.path.dirname(os.path.dirname(os.path.abspath(__file__)))
PY = "/venv/bin/python"

def one(sd):
    name = os.path.basename(sd)
    pid = name.split("-")[0]
    meta = json.load(open(os.path.join(sd, "meta.json")))
    if meta.get("obsolete"):
        summ = " ".join(str(meta.get("summary", "")).split())[:150].replace("|", "/")
        return f"| {name} | {summ} | (obsolete: trigger repaired in /repo, see meta.json) |"
    tmp = tempfile.mkdtemp(prefix="seedtab.")
    try:
        shutil.copytree("/repo/src", os.path.join(tmp, "src"), ignore=shutil.ignore_patterns("__pycache__", "*.egg-info"))
        subprocess.run(["patch", "-p1", "-s", "-d", tmp, "-i", os.path.join(sd, "patch.diff")], capture_output=True)
        r = subprocess.run([PY, "-B", "-m", "dv.cli", pid, "--src", os.path.join(tmp, "src"), "--evidence",
                            os.path.join(tmp, "e.json")], cwd=VERIF, capture_output=True, text=True)
        rules = []
        for l in r.stdout.splitlines():
            m = re.match(r"\s+rule=(\S+) construct=(\S+)", l)
            if m and m.group(1) not in rules:
                rules.append(m.group(1))
        summ = " ".join(str(meta.get("summary", "")).split())[:150].replace("|", "/")
        return f"| {name} | {summ} | {', '.join(rules[:4]) or 'MISSED'} |"
    finally:
        shutil.rmtree(tmp, ignore_errors=True)

seeds = sorted(glob.glob(os.path.join(VERIF, "seeded", "C*-*")))
print("| seed | change (sub-agent's summary) | reported by |\n|---|---|---|")
with cf.ThreadPoolExecutor(12) as ex:
    for row in ex.map(one, seeds):
        print(row)
