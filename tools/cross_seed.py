#!/usr/bin/env python3
"""Developer tool: run ALL twenty checks against seeded defects and print the rules that fire
(used to find existing rules worth including under another property).
usage: cross_seed.py C13-H [C20-H ...]"""
import os, re, shutil, subprocess, sys, tempfile, concurrent.futures as cf
PY = "/venv/bin/python"
VERIF = os.path.dirname(os.path.dirname(os.path.abspath(__file__)))
PROPS = [f"C{i:02d}" for i in range(1, 21)]

def one(name):
    sd = os.path.join(VERIF, "seeded", name)
    tmp = tempfile.mkdtemp(prefix="seedx.")
    try:
        shutil.copytree("/repo/src", os.path.join(tmp, "src"), ignore=shutil.ignore_patterns("__pycache__", "*.egg-info"))
        a = subprocess.run(["patch", "-p1", "-s", "-d", tmp, "-i", os.path.join(sd, "patch.diff")], capture_output=True, text=True)
        if a.returncode != 0:
            return name, ["PATCH-FAILED"]
        out = []
        for p in PROPS:
            r = subprocess.run([PY, "-B", "-m", "dv.cli", p, "--src", os.path.join(tmp, "src"),
                                "--evidence", os.path.join(tmp, "ev.json")], cwd=VERIF, capture_output=True, text=True)
            if r.returncode != 0:
                for l in r.stdout.splitlines():
                    m = re.match(r"\s+rule=(\S+) construct=(\S+)", l)
                    if m:
                        out.append(f"{p}: {m.group(1)} {m.group(2)}")
                    elif l.startswith("ANALYSIS-ERROR"):
                        out.append(f"{p}: {l[:160]}")
        return name, out
    finally:
        shutil.rmtree(tmp, ignore_errors=True)

if __name__ == "__main__":
    with cf.ThreadPoolExecutor(8) as ex:
        for name, out in ex.map(one, sys.argv[1:]):
            print(f"== {name}")
            for o in out:
                print("   " + o)
