#!/usr/bin/env python3
"""Regenerate MANIFEST.json from the rule modules present in dv/rules."""
import importlib, json, os, sys
HERE = os.path.dirname(os.path.dirname(os.path.abspath(__file__)))
sys.path.insert(0, HERE)
props = [json.loads(l) for l in open(os.path.join(HERE, "properties.jsonl"))]
checks, na = [], []
for p in props:
    pid = p["id"]
    try:
        mod = importlib.import_module(f"dv.rules.{pid.lower()}")
    except ModuleNotFoundError:
        na.append({"property_id": pid,
                   "reason": "no check registered in this revision of /verif (rule module not built yet)"})
        continue
    if getattr(mod, "NOT_APPLICABLE", None):
        na.append({"property_id": pid, "reason": mod.NOT_APPLICABLE})
        continue
    checks.append({
        "property_id": pid,
        "quick_cmd": f"./check {pid} --tier quick",
        "thorough_cmd": f"./check {pid} --tier thorough",
        "evidence_file": f"/verif/evidence/{pid}.json",
        "replay_cmd_template": f"./check {pid} --tier quick  # re-analyses the tree; the replay file {{path}} names rule, construct and path",
        "engine": "dv",
        "level_claimed": {
            "category": "other",
            "text": mod.LEVEL_TEXT if hasattr(mod, "LEVEL_TEXT") else mod.EXPLANATION,
            "design_ref": f"DESIGN.md section on {pid}",
        },
        "level_note": "; ".join(mod.ASSUMPTIONS),
        "technique": getattr(mod, "TECHNIQUE", "static analysis (ast): table / CFG / lockset / effect rules"),
    })
manifest = {
    "version": 1,
    "setup_cmd": "true",
    "hooks": {
        "guard": "MENSONEN_DIAMETER_VERIF",
        "enable": "no hooks: the checks parse /repo/src as it is on disk and execute nothing from it",
        "baseline_off_cmd": "cd /repo && /venv/bin/python -m pytest -ra -q -p no:cacheprovider --timeout=900 --continue-on-collection-errors",
        "source_commits": [],
        "add_only": True,
    },
    "engines": [{
        "name": "dv", "path": "/verif/dv",
        "serves_properties": [c["property_id"] for c in checks],
        "kind_free_text": "repository-specific static analysis on the stdlib ast: source model + "
                          "namespace/constant resolver, statement CFG with dominance/guard/path "
                          "queries, raise-set (effect) inference, lockset, resource pairing, table extraction",
    }],
    "checks": checks,
    "not_applicable": na,
    "notes": "All checks are static (nothing from /repo is imported or run). Exit 0 = rules hold "
             "(KNOWN-FINDING lines for listed defects), 1 = VIOLATION, 2 = ANALYSIS-ERROR (cannot decide).",
}
json.dump(manifest, open(os.path.join(HERE, "MANIFEST.json"), "w"), indent=1)
print(f"{len(checks)} checks, {len(na)} not applicable")
