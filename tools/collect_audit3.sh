#!/bin/sh
# usage: collect_audit2.sh C20 C17 ...  - copy /tmp/wt/<ID>/_audit3/<N> (third audit round) to
# findings/audit3/<ID>-<N> and re-run the demos on /repo
cd /verif
for id in "$@"; do
  for d in /tmp/wt/$id/_audit3/*/; do
    [ -d "$d" ] || continue
    n=$(basename $d); mkdir -p findings/audit3/$id-$n; cp $d/* findings/audit3/$id-$n/
    sed -i "s#/tmp/wt/$id#/repo#g" findings/audit3/$id-$n/*
    (cd /repo && timeout 120 env PYTHONPATH=/repo/src /venv/bin/python /verif/findings/audit3/$id-$n/demo.py >/dev/null 2>&1; echo "$id-$n demo exit=$?")
  done
done
