#!/usr/bin/env python3
"""Developer tool: re-generate seeded patches that no longer apply to /repo HEAD with a 3-way
merge (git apply --3way uses the pre-image blobs recorded in the patch), re-run the demo
(clean: exit 0, patched: exit != 0) and the pinned suite, and rewrite patch.diff + meta.json.
usage: rebase_seeds.py C07-A [...]"""
import json, os, shutil, subprocess, sys, tempfile
PY = "/venv/bin/python"
SUITE = [PY, "-m", "pytest", "-q", "-p", "no:cacheprovider", "-x", "--timeout=900",
         "--deselect", "tests/test_avp.py::test_create_time_type"]
head = subprocess.check_output(["git", "-C", "/repo", "rev-parse", "--short", "HEAD"], text=True).strip()
for name in sys.argv[1:]:
    sd = f"/verif/seeded/{name}"
    tmp = tempfile.mkdtemp(prefix="seedreb.")
    wt = os.path.join(tmp, "wt")
    try:
        subprocess.check_call(["git", "-C", "/repo", "worktree", "add", "-q", "--detach", wt, "HEAD"])
        r = subprocess.run(["git", "-C", wt, "apply", "--3way", os.path.join(sd, "patch.diff")],
                           capture_output=True, text=True)
        conflict = subprocess.run(["git", "-C", wt, "diff", "--name-only", "--diff-filter=U"],
                                  capture_output=True, text=True).stdout.strip()
        if r.returncode != 0 or conflict:
            print(f"{name}: CONFLICT ({conflict or r.stderr.strip()[-120:]})")
            continue
        diff = subprocess.check_output(["git", "-C", wt, "diff", "HEAD", "--", "src"], text=True)
        env = dict(os.environ, PYTHONPATH=os.path.join(wt, "src"))
        demos = [f for f in os.listdir(sd) if f.startswith("demo") and f.endswith(".py")]
        demo = os.path.join(tmp, demos[0])
        open(demo, "w").write(open(os.path.join(sd, demos[0])).read().replace("/repo", wt))
        cmd = [PY, "-m", "pytest", "-q", "-p", "no:cacheprovider", "--timeout=120", demo] \
            if ("def test_" in open(demo).read() and "__main__" not in open(demo).read()) else [PY, demo]
        def run(c, t=300):
            try:
                return subprocess.run(c, cwd=wt, env=env, capture_output=True, text=True, timeout=t).returncode
            except subprocess.TimeoutExpired:
                return 124
        rc1 = run(cmd)
        rcs = run(SUITE, 900)
        subprocess.check_call(["git", "-C", wt, "checkout", "-q", "--", "."])
        subprocess.run(["git", "-C", wt, "reset", "-q", "--hard", "HEAD"])
        rc0 = run(cmd)
        ok = rc0 == 0 and rc1 not in (0, 124) and rcs == 0
        print(f"{name}: merged; demo clean={rc0} patched={rc1} suite={rcs} -> {'OK' if ok else 'NOT CONFIRMED'}")
        if ok:
            open(os.path.join(sd, "patch.diff"), "w").write(diff)
            m = json.load(open(os.path.join(sd, "meta.json")))
            m["rebased"] = (f"patch.diff re-generated against /repo {head} by 3-way merge (same edit; the "
                            f"surrounding code was changed by later fix commits); demo re-confirmed: clean "
                            f"exit 0, patched exit {rc1}, pinned suite passes")
            json.dump(m, open(os.path.join(sd, "meta.json"), "w"), indent=1)
    finally:
        subprocess.run(["git", "-C", "/repo", "worktree", "remove", "--force", wt], capture_output=True)
        shutil.rmtree(tmp, ignore_errors=True)
subprocess.run(["git", "-C", "/repo", "worktree", "prune"])
