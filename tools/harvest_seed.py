#!/usr/bin/env python3
"""Confirm seeded defects produced by sub-agents and copy them to /verif/seeded.

For /tmp/wt/<ID>/_seed/<V>/{patch.diff,demo*.py,meta.json}:
  1. fresh scratch worktree of /repo HEAD under /tmp/seedchk.*; demo must PASS;
  2. apply the patch; the pinned suite must still pass; demo must FAIL;
  3. copy to /verif/seeded/<ID>-<V>/ and record what was run in meta.json;
  4. remove the scratch worktree.
usage: harvest_seed.py C16 [C05 ...]   (or --all)
"""
import glob, json, os, shutil, subprocess, sys, tempfile

PY = "/venv/bin/python"
SUITE = [PY, "-m", "pytest", "-q", "-p", "no:cacheprovider", "-x", "--timeout=900",
         "--deselect", "tests/test_avp.py::test_create_time_type"]


def run(cmd, cwd, env=None, timeout=300):
    e = dict(os.environ)
    e.update(env or {})
    try:
        r = subprocess.run(cmd, cwd=cwd, env=e, capture_output=True, text=True, timeout=timeout)
        return r.returncode, (r.stdout + r.stderr)[-1500:]
    except subprocess.TimeoutExpired:
        return 124, "timeout"


def demo_cmd(seed_dir, wt):
    demos = sorted(glob.glob(os.path.join(seed_dir, "demo*.py")))
    if not demos:
        return None
    d = demos[0]
    src = open(d).read()
    if os.path.basename(d).startswith("demo_test") or "def test_" in src and "__main__" not in src:
        return [PY, "-m", "pytest", "-q", "-p", "no:cacheprovider", "--timeout=120", d]
    return [PY, d]


def harvest(pid):
    out = []
    for sd in sorted(glob.glob(f"/tmp/wt/{pid}/_seed/*")):
        v = os.path.basename(sd)
        patch = os.path.join(sd, "patch.diff")
        if not os.path.exists(patch):
            out.append((pid, v, "no patch"))
            continue
        tmp = tempfile.mkdtemp(prefix="seedchk.")
        wt = os.path.join(tmp, "wt")
        try:
            subprocess.check_call(["git", "-C", "/repo", "worktree", "add", "-q", "--detach", wt, "HEAD"])
            env = {"PYTHONPATH": os.path.join(wt, "src")}
            # demos refer to /tmp/wt/<ID>/src: rewrite to the scratch worktree
            sd2 = os.path.join(tmp, "seed")
            shutil.copytree(sd, sd2)
            for fpath in glob.glob(os.path.join(sd2, "*.py")):
                s = open(fpath).read().replace(f"/tmp/wt/{pid}", wt)
                open(fpath, "w").write(s)
            dc = demo_cmd(sd2, wt)
            if dc is None:
                out.append((pid, v, "no demo"))
                continue
            rc0, o0 = run(dc, wt, env)
            a = subprocess.run(["git", "-C", wt, "apply", patch], capture_output=True, text=True)
            if a.returncode != 0:
                out.append((pid, v, "patch does not apply: " + a.stderr[-200:]))
                continue
            rcs, os_ = run(SUITE, wt, env, timeout=900)
            rc1, o1 = run(dc, wt, env)
            ok = rc0 == 0 and rcs == 0 and rc1 != 0 and rc1 != 124
            status = "confirmed" if ok else f"REJECTED demo_clean={rc0} suite={rcs} demo_patched={rc1}"
            if ok:
                dst = f"/verif/seeded/{pid}-{v}"
                shutil.rmtree(dst, ignore_errors=True)
                os.makedirs(dst)
                shutil.copy(patch, dst)
                for fpath in glob.glob(os.path.join(sd, "demo*.py")):
                    s = open(fpath).read().replace(f"/tmp/wt/{pid}", "/repo")
                    open(os.path.join(dst, os.path.basename(fpath)), "w").write(s)
                meta = {}
                try:
                    meta = json.load(open(os.path.join(sd, "meta.json")))
                except Exception:
                    pass
                meta.update({
                    "property": pid, "variant": v,
                    "confirmed_by": "tools/harvest_seed.py on a scratch worktree of /repo HEAD "
                                    + subprocess.check_output(["git", "-C", "/repo", "rev-parse", "--short", "HEAD"]).decode().strip(),
                    "ran": {"demo_on_pristine": {"cmd": " ".join(dc).replace(tmp, "<scratch>"), "exit": rc0},
                            "suite_with_patch": {"cmd": " ".join(SUITE), "exit": rcs},
                            "demo_with_patch": {"exit": rc1, "tail": o1[-400:]}},
                    "demo_cmd": "PYTHONPATH=/repo/src " + " ".join(
                        x.replace(sd2, f"/verif/seeded/{pid}-{v}") for x in dc),
                })
                json.dump(meta, open(os.path.join(dst, "meta.json"), "w"), indent=1)
            else:
                status += "\n      " + (o0 if rc0 else os_ if rcs else o1)[-300:].replace("\n", "\n      ")
            out.append((pid, v, status))
        finally:
            subprocess.run(["git", "-C", "/repo", "worktree", "remove", "--force", wt],
                           capture_output=True)
            shutil.rmtree(tmp, ignore_errors=True)
    return out


if __name__ == "__main__":
    ids = sys.argv[1:]
    if ids == ["--all"]:
        ids = sorted(os.path.basename(p) for p in glob.glob("/tmp/wt/C??") if os.path.isdir(p))
    for pid in ids:
        for r in harvest(pid):
            print(*r)
