"""Edit lists that re-express seeded defects against the current /repo tree (see tools/reseed.py)."""
AVP = "src/diameter/message/avp/avp.py"
NODE = "src/diameter/node/node.py"
APP = "src/diameter/node/application.py"
HELP = "src/diameter/node/_helpers.py"
PEER = "src/diameter/node/peer.py"
EDITS = {}

EDITS["C01-B"] = [(AVP,
'''    if not vendor:
        AVP_DICTIONARY[avp] = {"name": name, "type": type_cls,
                               "mandatory": mandatory}
    else:
        vendor_dict = AVP_VENDOR_DICTIONARY.setdefault(vendor, {})
        vendor_dict[avp] = {"name": name, "type": type_cls,
                            "mandatory": mandatory, "vendor": vendor}
''',
'''    entry: AvpInfo = {"name": name, "type": type_cls, "mandatory": mandatory}
    if not vendor:
        AVP_DICTIONARY[avp] = entry
    else:
        entry["vendor"] = vendor
        AVP_VENDOR_DICTIONARY.get(vendor, {})[avp] = entry
''')]

EDITS["C06-B"] = [(NODE,
'''            if conn.is_sender and conn.lifetime > cea_timeout:
                self.logger.warning(
                    f"{conn} exceeded CEA timeout, closing connection")
                self.close_connection_socket(
                    conn, DISCONNECT_REASON_FAILED_CONNECT_CE)
            elif conn.is_receiver and conn.lifetime > cer_timeout:
                self.logger.warning(
                    f"{conn} exceeded CER timeout, closing connection")
                self.close_connection_socket(
                    conn, DISCONNECT_REASON_FAILED_CONNECT_CE)
''',
'''            ce_name, ce_timeout = (
                ("CER", cer_timeout) if conn.is_sender else ("CEA", cea_timeout))
            if conn.lifetime > ce_timeout:
                self.logger.warning(
                    f"{conn} exceeded {ce_name} timeout, closing connection")
                self.close_connection_socket(
                    conn, DISCONNECT_REASON_FAILED_CONNECT_CE)
''')]

EDITS["C06-G"] = [(NODE,
'''        cer_origin_host = message.origin_host.decode(errors="replace").lower()
''',
'''        # keep the identity exactly as advertised by the peer, it is what is
        # shown in logs and statistics; only the election is case-insensitive
        cer_origin_host = message.origin_host.decode(errors="replace")
'''), (NODE,
'''            if self.origin_host.lower() > cer_origin_host:
''',
'''            if self.origin_host.lower() > cer_origin_host.lower():
''')]

EDITS["C16-F"] = [(HELP,
'''        if include_now is not None:
            self._sequence = int((include_now << 20) | random.randint(self.MIN_SEQUENCE, 0x000fffff)) & self.MAX_SEQUENCE
''',
'''        # only the low 12 bits of the timestamp fit in the high order bits
        time_bits = (include_now or 0) & 0x00000fff
        if time_bits:
            self._sequence = (time_bits << 20) | random.randint(self.MIN_SEQUENCE, 0x000fffff)
''')]

EDITS["C07-A"] = [(NODE,
'''        # rfc6733, 5.5.4, check for T flag and reject if already processed
        if (origin_host is not None and msg.header.is_request and
                msg.header.is_retransmit and
''',
'''        # rfc6733, 5.5.4, check for T flag and reject if already processed;
        # the T flag is only ever set on (re-sent) requests
        if (origin_host is not None and msg.header.is_retransmit and
''')]

EDITS["C07-B"] = [(NODE,
'''        del self._peer_waiting_answer[waiting_conn_ident][message_id]

        conn = self.connections.get(waiting_conn_ident)
        if conn is None:
            raise NotRoutable(
''',
'''        conn = self.connections.get(waiting_conn_ident)
        # The pending request record is released by `send_message` once the
        # answer has actually been queued; releasing it already here made a
        # request unanswerable for good if its connection was only
        # temporarily not accepting messages.
        if conn is None:
            self._peer_waiting_answer[waiting_conn_ident].pop(
                message_id, None)
            raise NotRoutable(
''')]

EDITS["C07-C"] = [(NODE,
'''        if msg.header.is_request and self.validate_received_request_avps:
            failed_avp = validate_message_avps(msg)
            if failed_avp:
                self.logger.warning(f"{conn} message failed AVP validation")
                err = self._generate_answer(conn, msg)
                err.result_code = constants.E_RESULT_CODE_DIAMETER_MISSING_AVP
                err.error_message = "Mandatory AVPs missing"
                err.failed_avp = FailedAvp(additional_avps=failed_avp)
                self.send_message(conn, err)
                return

        # rfc6733, 5.5.4, check for T flag and reject if already processed
        if (origin_host is not None and msg.header.is_request and
                msg.header.is_retransmit and
                origin_host in self._sent_answers and
                msg.header.end_to_end_identifier in self._sent_answers[origin_host]):
            self.logger.warning(
                f"{conn} message is a retransmission of an already handled "
                f"request, rejecting it")
            err = self._generate_answer(conn, msg)
            # Spec doesn't say what error code to use?
            err.result_code = constants.E_RESULT_CODE_DIAMETER_UNABLE_TO_COMPLY
            err.error_messge = "Duplicate request detected"
            self.send_message(conn, err)
            return
''',
'''        if msg.header.is_request and self._reject_request(conn, msg, origin_host):
            return
'''), (NODE,
'''    def _receive_app_request(self, conn: PeerConnection, message: _AnyMessageType):
        """Forward a received request message to an application.
''',
'''    def _reject_request(self, conn: PeerConnection, msg: _AnyMessageType,
                        origin_host: bytes | None) -> bool:
        """Run the pre-dispatch checks for a received request.

        Returns:
            True if the request has been answered with an error and must not
                be processed any further.
        """
        if self.validate_received_request_avps:
            failed_avp = validate_message_avps(msg)
            if failed_avp:
                self.logger.warning(f"{conn} message failed AVP validation")
                err = self._generate_answer(conn, msg)
                err.result_code = constants.E_RESULT_CODE_DIAMETER_MISSING_AVP
                err.error_message = "Mandatory AVPs missing"
                err.failed_avp = FailedAvp(additional_avps=failed_avp)
                self.send_message(conn, err)
                return True

        # rfc6733, 5.5.4, check for T flag and reject if already processed
        if (origin_host is not None and msg.header.is_retransmit and
                origin_host in self._sent_answers and
                msg.header.end_to_end_identifier in self._sent_answers[origin_host]):
            self.logger.warning(
                f"{conn} message is a retransmission of an already handled "
                f"request, rejecting it")
            err = self._generate_answer(conn, msg)
            # Spec doesn't say what error code to use?
            err.result_code = constants.E_RESULT_CODE_DIAMETER_UNABLE_TO_COMPLY
            err.error_messge = "Duplicate request detected"
            self.send_message(conn, err)

        return False

    def _receive_app_request(self, conn: PeerConnection, message: _AnyMessageType):
        """Forward a received request message to an application.
''')]

EDITS["C07-D"] = [(NODE,
'''        if conn.ident in self._peer_waiting_answer:
            del self._peer_waiting_answer[conn.ident]
''',
'''        self._peer_waiting_answer.pop(conn.node_name, None)
''')]

EDITS["C07-H"] = [(NODE,
'''        del self._peer_waiting_answer[waiting_conn_ident][message_id]
''',
'''        # The node thread may remove the connection, and with it the whole
        # record of the peer, while an application thread is still routing
        # its answer; that must end as "not routable" below, not as KeyError.
        self._peer_waiting_answer.get(
            waiting_conn_ident, {}).pop(message_id, None)
''')]

EDITS["C09-E"] = [(NODE,
'''        del self._peer_waiting_answer[waiting_conn_ident][message_id]

        conn = self.connections.get(waiting_conn_ident)
''',
'''        conn = self.connections.get(waiting_conn_ident)
'''), (NODE,
'''        if (not message.header.is_request and
                conn.ident in self._peer_waiting_answer and
                message_id in self._peer_waiting_answer[conn.ident]):
            # cleanup in case someone is sending messages directly without
            # using _route_answer
            del self._peer_waiting_answer[conn.ident][message_id]
''',
'''        if not message.header.is_request:
            # the pending request is marked as answered here and only here,
            # regardless of whether the answer went through `route_answer` or
            # is being sent directly
            self._peer_waiting_answer.get(
                conn.ident, {}).pop(message_id, None)
''')]

EDITS["C10-B"] = [(APP,
'''        waiting = WaitingMessage()
        message_id = (message.header.hop_by_hop_identifier,
                      message.header.end_to_end_identifier)
        self._answer_waiting[message_id] = waiting
        self.node.send_message(peer, message)
''',
'''        self.node.send_message(peer, message)
        # register the waiter only once the message has actually been queued,
        # so that a failing send does not leave a stale entry behind
        waiting = WaitingMessage()
        message_id = (message.header.hop_by_hop_identifier,
                      message.header.end_to_end_identifier)
        self._answer_waiting[message_id] = waiting
''')]

EDITS["C10-E"] = [(APP,
'''        peer, _ = self.node.route_request(self, message)

        waiting = WaitingMessage()
''',
'''        peer, _ = self.node.route_request(self, message)
        node_message_id = (f"{message.header.hop_by_hop_identifier}:"
                           f"{message.header.end_to_end_identifier}")

        waiting = WaitingMessage()
'''), (APP,
'''        finally:
            del self._answer_waiting[message_id]
''',
'''        finally:
            del self._answer_waiting[message_id]
            # the transaction is over either way; make sure that the node does
            # not keep its record of requests that never got answered
            self.node._app_waiting_answer.pop(node_message_id, None)
''')]

EDITS["C13-C"] = [(NODE,
'''        cer_origin_host = message.origin_host.decode(errors="replace").lower()
''',
'''        origin_host = message.origin_host.decode(errors="replace")
        cer_origin_host = origin_host.lower()
'''), (NODE,
'''        conn.host_identity = cer_origin_host
''',
'''        conn.host_identity = origin_host
''')]

EDITS["C11-G"] = [(NODE,
'''        self._started = False
        self._stopping = False
''',
'''        self._started = False
        self._stopping = False
        # Effective (idle, dwa, cea, cer) timeouts, resolved once for each
        # connection ident
        self._connection_timeouts: dict[str, tuple[int, int, int, int]] = {}
'''), (NODE,
'''        idle_timeout = self.idle_timeout
        dwa_timeout = self.dwa_timeout
        cea_timeout = self.cea_timeout
        cer_timeout = self.cer_timeout

        peer = self._find_connection_peer(conn)
        if peer:
            idle_timeout = peer.idle_timeout or idle_timeout
            dwa_timeout = peer.dwa_timeout or dwa_timeout
            cea_timeout = peer.cea_timeout or cea_timeout
            cer_timeout = peer.cer_timeout or cer_timeout

        if conn.state == PEER_CONNECTED:
''',
'''        idle_timeout, dwa_timeout, cea_timeout, cer_timeout = \\
            self._get_connection_timeouts(conn)

        if conn.state == PEER_CONNECTED:
'''), (NODE,
'''    def _find_connection_peer(self, conn: PeerConnection) -> Peer | None:
''',
'''    def _get_connection_timeouts(self, conn: PeerConnection) -> tuple[int, int, int, int]:
        """Effective idle, DWA, CEA and CER timeouts for a connection.

        Peer-specific values take precedence over the node defaults. As the
        timers are checked for every connection at every pass of the main
        loop, the values are resolved only once for each connection.
        """
        timeouts = self._connection_timeouts.get(conn.ident)
        if timeouts is None:
            idle_timeout = self.idle_timeout
            dwa_timeout = self.dwa_timeout
            cea_timeout = self.cea_timeout
            cer_timeout = self.cer_timeout

            peer = self._find_connection_peer(conn)
            if peer:
                idle_timeout = peer.idle_timeout or idle_timeout
                dwa_timeout = peer.dwa_timeout or dwa_timeout
                cea_timeout = peer.cea_timeout or cea_timeout
                cer_timeout = peer.cer_timeout or cer_timeout

            timeouts = (idle_timeout, dwa_timeout, cea_timeout, cer_timeout)
            self._connection_timeouts[conn.ident] = timeouts

        return timeouts

    def _find_connection_peer(self, conn: PeerConnection) -> Peer | None:
'''), (NODE,
'''        if conn.ident in self._half_ready_connections:
            del self._half_ready_connections[conn.ident]
        # requests of this connection that will never be answered any more
''',
'''        if conn.ident in self._half_ready_connections:
            del self._half_ready_connections[conn.ident]
        self._connection_timeouts.pop(conn.ident, None)
        # requests of this connection that will never be answered any more
''')]

_AFTER_SEND_OLD = '''                with conn.write_lock:
                    conn.remove_out_bytes(sent_bytes)
                    self.connection_logger.debug(
                        f"{conn} sent {sent_bytes} bytes, "
                        f"{len(conn.write_buffer)} bytes remain")

                    if (len(conn.write_buffer) == 0 and
                            not conn.has_queued_messages and
                            conn.state == PEER_CLOSING):
                        self.connection_logger.debug(
                            f"{conn} in CLOSING state and no more bytes to "
                            f"send, closing socket")
                        self.close_connection_socket(
                            conn, DISCONNECT_REASON_CLEAN_DISCONNECT)
'''
EDITS["C15-A"] = [(NODE, _AFTER_SEND_OLD,
'''                conn.remove_out_bytes(sent_bytes)
                self.connection_logger.debug(
                    f"{conn} sent {sent_bytes} bytes, "
                    f"{len(conn.write_buffer)} bytes remain")

                if (len(conn.write_buffer) == 0 and
                        not conn.has_queued_messages and
                        conn.state == PEER_CLOSING):
                    self.connection_logger.debug(
                        f"{conn} in CLOSING state and no more bytes to "
                        f"send, closing socket")
                    self.close_connection_socket(
                        conn, DISCONNECT_REASON_CLEAN_DISCONNECT)
'''), (PEER,
'''        """Remove a given amount of bytes from outgoing buffer."""
        self._write_buffer = self._write_buffer[sent_bytes:]
''',
'''        """Remove a given amount of bytes from outgoing buffer.

        Takes `write_lock` by itself; the caller must not be holding it."""
        remaining = self._write_buffer[sent_bytes:]
        with self.write_lock:
            self._write_buffer = remaining
''')]

EDITS["C15-E"] = [(NODE, _AFTER_SEND_OLD,
'''                remaining_bytes = conn.remove_out_bytes(sent_bytes)
                self.connection_logger.debug(
                    f"{conn} sent {sent_bytes} bytes, "
                    f"{remaining_bytes} bytes remain")

                if (remaining_bytes == 0 and
                        not conn.has_queued_messages and
                        conn.state == PEER_CLOSING):
                    self.connection_logger.debug(
                        f"{conn} in CLOSING state and no more bytes to "
                        f"send, closing socket")
                    self.close_connection_socket(
                        conn, DISCONNECT_REASON_CLEAN_DISCONNECT)
'''), (PEER,
'''    def remove_out_bytes(self, sent_bytes: int):
        """Remove a given amount of bytes from outgoing buffer."""
        self._write_buffer = self._write_buffer[sent_bytes:]
''',
'''    def remove_out_bytes(self, sent_bytes: int) -> int:
        """Remove a given amount of bytes from outgoing buffer.

        Takes care of holding the write lock, callers must not hold it.

        Returns:
            The amount of bytes that still remain in the outgoing buffer.
        """
        remaining = self._write_buffer[sent_bytes:]
        with self.write_lock:
            self._write_buffer = remaining
        return len(remaining)
''')]

EDITS["C17-A"] = [(NODE,
'''            self._origin_waiting_answer[message_id] = (
                origin_host, time.time())
''',
'''            # host names are compared case-insensitively everywhere else
            # (see `receive_cer`), keep the tracked origin in the same form
            self._origin_waiting_answer[message_id] = (
                origin_host.decode().lower(), time.time())
'''), (NODE,
'''                origin_host in self._sent_answers and
                msg.header.end_to_end_identifier in self._sent_answers[origin_host]):
''',
'''                origin_host.decode() in self._sent_answers and
                msg.header.end_to_end_identifier in self._sent_answers[origin_host.decode()]):
''')]

EDITS["C17-F"] = [(NODE,
'''            self._origin_waiting_answer[message_id] = (
                origin_host, time.time())
''',
'''            # DiameterIdentity is compared case-insensitively everywhere else
            # (see `receive_cer`), keep the recorded name normalised as well
            self._origin_waiting_answer[message_id] = (
                origin_host.lower(), time.time())
''')]

EDITS["C17-D"] = [(NODE,
'''        self._sent_answers: dict[str, deque[int]] = {}
''',
'''        self._sent_answers: dict[str, deque[int]] = {}
        # The same identifiers as (origin-host, end-to-end ID) pairs, for a
        # constant time lookup when a request with the "T" flag arrives; the
        # queues above are only used for knowing which identifier to forget.
        self._sent_answer_ids: set[tuple[str, int]] = set()
'''), (NODE,
'''                origin_host in self._sent_answers and
                msg.header.end_to_end_identifier in self._sent_answers[origin_host]):
''',
'''                (origin_host,
                 msg.header.end_to_end_identifier) in self._sent_answer_ids):
'''), (NODE,
'''        self._sent_answers[origin_host].append(message.header.end_to_end_identifier)
''',
'''        answers = self._sent_answers[origin_host]
        if len(answers) == answers.maxlen:
            # queue is full, the oldest identifier is about to be forgotten
            self._sent_answer_ids.discard((origin_host, answers[0]))
        answers.append(message.header.end_to_end_identifier)
        self._sent_answer_ids.add(
            (origin_host, message.header.end_to_end_identifier))
''')]

EDITS["C18-B"] = [(NODE,
'''                        if conn.state == PEER_CLOSED:
                            self.close_connection_socket(
                                conn, DISCONNECT_REASON_CLEAN_DISCONNECT)
                        elif (len(conn.write_buffer) == 0 and
                                not conn.has_queued_messages and
                                conn.state == PEER_CLOSING):
                            self.connection_logger.debug(
                                f"{conn} in CLOSING state and no more bytes to "
                                f"send, closing socket")
''',
'''                        if conn.state in (PEER_CLOSING, PEER_CLOSED):
                            self.connection_logger.debug(
                                f"{conn} in {state_names.get(conn.state)} "
                                f"state, closing socket")
''')]

EDITS["C19-A"] = [(NODE,
'''        self._origin_waiting_answer.pop(message_id, None)

        peer = self._find_connection_peer(conn)
        if peer:
            peer.statistics.add_processed_req_time(message.name, process_time)
            if getattr(message, "result_code", None) is not None:
                peer.statistics.add_sent_result_code(message.result_code)
''',
'''        peer = self._find_connection_peer(conn)
        if peer:
            peer.statistics.add_processed_req_time(message.name, process_time)
            if getattr(message, "result_code", None) is not None:
                peer.statistics.add_sent_result_code(message.result_code)
            # the request has been accounted for, stop tracking it
            self._origin_waiting_answer.pop(message_id, None)
''')]

_INCR_OLD = '''            if self._sequence == self.MAX_SEQUENCE:
                self._sequence = self.MIN_SEQUENCE
            else:
                self._sequence += 1
            return self._sequence
'''
EDITS["C10-C"] = [(HELP, _INCR_OLD,
'''            # 32-bit counter, wraps around at MAX_SEQUENCE
            self._sequence = (self._sequence + 1) & self.MAX_SEQUENCE
            return self._sequence
''')]
EDITS["C16-D"] = [(HELP, _INCR_OLD,
'''            # branch-free roll-over back to the start of the range
            self._sequence = (self._sequence + self.MIN_SEQUENCE) % self.MAX_SEQUENCE
            return self._sequence
''')]

EDITS["C14-G"] = [(PEER,
'''            try:
                with self.write_lock:
                    self._write_buffer += new_msg.as_bytes()
''',
'''            # encode before taking the lock; the node's socket loop needs the
            # same lock after every send and should not have to wait for a
            # large message to be packed
            msg_bytes = new_msg.as_bytes()
            try:
                with self.write_lock:
                    self._write_buffer += msg_bytes
''')]

EDITS["C15-D"] = [(PEER,
'''            try:
                with self.write_lock:
                    self._write_buffer += new_msg.as_bytes()

                self.msg_dump.sent(new_msg)
                self.logger.debug(f"sent diameter message {new_msg}")
''',
'''            # pick up everything else that has been queued in the meantime, so
            # that a burst of messages takes the lock and wakes up the node
            # only once
            pending: list[Message] = [new_msg]
            try:
                while True:
                    pending.append(self._write_msg_queue.get_nowait())
                    self._write_msg_queue.task_done()
            except queue.Empty:
                pass

            try:
                with self.write_lock:
                    for new_msg in pending:
                        self._write_buffer += new_msg.as_bytes()

                for new_msg in pending:
                    self.msg_dump.sent(new_msg)
                    self.logger.debug(f"sent diameter message {new_msg}")
''')]

_WIN_OLD = '''            if origin_host not in self._sent_answers:
                self._sent_answers[origin_host] = deque(
                    maxlen=self.retransmit_queue_size)

            self._sent_answers[origin_host].append(
                message.header.end_to_end_identifier)
'''
EDITS["C17-B"] = [(NODE, _WIN_OLD,
'''            if origin_host not in self._sent_answers:
                self._sent_answers[origin_host] = deque()

            # trim by hand instead of relying on a fixed `maxlen`, so that changes
            # to `retransmit_queue_size` made after the first answer are honoured
            sent_answers = self._sent_answers[origin_host]
            sent_answers.append(message.header.end_to_end_identifier)
            while len(sent_answers) >= self.retransmit_queue_size:
                sent_answers.popleft()
''')]
EDITS["C17-C"] = [(NODE, _WIN_OLD,
'''            # `retransmit_queue_size` may be adjusted at any time, also after the
            # first answer has gone out; the queue is trimmed by hand instead of
            # relying on a `maxlen` that is fixed when the queue is created
            answers = self._sent_answers.setdefault(origin_host, deque())
            answers.append(message.header.end_to_end_identifier)
            while len(answers) >= self.retransmit_queue_size:
                answers.popleft()
''')]
EDITS["C17-D"][2] = (NODE,
'''            self._sent_answers[origin_host].append(
                message.header.end_to_end_identifier)
''',
'''            answers = self._sent_answers[origin_host]
            if len(answers) == answers.maxlen:
                # queue is full, the oldest identifier is about to be forgotten
                self._sent_answer_ids.discard((origin_host, answers[0]))
            answers.append(message.header.end_to_end_identifier)
            self._sent_answer_ids.add(
                (origin_host, message.header.end_to_end_identifier))
''')


# ------------------------------------------------------------------------------------------------
# re-expressed after the second audit round's repairs (section 15 of DESIGN.md)
_DEL_NEW = '''        try:
            del self._peer_waiting_answer[waiting_conn_ident][message_id]
        except KeyError:
            # removed since the search above: the connection has gone away,
            # or another thread has submitted an answer for the same request
            raise NotRoutable(
                f"No peer is waiting (any more) for an answer with ID "
                f"{hex(message.header.hop_by_hop_identifier)}") from None

'''
EDITS["C07-B"] = [(NODE, _DEL_NEW + '''        conn = self.connections.get(waiting_conn_ident)
        if conn is None:
''', '''        conn = self.connections.get(waiting_conn_ident)
        # The pending request record is released by `send_message` once the
        # answer has actually been queued; releasing it already here made a
        # request unanswerable for good if its connection was only
        # temporarily not accepting messages.
        if conn is None:
            self._peer_waiting_answer[waiting_conn_ident].pop(
                message_id, None)
''')]
EDITS["C07-H"] = [(NODE, _DEL_NEW, '''        # The node thread may remove the connection, and with it the whole
        # record of the peer, while an application thread is still routing
        # its answer; that must end as "not routable" below, not as KeyError.
        self._peer_waiting_answer.get(
            waiting_conn_ident, {}).pop(message_id, None)

''')]
EDITS["C09-J"] = [(NODE, _DEL_NEW, '''        # the connection may have been removed, and its table with it, since
        # the snapshot was taken; that is reported as not routable below
        # rather than as a KeyError
        waiting = self._peer_waiting_answer.get(waiting_conn_ident, {})
        waiting.pop(message_id, None)

''')]
EDITS["C09-E"] = [(NODE, _DEL_NEW, ""), (NODE,
'''        if (not message.header.is_request and
                conn.ident in self._peer_waiting_answer and
                message_id in self._peer_waiting_answer[conn.ident]):
            # cleanup in case someone is sending messages directly without
            # using _route_answer
            del self._peer_waiting_answer[conn.ident][message_id]
''', '''        if not message.header.is_request:
            # the pending request is marked as answered here and only here,
            # regardless of whether the answer went through `route_answer` or
            # is being sent directly
            self._peer_waiting_answer.get(
                conn.ident, {}).pop(message_id, None)
''')]
_PRE_OLD = '''        # rfc6733, 5.5.4, check for T flag and reject if already processed
        if (origin_host is not None and msg.header.is_request and
                msg.header.is_retransmit and
                origin_host in self._sent_answers and
                msg.header.end_to_end_identifier in self._sent_answers[origin_host]):
            self.logger.warning(
                f"{conn} message is a retransmission of an already handled "
                f"request, rejecting it")
            err = self._generate_answer(conn, msg)
            # Spec doesn't say what error code to use?
            err.result_code = constants.E_RESULT_CODE_DIAMETER_UNABLE_TO_COMPLY
            err.error_messge = "Duplicate request detected"
            self.send_message(conn, err)
            return

        if msg.header.is_request and self.validate_received_request_avps:
            failed_avp = validate_message_avps(msg)
            if failed_avp:
                self.logger.warning(f"{conn} message failed AVP validation")
                err = self._generate_answer(conn, msg)
                err.result_code = constants.E_RESULT_CODE_DIAMETER_MISSING_AVP
                err.error_message = "Mandatory AVPs missing"
                err.failed_avp = FailedAvp(additional_avps=failed_avp)
                self.send_message(conn, err)
                return

'''
EDITS["C07-C"] = [(NODE, _PRE_OLD, '''        if msg.header.is_request and self._reject_request(conn, msg, origin_host):
            return

'''), (NODE, '''    def _receive_app_request(self, conn: PeerConnection, message: _AnyMessageType):
''', '''    def _reject_request(self, conn: PeerConnection, msg: _AnyMessageType,
                        origin_host: bytes | None) -> bool:
        """Run the pre-dispatch checks for a received request.

        Returns:
            True if the request has been answered with an error and must not
                be processed any further.
        """
        # rfc6733, 5.5.4, check for T flag and reject if already processed
        if (origin_host is not None and msg.header.is_retransmit and
                origin_host in self._sent_answers and
                msg.header.end_to_end_identifier in self._sent_answers[origin_host]):
            self.logger.warning(
                f"{conn} message is a retransmission of an already handled "
                f"request, rejecting it")
            err = self._generate_answer(conn, msg)
            # Spec doesn't say what error code to use?
            err.result_code = constants.E_RESULT_CODE_DIAMETER_UNABLE_TO_COMPLY
            err.error_messge = "Duplicate request detected"
            self.send_message(conn, err)

        if self.validate_received_request_avps:
            failed_avp = validate_message_avps(msg)
            if failed_avp:
                self.logger.warning(f"{conn} message failed AVP validation")
                err = self._generate_answer(conn, msg)
                err.result_code = constants.E_RESULT_CODE_DIAMETER_MISSING_AVP
                err.error_message = "Mandatory AVPs missing"
                err.failed_avp = FailedAvp(additional_avps=failed_avp)
                self.send_message(conn, err)
                return True

        return False

    def _receive_app_request(self, conn: PeerConnection, message: _AnyMessageType):
''')]
EDITS["C08-H"] = [(NODE, '''        except BaseException as e:
            # also what is not an `Exception`''', '''        except NotRoutable as e:
            # the peer that should get the message has gone away in the
            # meantime; not a handling error and no reason for a stack trace
            self.logger.warning(f"{conn} message could not be routed: {e}")

        except BaseException as e:
            # also what is not an `Exception`''')]
EDITS["C10-J"] = [(NODE, '''        if dest_realm is not None:
            realm_name = dest_realm.decode().lower()
''', '''        if dest_realm:
            realm_name = dest_realm.decode().lower()
''')]
EDITS["C11-G"][3:] = [(NODE, '''        self._half_ready_connections.pop(conn.ident, None)
        # requests of this connection that will never be answered any more
''', '''        self._half_ready_connections.pop(conn.ident, None)
        self._connection_timeouts.pop(conn.ident, None)
        # requests of this connection that will never be answered any more
''')]
EDITS["C12-B"] = [(NODE, '''        if peer and peer.connection is conn:
            # unset so that a new connection may be made later; a connection''', '''        if peer:
            # unset so that a new connection may be made later; a connection''')]
EDITS["C12-D"] = [(NODE, '''    def _flag_connection_as_ready(self, conn: PeerConnection):
''', '''    def _flag_peer_as_disconnected(self, peer: Peer, disconnect_reason: int):
        # unset so that a new connection may be made later
        peer.connection = None
        if peer.disconnect_reason is not None:
            # only set if not yet set
            return
        peer.disconnect_reason = disconnect_reason
        peer.last_disconnect = int(time.time())

    def _flag_connection_as_ready(self, conn: PeerConnection):
'''), (NODE, '''            peer.connection = None
            peer.last_disconnect = int(time.time())
            # only set if not yet set
            if peer.disconnect_reason is None:
                peer.disconnect_reason = disconnect_reason
''', '''            self._flag_peer_as_disconnected(peer, disconnect_reason)
''')]
EDITS["C13-E"] = [(NODE, '''        peer_socket = self.peer_sockets.pop(conn.ident, None)
        if peer_socket:
''', '''        peer_socket = self.peer_sockets.pop(conn.ident, None)
        if peer_socket and conn.state != PEER_CLOSED:
''')]
EDITS["C13-I"] = [(NODE, '''        # may run on two threads at once for the same connection
        self.connections.pop(conn.ident, None)
''', '''        # only a connection that was usable can have been the last available
        # one of an application
        was_ready = conn.state in PEER_READY_STATES
        # may run on two threads at once for the same connection
        self.connections.pop(conn.ident, None)
'''), (NODE, '''        self._peer_waiting_answer.pop(conn.ident, None)

        # Check if this was the last available peer''', '''        self._peer_waiting_answer.pop(conn.ident, None)

        if not was_ready:
            # no need to walk the routing table for every refused, failed or
            # half-open connection
            self.logger.debug(f"{conn} removed")
            return

        # Check if this was the last available peer''')]
_PRUNE_NEW = '''            cutoff = slot - self._maxage
            oldest_slot = next(iter(self._slots))
            while len(self._slots) > 0 and oldest_slot < cutoff:
                self._slots.pop(oldest_slot)
                if len(self._slots) > 0:
                    oldest_slot = next(iter(self._slots))
'''
EDITS["C14-E"] = [(HELP, _PRUNE_NEW, '''            # slots are kept in insertion (i.e. chronological) order, forget the
            # leading ones that have fallen out of the window
            cutoff = slot - self._maxage
            for oldest_slot in self._slots:
                if oldest_slot >= cutoff:
                    break
                self._slots.pop(oldest_slot)
''')]
EDITS["C14-F"] = [(HELP, _PRUNE_NEW, '''            # slots are kept in insertion (i.e. chronological) order, drop from the
            # oldest end until the first one that is still young enough
            cutoff = slot - self._maxage
            for old_slot in self._slots:
                if old_slot >= cutoff:
                    break
                del self._slots[old_slot]
''')]
EDITS["C14-H"] = [(NODE, '''                    for pos in range(0, len(wakeups), 6):
''', '''                    for pos in range(0, len(wakeups), 6 * 1024):
''')]
_AFTER_SEND = '''                with conn.write_lock:
                    conn.remove_out_bytes(sent_bytes)
                    self.connection_logger.debug(
                        f"{conn} sent {sent_bytes} bytes, "
                        f"{len(conn.write_buffer)} bytes remain")

                    if (not conn.has_queued_messages and
                            len(conn.write_buffer) == 0 and
                            conn.state == PEER_CLOSING):
                        self.connection_logger.debug(
                            f"{conn} in CLOSING state and no more bytes to "
                            f"send, closing socket")
                        self.close_connection_socket(
                            conn, DISCONNECT_REASON_CLEAN_DISCONNECT)
'''
EDITS["C15-A"] = [(NODE, _AFTER_SEND, '''                conn.remove_out_bytes(sent_bytes)
                self.connection_logger.debug(
                    f"{conn} sent {sent_bytes} bytes, "
                    f"{len(conn.write_buffer)} bytes remain")

                if (not conn.has_queued_messages and
                        len(conn.write_buffer) == 0 and
                        conn.state == PEER_CLOSING):
                    self.connection_logger.debug(
                        f"{conn} in CLOSING state and no more bytes to "
                        f"send, closing socket")
                    self.close_connection_socket(
                        conn, DISCONNECT_REASON_CLEAN_DISCONNECT)
'''), (PEER, '''        """Remove a given amount of bytes from outgoing buffer."""
        self._write_buffer = self._write_buffer[sent_bytes:]
''', '''        """Remove a given amount of bytes from outgoing buffer.

        Takes `write_lock` by itself; the caller must not be holding it."""
        remaining = self._write_buffer[sent_bytes:]
        with self.write_lock:
            self._write_buffer = remaining
''')]
EDITS["C15-E"] = [(NODE, _AFTER_SEND, '''                remaining_bytes = conn.remove_out_bytes(sent_bytes)
                self.connection_logger.debug(
                    f"{conn} sent {sent_bytes} bytes, "
                    f"{remaining_bytes} bytes remain")

                if (not conn.has_queued_messages and
                        remaining_bytes == 0 and
                        conn.state == PEER_CLOSING):
                    self.connection_logger.debug(
                        f"{conn} in CLOSING state and no more bytes to "
                        f"send, closing socket")
                    self.close_connection_socket(
                        conn, DISCONNECT_REASON_CLEAN_DISCONNECT)
'''), (PEER, '''    def remove_out_bytes(self, sent_bytes: int):
        """Remove a given amount of bytes from outgoing buffer."""
        self._write_buffer = self._write_buffer[sent_bytes:]
''', '''    def remove_out_bytes(self, sent_bytes: int) -> int:
        """Remove a given amount of bytes from outgoing buffer.

        Takes care of holding the write lock, callers must not hold it.

        Returns:
            The amount of bytes that still remain in the outgoing buffer.
        """
        remaining = self._write_buffer[sent_bytes:]
        with self.write_lock:
            self._write_buffer = remaining
        return len(remaining)
''')]
_WIN_NEW = '''            # answers are sent by application and connection threads alike:
            # the window of an origin is created by exactly one of them
            self._sent_answers.setdefault(
                origin_host, deque(maxlen=self.retransmit_queue_size)).append(
                message.header.end_to_end_identifier)
'''
EDITS["C17-B"] = [(NODE, _WIN_NEW, EDITS["C17-B"][0][2])]
EDITS["C17-C"] = [(NODE, _WIN_NEW, EDITS["C17-C"][0][2])]
EDITS["C17-D"][2] = (NODE, _WIN_NEW, '''            answers = self._sent_answers.setdefault(
                origin_host, deque(maxlen=self.retransmit_queue_size))
            if len(answers) == answers.maxlen:
                # queue is full, the oldest identifier is about to be forgotten
                self._sent_answer_ids.discard((origin_host, answers[0]))
            answers.append(message.header.end_to_end_identifier)
            self._sent_answer_ids.add(
                (origin_host, message.header.end_to_end_identifier))
''')
EDITS["C17-I"] = [(NODE, '''        self._sent_answers: dict[str, deque[int]] = {}
''', '''        self._sent_answers: dict[str, deque[int]] = {}
        # The same identifiers once more as sets, one for each origin-host; a
        # lookup in a deque of `retransmit_queue_size` entries is a linear
        # scan for every request that arrives with the "T" flag set.
        self._sent_answer_ids: dict[str, set[int]] = {}
'''), (NODE, '''                origin_host in self._sent_answers and
                msg.header.end_to_end_identifier in self._sent_answers[origin_host]):
''', '''                msg.header.end_to_end_identifier in
                self._sent_answer_ids.get(origin_host, ())):
'''), (NODE, _WIN_NEW, '''            window = self._sent_answers.setdefault(
                origin_host, deque(maxlen=self.retransmit_queue_size))
            window_ids = self._sent_answer_ids.setdefault(origin_host, set())
            if len(window) == window.maxlen:
                # the oldest identifier is about to drop out of the window
                window_ids.discard(window[0])
            window.append(message.header.end_to_end_identifier)
            window_ids.add(message.header.end_to_end_identifier)
''')]
EDITS["C17-J"] = [(NODE, _WIN_NEW, '''            # one window per host however the peer spells it: diameter
            # identities are case-insensitive (rfc6733 4.3.1), `add_peer` and
            # `receive_cer` keep them in lower case as well
            origin_host = origin_host.lower()
''' + _WIN_NEW)]
EDITS["C18-B"] = [(NODE, '''                            if conn.state == PEER_CLOSED:
                                self.close_connection_socket(
                                    conn, DISCONNECT_REASON_CLEAN_DISCONNECT)
                            elif (not conn.has_queued_messages and
                                    len(conn.write_buffer) == 0 and
                                    conn.state == PEER_CLOSING):
                                # in this order: a message counts as queued
                                # until the writer has put it into the buffer
                                self.connection_logger.debug(
                                    f"{conn} in CLOSING state and no more bytes "
                                    f"to send, closing socket")
''', '''                            if conn.state in (PEER_CLOSING, PEER_CLOSED):
                                self.connection_logger.debug(
                                    f"{conn} in {state_names.get(conn.state)} "
                                    f"state, closing socket")
''')]
EDITS["C18-G"] = [(NODE, '''                            self.connection_logger.debug(
                                f"interrupt from peer connection {conn_id}, "
                                f"which has already gone away")
''', '''                            self.connection_logger.debug(
                                f"interrupt from peer connection {conn_id}, "
                                f"which has already gone away")
                            break
''')]
EDITS["C18-I"] = [(NODE, '''                    wakeups = os.read(self.interrupt_read, 6 * 1024)
''', '''                    wakeups = os.read(self.interrupt_read, 4096)
''')]
EDITS["C18-K"] = [(NODE, '''            for conn in list(self.connections.values()):
                if conn.state in PEER_READY_STATES:
                    self.send_dpr(conn)
                elif conn.state in (PEER_CONNECTING, PEER_CONNECTED):''', '''            dpr_sent = 0
            for conn in list(self.connections.values()):
                if conn.state in PEER_READY_STATES:
                    self.send_dpr(conn)
                    dpr_sent += 1
                elif conn.state in (PEER_CONNECTING, PEER_CONNECTED):'''), (NODE, '''            abort_wait = False
''', '''            # no DPR has gone out, no DPA to wait for: do not sit out the
            # timeout for connections that never completed their CER/CEA
            abort_wait = dpr_sent == 0
''')]
_CONN_NEW = '''            try:
                conn = PeerConnection(peer.ip_addresses, peer.port,
                                      PEER_SEND, self.interrupt_write)
            except RuntimeError:
                # not possible to start the connection's threads; nothing
                # will ever refer to the socket again
                peer_socket.close()
                raise
            conn.state = PEER_CONNECTING
            conn.node_name = peer.node_name
            conn.origin_host = self.origin_host
'''
EDITS["C19-D"] = [(NODE, '''        if peer.transport == PEER_TRANSPORT_TCP:
            peer_socket = socket.socket(socket.AF_INET, socket.SOCK_STREAM)
            peer_socket.setblocking(False)

''' + _CONN_NEW, '''        # identical for both transports
        conn = PeerConnection(peer.ip_addresses, peer.port,
                              PEER_SEND, self.interrupt_write)
        conn.state = PEER_CONNECTING
        conn.node_name = peer.node_name
        conn.origin_host = self.origin_host

        if peer.transport == PEER_TRANSPORT_TCP:
            peer_socket = socket.socket(socket.AF_INET, socket.SOCK_STREAM)
            peer_socket.setblocking(False)

'''), (NODE, '''            peer_socket = sctp.sctpsocket_tcp(socket.AF_INET)
            peer_socket.setblocking(False)

''' + _CONN_NEW, '''            peer_socket = sctp.sctpsocket_tcp(socket.AF_INET)
            peer_socket.setblocking(False)

''')]
EDITS["C19-I"] = [(NODE, '''        self._peer_waiting_answer.pop(conn.ident, None)

        # Check if this was the last available peer''', '''        unanswered = self._peer_waiting_answer.get(conn.ident)
        if unanswered:
            self.logger.info(
                f"{conn} has gone with {len(unanswered)} requests still "
                f"waiting for an answer from their application")
            del self._peer_waiting_answer[conn.ident]

        # Check if this was the last available peer''')]
EDITS["C19-C"] = [(HELP, '''    def add_count(self, count: int):
''', '''    def _expire(self, now: int):
        """Forget counter values that are older than the maximum age."""
        cutoff = now - self._maxage
        while len(self._slots) > 0:
            oldest_slot = next(iter(self._slots))
            if oldest_slot >= cutoff:
                break
            self._slots.pop(oldest_slot)

    def add_count(self, count: int):
'''), (HELP, '''            self._slots[slot] += count

''' + _PRUNE_NEW, '''            self._slots[slot] += count
'''), (HELP, '''        with self._lock:
            if since_seconds is None:
                return sum(self._slots.values())
            count = 0
            cutoff = int(time.time()) - since_seconds
''', '''        with self._lock:
            now = int(time.time())
            self._expire(now)
            if since_seconds is None:
                return sum(self._slots.values())
            count = 0
            cutoff = now - since_seconds
'''), (HELP, '''        counts = [0] * len(cutoffs)
        with self._lock:
''', '''        counts = [0] * len(cutoffs)
        with self._lock:
            self._expire(now)
''')]


# ------------------------------------------------------------------------------------------------
# re-expressed after the review of the second audit's repairs (section 16 of DESIGN.md)
BASE = "src/diameter/message/_base.py"
EDITS["C02-A"] = [(BASE, '''    found = []
    for avp in avps:
        if avp.code == code and avp.vendor_id == vendor:
            if len(code_and_vendor_path) == 1:
                # we have reached the end
                found.append(avp)
            elif not isinstance(avp, AvpGrouped):
                # cannot go further anyway
                found.append(avp)
            else:
                try:
                    members = avp.value
                except AvpDecodeError:
                    # a group that cannot be decoded has no members to search
                    continue
                found += _traverse_avp_tree(members, code_and_vendor_path[1:])
''', '''    found = []
    remaining_path = code_and_vendor_path[1:]
    for avp in avps:
        if avp.code != code or (vendor and avp.vendor_id != vendor):
            continue
        if not remaining_path or not isinstance(avp, AvpGrouped):
            # we have reached the end, or cannot go further anyway
            found.append(avp)
        else:
            try:
                members = avp.value
            except AvpDecodeError:
                # a group that cannot be decoded has no members to search
                continue
            found += _traverse_avp_tree(members, remaining_path)
''')]
_CER_OLD = '''        cer_origin_host = message.origin_host.lower().decode(errors="replace")
'''
EDITS["C06-G"] = [(NODE, _CER_OLD, '''        # keep the identity exactly as advertised by the peer, it is what is
        # shown in logs and statistics; only the election is case-insensitive
        cer_origin_host = message.origin_host.decode(errors="replace")
'''), (NODE, '''            if self.origin_host.lower() > cer_origin_host:
''', '''            if self.origin_host.lower() > cer_origin_host.lower():
''')]
EDITS["C06-K"] = [(NODE, _CER_OLD, '''        cer_origin_host = message.origin_host.decode(errors="replace")
'''), (NODE, '''        if cer_origin_host not in self.peers:
''', '''        if cer_origin_host.lower() not in self.peers:
'''), (NODE, '''                             if peer.origin_host == cer_origin_host]
        if other_connections:
            if self.origin_host.lower() > cer_origin_host:
''', '''                             if peer.origin_host.lower() == cer_origin_host.lower()]
        if other_connections:
            if self.origin_host.lower() > cer_origin_host.lower():
''')]
EDITS["C08-I"] = [(NODE, _CER_OLD, '''        cer_origin_host = message.origin_host.decode(errors="replace")
        peer_name = cer_origin_host.lower()
'''), (NODE, '''        if cer_origin_host not in self.peers:
''', '''        if peer_name not in self.peers:
'''), (NODE, '''                             if peer.origin_host == cer_origin_host]
        if other_connections:
            if self.origin_host.lower() > cer_origin_host:
''', '''                             if peer.origin_host.lower() == peer_name]
        if other_connections:
            if self.origin_host.lower() > peer_name:
''')]
EDITS["C09-E"] = [(NODE, _DEL_NEW, "")]
EDITS["C10-J"] = [(NODE, '''        if dest_realm is not None:
            # folded as bytes''', '''        if dest_realm:
            # folded as bytes''')]
_ARRIVAL = '''        # the idle clock follows what has arrived, not what the connection's
        # reader thread has got round to (it may be busy in a request handler)
        self.reset_last_read()
        self._read_buffer_queue.put(read_bytes)
'''
EDITS["C11-B"] = [(PEER, _ARRIVAL, '''        self._read_buffer_queue.put(read_bytes)
'''), (PEER, '''                        self.reset_last_message()
                        self._read_buffer = self._read_buffer[msg_header.length:]
''', '''                        self.reset_last_message()
                        self.reset_last_read()
                        self._read_buffer = self._read_buffer[msg_header.length:]
''')]
EDITS["C11-E"] = [(PEER, '''        self._last_msg: int = 0
''', ""), (PEER, '''        self.reset_last_message()
        self.reset_last_read()
''', '''        self.reset_last_read()
'''), (PEER, '''    def reset_last_message(self):
        """Mark that a full diameter message has been received.

        Resets the internal idle counter.
        """
        self._last_msg = int(time.time())

    def reset_last_read(self):
        """Mark that bytes have been received from the network.

        Resets the internal idle counter.
        """
        self._last_read = int(time.time())
''', '''    def reset_last_read(self):
        """Mark that something has been received from the network.

        Resets the internal idle counter.
        """
        self._last_read = int(time.time())

    # kept for backwards compatibility, there used to be a separate (never
    # consulted) timestamp for the last complete message
    reset_last_message = reset_last_read
'''), (PEER, _ARRIVAL, '''        self._read_buffer_queue.put(read_bytes)
''')]
_TIMER_LOOP_HEAD = '''            for conn in list(self.connections.values()):
                # a wake-up can get lost'''
EDITS["C11-C"] = [(NODE, '''    def _handle_connections(self, _thread: StoppableThread):
        while True:
''', '''    def _handle_connections(self, _thread: StoppableThread):
        # busy nodes spin through this loop far more often than once per
        # wakeup interval; peer timers have a one-second resolution and need
        # not be walked through on every single pass
        last_wakeup = 0
        while True:
'''), (NODE, '''                else:
                    self._check_timers(conn)

            self._reconnect_peers()
''', '''                elif int(time.time()) - last_wakeup >= self.wakeup_interval:
                    self._check_timers(conn)
            last_wakeup = int(time.time())

            self._reconnect_peers()
''')]
EDITS["C12-F"] = [(NODE, _TIMER_LOOP_HEAD, '''            for conn in self.connections.values():
                # a wake-up can get lost''')]
EDITS["C18-K"] = [(NODE, '''            for conn in list(self.connections.values()):
                if conn.state in PEER_READY_STATES:
                    self.send_dpr(conn)
                elif conn.state in (PEER_CONNECTING, PEER_CONNECTED):''', '''            dpr_sent = 0
            for conn in list(self.connections.values()):
                if conn.state in PEER_READY_STATES:
                    self.send_dpr(conn)
                    dpr_sent += 1
                elif conn.state in (PEER_CONNECTING, PEER_CONNECTED):'''), (NODE, '''            abort_wait = False
''', '''            # no DPR has gone out, no DPA to wait for: do not sit out the
            # timeout for connections that never completed their CER/CEA
            abort_wait = dpr_sent == 0
''')]
EDITS["C19-K"] = [(PEER, '''        self._write_thread.stop()
        if signal_node:
            self.demand_attention()
''', '''        self._write_thread.stop()
        # the reader sleeps on its queue; have it notice right away
        self._read_buffer_queue.put(b"")
        if signal_node:
            self.demand_attention()
'''), (PEER, '''        while True:
            if _thread.is_stopped:
                break
            try:
                new_buffer: bytes = self._read_buffer_queue.get(True, 5)
                self.logger.debug(f"read {len(new_buffer)} bytes")
                self._read_buffer += new_buffer
            except queue.Empty:
                continue
''', '''        while True:
            # no need to poll: `close` wakes the thread up with an empty chunk
            new_buffer: bytes = self._read_buffer_queue.get()
            if _thread.is_stopped:
                break
            if not new_buffer:
                continue
            self.logger.debug(f"read {len(new_buffer)} bytes")
            self._read_buffer += new_buffer
''')]
EDITS["C13-G"] = [(NODE, '''        self._assign_peer_connection(conn)
        self._flag_connection_as_ready(conn)
        self.logger.info(
            f"{conn} is now ready, determined supported auth applications: "
            f"{supported_auth_apps}, supported acct applications: "
''', '''        # go READY before the connection is published on the peer, so that
        # an application thread routing a request at this very moment never
        # picks up a `peer.connection` that is still in CONNECTED state
        self._flag_connection_as_ready(conn)
        self._assign_peer_connection(conn)
        self.logger.info(
            f"{conn} is now ready, determined supported auth applications: "
            f"{supported_auth_apps}, supported acct applications: "
''')]
