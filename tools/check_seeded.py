#!/usr/bin/env python3
"""Run the registered quick check of each seeded defect's property against a scratch
copy of /repo/src with the patch applied.  Prints detected / MISSED per seed.
usage: check_seeded.py [C16-A ...]"""
import glob, json, os, shutil, subprocess, sys, tempfile, concurrent.futures as cf
PY = "/venv/bin/python"
VERIF = os.path.dirname(os.path.dirname(os.path.abspath(__file__)))

def one(sd):
    name = os.path.basename(sd)
    pid = name.split("-")[0]
    try:
        if json.load(open(os.path.join(sd, "meta.json"))).get("obsolete"):
            return name, "obsolete", ""
    except Exception:
        pass
    tmp = tempfile.mkdtemp(prefix="seedrun.")
    try:
        shutil.copytree("/repo/src", os.path.join(tmp, "src"), ignore=shutil.ignore_patterns("__pycache__", "*.egg-info"))
        a = subprocess.run(["git", "apply", "--directory", tmp, "--unsafe-paths", os.path.join(sd, "patch.diff")],
                           cwd=tmp, capture_output=True, text=True)
        if a.returncode != 0:
            a = subprocess.run(["patch", "-p1", "-d", tmp, "-i", os.path.join(sd, "patch.diff")], capture_output=True, text=True)
            if a.returncode != 0:
                return name, "PATCH-FAILED", a.stdout[-300:] + a.stderr[-300:]
        props = [pid] + [p for p in sys.argv[1:] if p.startswith("+")]
        r = subprocess.run([PY, "-B", "-m", "dv.cli", pid, "--src", os.path.join(tmp, "src"),
                            "--evidence", os.path.join(tmp, "ev.json")], cwd=VERIF, capture_output=True, text=True)
        lines = [l for l in r.stdout.splitlines() if l.startswith(("VIOLATION", "  rule=", "ANALYSIS-ERROR"))]
        st = {0: "MISSED", 1: "detected", 2: "ANALYSIS-ERROR"}.get(r.returncode, str(r.returncode))
        return name, st, "\n".join(lines[:6])[:900]
    finally:
        shutil.rmtree(tmp, ignore_errors=True)

if __name__ == "__main__":
    want = [a for a in sys.argv[1:] if not a.startswith("+")]
    seeds = sorted(glob.glob(os.path.join(VERIF, "seeded", "*")))
    seeds = [s for s in seeds if os.path.isdir(s) and (not want or os.path.basename(s) in want or os.path.basename(s).split("-")[0] in want)]
    with cf.ThreadPoolExecutor(12) as ex:
        for name, st, detail in ex.map(one, seeds):
            print(f"[{st}] {name}")
            if detail:
                print("    " + detail.replace("\n", "\n    "))
