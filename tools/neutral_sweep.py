#!/usr/bin/env python3
"""Invariance sweep (developer tool): apply whole-tree behaviour-preserving rewrites to a
scratch copy of /repo/src and require every check to keep its verdict (exit 0).

  unparse   every module re-rendered with ast.unparse (formatting, comments, quotes)
  rename    every local variable (not parameters) of every function renamed  x -> x_rn
  nestif    `if a and b:` without else  ->  `if a:\n if b:`
  passes    a `pass`-like no-op statement inserted at the start of every function body
usage: neutral_sweep.py [kind ...]"""
import ast, os, shutil, subprocess, sys, tempfile, concurrent.futures as cf

PY = "/venv/bin/python"
VERIF = os.path.dirname(os.path.dirname(os.path.abspath(__file__)))
PROPS = [f"C{i:02d}" for i in range(1, 21)]


sys.path.insert(0, VERIF)
from dv.neutral import KINDS, transform


def run(kind):
    tmp = tempfile.mkdtemp(prefix="dvneutral.")
    try:
        dst = os.path.join(tmp, "src")
        shutil.copytree("/repo/src", dst, ignore=shutil.ignore_patterns("__pycache__", "*.egg-info"))
        transform(os.path.join(dst, "diameter"), kind)
        # the rewritten tree must still import and pass the pinned suite
        r = subprocess.run([PY, "-m", "pytest", "-q", "-p", "no:cacheprovider", "-x", "--timeout=900",
                            "--deselect", "tests/test_avp.py::test_create_time_type"],
                           cwd="/repo", env={**os.environ, "PYTHONPATH": dst}, capture_output=True, text=True)
        suite = r.returncode
        def one(p):
            r = subprocess.run([PY, "-B", "-m", "dv.cli", p, "--src", dst, "--evidence",
                                os.path.join(tmp, f"{p}.json")], cwd=VERIF, capture_output=True, text=True)
            lines = [l for l in r.stdout.splitlines() if l.startswith(("VIOLATION", "  rule=", "ANALYSIS-ERROR"))]
            return p, r.returncode, lines[:4]
        with cf.ThreadPoolExecutor(10) as ex:
            res = list(ex.map(one, PROPS))
        print(f"== {kind}: pinned suite exit {suite}")
        for p, rc, lines in res:
            if rc != 0:
                print(f"  [{rc}] {p}")
                for l in lines:
                    print("      " + l[:260])
        print(f"   {sum(1 for _, rc, _ in res if rc == 0)}/20 checks unchanged")
    finally:
        shutil.rmtree(tmp, ignore_errors=True)


if __name__ == "__main__":
    for k in (sys.argv[1:] or list(KINDS)):
        run(k)
