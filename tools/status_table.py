#!/usr/bin/env python3
"""Print the per-property status table of DESIGN.md (rules, instances, known findings, corpus)."""
import glob, json, os
V = os.path.dirname(os.path.dirname(os.path.abspath(__file__)))
kf = json.load(open(os.path.join(V, "known_findings.json")))["findings"]
print("| id | rules | rule instances analysed | known findings (keys) | repairs recorded (commits) | seeds reported / obsolete |")
print("|---|---|---|---|---|---|")
for i in range(1, 21):
    p = f"C{i:02d}"
    ev = json.load(open(os.path.join(V, "evidence", f"{p}.json")))
    rules = ev["coverage"].get("rules", {})
    inst = sum(r.get("instances", 0) for r in rules.values())
    known = [f for f in kf if f["property"] == p and f["status"] == "known"]
    fixed = {f.get("commit") for f in kf if f["property"] == p and f["status"] == "fixed"}
    seeds = glob.glob(os.path.join(V, "seeded", f"{p}-*"))
    obs = sum(1 for s in seeds if json.load(open(os.path.join(s, "meta.json"))).get("obsolete"))
    print(f"| {p} | {len(rules)} | {inst} | {len(known)} | {len(fixed)} | {len(seeds) - obs} / {obs} |")
