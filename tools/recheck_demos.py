#!/usr/bin/env python3
"""Developer tool: re-run the demonstration of every seeded defect against the CURRENT /repo:
on the clean tree it must pass (exit 0), with the seed's patch applied it must fail.  Seeds whose
demonstration no longer behaves like that need their harness adapted (or are obsolete).
usage: recheck_demos.py [C11-E ...]"""
import glob, json, os, shutil, subprocess, sys, tempfile, concurrent.futures as cf
PY = "/venv/bin/python"
VERIF = os.path.dirname(os.path.dirname(os.path.abspath(__file__)))


def run(cmd, env, cwd, t=240):
    try:
        return subprocess.run(cmd, cwd=cwd, env=env, capture_output=True, text=True, timeout=t).returncode
    except subprocess.TimeoutExpired:
        return 124


def one(sd):
    name = os.path.basename(sd)
    try:
        if json.load(open(os.path.join(sd, "meta.json"))).get("obsolete"):
            return name, "obsolete"
    except Exception:
        pass
    demos = sorted(f for f in os.listdir(sd) if f.startswith("demo") and f.endswith(".py"))
    if not demos:
        return name, "no demo"
    tmp = tempfile.mkdtemp(prefix="demochk.")
    try:
        root = os.path.join(tmp, "wt")
        os.makedirs(root)
        shutil.copytree("/repo/src", os.path.join(root, "src"), ignore=shutil.ignore_patterns("__pycache__", "*.egg-info"))
        if os.path.isdir("/repo/tests"):
            shutil.copytree("/repo/tests", os.path.join(root, "tests"), ignore=shutil.ignore_patterns("__pycache__"))
        src = open(os.path.join(sd, demos[0])).read().replace("/repo", root)
        demo = os.path.join(tmp, demos[0])
        open(demo, "w").write(src)
        cmd = [PY, "-m", "pytest", "-q", "-p", "no:cacheprovider", "--timeout=120", demo] \
            if ("def test_" in src and "__main__" not in src) else [PY, demo]
        env = dict(os.environ, PYTHONPATH=os.path.join(root, "src"))
        rc0 = run(cmd, env, root)
        r = subprocess.run(["patch", "-p1", "-s", "-d", root, "-i", os.path.join(sd, "patch.diff")],
                           capture_output=True, text=True)
        if r.returncode != 0:
            return name, f"PATCH-FAILED clean={rc0}"
        rc1 = run(cmd, env, root)
        ok = rc0 == 0 and rc1 not in (0, 124)
        return name, ("ok" if ok else f"STALE clean={rc0} patched={rc1}")
    finally:
        shutil.rmtree(tmp, ignore_errors=True)


if __name__ == "__main__":
    want = sys.argv[1:]
    seeds = sorted(glob.glob(os.path.join(VERIF, "seeded", "C*-*")))
    seeds = [s for s in seeds if not want or os.path.basename(s) in want]
    bad = 0
    with cf.ThreadPoolExecutor(14) as ex:
        for name, st in ex.map(one, seeds):
            if st not in ("ok", "obsolete"):
                bad += 1
                print(f"[{st}] {name}")
    print(f"{len(seeds)} seeds, {bad} need attention")
