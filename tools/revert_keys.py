#!/usr/bin/env python3
"""Developer tool: revert one /repo commit in a scratch copy, run all 20 checks and print the
finding keys (rule:construct) that appear - the keys to record as `fixed` in known_findings.json.
usage: revert_keys.py <commit> [--record "<what failed>"]"""
import json, os, re, shutil, subprocess, sys, tempfile, concurrent.futures as cf
VERIF = os.path.dirname(os.path.dirname(os.path.abspath(__file__)))
PY = "/venv/bin/python"
commit = sys.argv[1]
short = subprocess.check_output(["git", "-C", "/repo", "rev-parse", "--short", commit], text=True).strip()
tmp = tempfile.mkdtemp(prefix="revkeys.")
try:
    shutil.copytree("/repo/src", os.path.join(tmp, "src"), ignore=shutil.ignore_patterns("__pycache__", "*.egg-info"))
    diff = subprocess.check_output(["git", "-C", "/repo", "show", commit], text=True)
    r = subprocess.run(["patch", "-R", "-p1", "-s", "-d", tmp], input=diff, text=True, capture_output=True)
    if r.returncode != 0:
        print("revert does not apply:", r.stdout[-300:], r.stderr[-300:]); sys.exit(2)
    known = {f["key"] for f in json.load(open(os.path.join(VERIF, "known_findings.json")))["findings"]}
    def one(p):
        r = subprocess.run([PY, "-B", "-m", "dv.cli", p, "--src", os.path.join(tmp, "src"), "--evidence",
                            os.path.join(tmp, f"{p}.json")], cwd=VERIF, capture_output=True, text=True)
        out = []
        for l in r.stdout.splitlines():
            m = re.match(r"\s+rule=(\S+) construct=(\S+)", l)
            if m:
                out.append((p, f"{m.group(1)}:{m.group(2)}"))
        return out
    keys = []
    with cf.ThreadPoolExecutor(10) as ex:
        for res in ex.map(one, [f"C{i:02d}" for i in range(1, 21)]):
            keys += res
    new = [(p, k) for p, k in keys if k not in known]
    for p, k in keys:
        print(("NEW  " if (p, k) in new else "     ") + p, k)
    if "--record" in sys.argv and new:
        what = sys.argv[sys.argv.index("--record") + 1]
        path = os.path.join(VERIF, "known_findings.json")
        d = json.load(open(path))
        for p, k in new:
            d["findings"].append({"property": p, "key": k, "status": "fixed", "commit": short,
                                  "what_fails": f"fixed: property={p} {short} {what}"})
        json.dump(d, open(path, "w"), indent=1)
        print(f"recorded {len(new)} keys for {short}")
finally:
    shutil.rmtree(tmp, ignore_errors=True)
