#!/usr/bin/env python3
"""Developer tool: re-express a seeded defect against /repo HEAD from an explicit edit list
(file, old, new), confirm it (demo passes clean / fails patched, pinned suite passes with the
patch) in a scratch worktree, and rewrite seeded/<name>/patch.diff + meta.json.
The edit lists live in tools/reseed_edits.py (EDITS[name] = [(relpath, old, new), ...])."""
import importlib.util, json, os, shutil, subprocess, sys, tempfile
PY = "/venv/bin/python"
SUITE = [PY, "-m", "pytest", "-q", "-p", "no:cacheprovider", "-x", "--timeout=900",
         "--deselect", "tests/test_avp.py::test_create_time_type"]
spec = importlib.util.spec_from_file_location("e", "/verif/tools/reseed_edits.py")
mod = importlib.util.module_from_spec(spec); spec.loader.exec_module(mod)
head = subprocess.check_output(["git", "-C", "/repo", "rev-parse", "--short", "HEAD"], text=True).strip()
names = sys.argv[1:] or list(mod.EDITS)
for name in names:
    sd = f"/verif/seeded/{name}"
    tmp = tempfile.mkdtemp(prefix="reseed.")
    wt = os.path.join(tmp, "wt")
    try:
        subprocess.check_call(["git", "-C", "/repo", "worktree", "add", "-q", "--detach", wt, "HEAD"])
        bad = False
        for rel, old, new in mod.EDITS[name]:
            p = os.path.join(wt, rel)
            s = open(p).read()
            if s.count(old) != 1:
                print(f"{name}: anchor occurs {s.count(old)} times in {rel}: {old[:60]!r}")
                bad = True
                break
            open(p, "w").write(s.replace(old, new))
        if bad:
            continue
        diff = subprocess.check_output(["git", "-C", wt, "diff", "HEAD", "--", "src"], text=True)
        env = dict(os.environ, PYTHONPATH=os.path.join(wt, "src"))
        demos = sorted(f for f in os.listdir(sd) if f.startswith("demo") and f.endswith(".py"))
        demo = os.path.join(tmp, demos[0])
        src = open(os.path.join(sd, demos[0])).read().replace("/repo", wt)
        open(demo, "w").write(src)
        cmd = [PY, "-m", "pytest", "-q", "-p", "no:cacheprovider", "--timeout=120", demo] \
            if ("def test_" in src and "__main__" not in src) else [PY, demo]
        def run(c, t=300):
            try:
                return subprocess.run(c, cwd=wt, env=env, capture_output=True, text=True, timeout=t).returncode
            except subprocess.TimeoutExpired:
                return 124
        rc1 = run(cmd)
        rcs = run(SUITE, 900)
        subprocess.run(["git", "-C", wt, "checkout", "-q", "--", "."])
        rc0 = run(cmd)
        ok = rc0 == 0 and rc1 not in (0, 124) and rcs == 0
        print(f"{name}: demo clean={rc0} patched={rc1} suite={rcs} -> {'OK' if ok else 'NOT CONFIRMED'}")
        if ok:
            open(os.path.join(sd, "patch.diff"), "w").write(diff)
            m = json.load(open(os.path.join(sd, "meta.json")))
            m["rebased"] = (f"patch.diff re-expressed against /repo {head} (the same defect; the lines it "
                            f"touches were changed by later fix commits); demo re-confirmed: clean exit 0, "
                            f"patched exit {rc1}, pinned suite passes")
            json.dump(m, open(os.path.join(sd, "meta.json"), "w"), indent=1)
    finally:
        subprocess.run(["git", "-C", "/repo", "worktree", "remove", "--force", wt], capture_output=True)
        shutil.rmtree(tmp, ignore_errors=True)
subprocess.run(["git", "-C", "/repo", "worktree", "prune"])
