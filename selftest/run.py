#!/usr/bin/env python3
"""Developer self-test: apply each variant of selftest/variants/*.py to a scratch
copy of /repo/src (under $TMPDIR, removed afterwards) and require the named
check to fire (B variants, naming the expected rule) or to stay silent (N).

usage: selftest/run.py [-j N] [-k substring] [--prop C15] [--keep]
"""
from __future__ import annotations

import argparse
import concurrent.futures as cf
import glob
import importlib.util
import os
import shutil
import subprocess
import sys
import tempfile

HERE = os.path.dirname(os.path.abspath(__file__))
VERIF = os.path.dirname(HERE)
SRC = os.environ.get("DV_SRC", "/repo/src")
PY = "/venv/bin/python" if os.path.exists("/venv/bin/python") else sys.executable


def load_variants():
    out = []
    for path in sorted(glob.glob(os.path.join(HERE, "variants", "*.py"))):
        spec = importlib.util.spec_from_file_location("v", path)
        mod = importlib.util.module_from_spec(spec)
        spec.loader.exec_module(mod)
        for v in mod.VARIANTS:
            v = dict(v)
            v.setdefault("prop", os.path.basename(path)[:-3].upper())
            out.append(v)
    return out


def apply_edits(root, edits):
    for rel, old, new, *rest in edits:
        p = os.path.join(root, rel)
        s = open(p).read()
        cnt = s.count(old)
        if cnt != (rest[0] if rest else 1):
            return f"edit anchor occurs {cnt} times in {rel}: {old[:60]!r}"
        open(p, "w").write(s.replace(old, new))
    return None


def run_variant(v):
    tmp = tempfile.mkdtemp(prefix="dvmut.")
    try:
        dst = os.path.join(tmp, "src")
        shutil.copytree(SRC, dst, ignore=shutil.ignore_patterns("__pycache__", "*.egg-info"))
        err = apply_edits(dst, v["edits"])
        if err:
            return v, "BROKEN-VARIANT", err
        # the variant must still compile
        for rel, *_ in v["edits"]:
            r = subprocess.run([PY, "-m", "py_compile", os.path.join(dst, rel)],
                               capture_output=True, text=True)
            if r.returncode != 0:
                return v, "BROKEN-VARIANT", "does not compile: " + r.stderr[-200:]
        r = subprocess.run(
            [PY, "-B", "-m", "dv.cli", v["prop"], "--src", dst,
             "--evidence", os.path.join(tmp, "ev.json")],
            cwd=VERIF, capture_output=True, text=True)
        out = r.stdout + r.stderr
        want = v.get("expect", "fire")
        if want == "fire":
            ok = r.returncode == 1 and "VIOLATION" in out
            if ok and v.get("rule"):
                ok = f"rule={v['rule']}" in out
        elif want == "silent":
            ok = r.returncode == 0 and "VIOLATION" not in out
        elif want == "error":
            ok = r.returncode == 2
        else:
            ok = False
        return v, "ok" if ok else "FAIL", f"exit={r.returncode}\n" + out[-1500:]
    finally:
        shutil.rmtree(tmp, ignore_errors=True)


def main():
    ap = argparse.ArgumentParser()
    ap.add_argument("-j", type=int, default=16)
    ap.add_argument("-k", default="")
    ap.add_argument("--prop", default="")
    ap.add_argument("-v", action="store_true")
    a = ap.parse_args()
    vs = [v for v in load_variants()
          if a.k in v["id"] and (not a.prop or v["prop"] == a.prop.upper())]
    bad = 0
    with cf.ThreadPoolExecutor(a.j) as ex:
        for v, status, detail in ex.map(run_variant, vs):
            if status != "ok" or a.v:
                print(f"[{status}] {v['prop']} {v['id']} (expect {v.get('expect', 'fire')}"
                      f"{' ' + v['rule'] if v.get('rule') else ''})")
                if status != "ok":
                    print("    " + detail.replace("\n", "\n    "))
                    bad += 1
    print(f"{len(vs)} variants, {bad} failed")
    return 1 if bad else 0


if __name__ == "__main__":
    sys.exit(main())
