"""Demonstration (not a check): a peer configured with upper-case letters in its URI is never
recognised when it connects.  Node.add_peer stores the peer under the URI's host name as
written, Node.receive_cer looks the lower-cased Origin-Host up in that table: the CER of the
configured peer Peer1.Example.NET is answered 3010 (unknown peer) and the connection is closed.
Run with PYTHONPATH=<repo>/src; exit 1 = the configured peer is rejected."""
import os, sys
from diameter.message import Message, constants
from diameter.message.commands import CapabilitiesExchangeRequest
from diameter.node import Node
from diameter.node.application import Application
from diameter.node.peer import PeerConnection, PEER_RECV, PEER_CONNECTED, PEER_READY

node = Node("n.example.net", "example.net", ip_addresses=["127.0.0.1"])
peer = node.add_peer("aaa://Peer1.Example.NET")
app = Application(4, is_auth_application=True)
node.add_application(app, [peer])

r, w = os.pipe()
conn = PeerConnection("127.0.0.1", 1, PEER_RECV, w)
conn.ident = os.urandom(6).hex(); conn.state = PEER_CONNECTED
node.connections[conn.ident] = conn
sent = []
conn.add_out_msg = lambda m: sent.append(m)

cer = CapabilitiesExchangeRequest()
cer.origin_host = b"Peer1.Example.NET"; cer.origin_realm = b"example.net"
cer.host_ip_address = "127.0.0.1"; cer.vendor_id = 99; cer.product_name = "x"
cer.auth_application_id = 4
cer.header.hop_by_hop_identifier = 1; cer.header.end_to_end_identifier = 1
node._receive_message(conn, Message.from_bytes(cer.as_bytes()))
rc = sent[0].result_code if sent else None
print("CEA result code:", rc, "connection state:", conn.state, "peer.connection bound:", peer.connection is conn)
ok = rc == constants.E_RESULT_CODE_DIAMETER_SUCCESS and conn.state == PEER_READY and peer.connection is conn
conn.close(signal_node=False)
sys.exit(0 if ok else 1)
