"""Demonstration (not a check): an application answers a request of a known peer with an answer
that carries Experimental-Result instead of Result-Code (every 3GPP rejection does).
Node.send_message queues the answer and then _record_answer -> PeerStats.add_sent_result_code(None)
raises TypeError; the exception travels up through Application.send_answer into the error handler
of Node._receive_message, which transmits a second (5012) answer for the same request.
Run with PYTHONPATH=<repo>/src; exit 1 = two answers were transmitted for one request."""
import os, sys
from diameter.message import Message, constants
from diameter.message.commands import UpdateLocationRequest
from diameter.message.avp.grouped import ExperimentalResult, VendorSpecificApplicationId
from diameter.node import Node
from diameter.node.application import Application
from diameter.node.peer import PeerConnection, PEER_RECV, PEER_READY

class App(Application):
    def handle_request(self, message):
        ans = self.generate_answer(message)
        ans.auth_session_state = 1
        ans.experimental_result = ExperimentalResult(vendor_id=10415, experimental_result_code=5001)
        self.send_answer(ans)

node = Node("n.example.net", "example.net", ip_addresses=["127.0.0.1"])
peer = node.add_peer("aaa://hss.example.net")
app = App(constants.APP_3GPP_S6A_S6D, is_auth_application=True)
node.add_application(app, [peer])
r, w = os.pipe()
conn = PeerConnection("127.0.0.1", 1, PEER_RECV, w)
conn.ident = os.urandom(6).hex(); conn.state = PEER_READY
conn.host_identity = conn.node_name = "hss.example.net"
node.connections[conn.ident] = conn; peer.connection = conn
sent = []
conn.add_out_msg = lambda m: sent.append(m)

ulr = UpdateLocationRequest()
ulr.session_id = "s;1"; ulr.auth_session_state = 1
ulr.origin_host = b"hss.example.net"; ulr.origin_realm = b"example.net"
ulr.destination_realm = b"example.net"; ulr.user_name = "001010000000001"
ulr.vendor_specific_application_id = VendorSpecificApplicationId(vendor_id=10415, auth_application_id=constants.APP_3GPP_S6A_S6D)
ulr.header.application_id = constants.APP_3GPP_S6A_S6D
ulr.rat_type = 1004; ulr.ulr_flags = 0; ulr.visited_plmn_id = b"\x00\xf1\x10"
ulr.header.hop_by_hop_identifier = 0x1001; ulr.header.end_to_end_identifier = 0x2002
node._receive_message(conn, Message.from_bytes(ulr.as_bytes()))

print("answers transmitted for one request:",
      [(type(m).__name__, getattr(m, "result_code", None), hex(m.header.hop_by_hop_identifier)) for m in sent])
conn.close(signal_node=False)
sys.exit(0 if len(sent) == 1 else 1)
