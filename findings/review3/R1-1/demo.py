"""Node.stop() still fails in Thread.join ('cannot join thread before it is
started') when the half-way failure happened in an application's start().

6e990cb made Node.stop() join only those of the NODE's threads that were
started.  Node.stop() ends with `for app in self.applications: app.stop()`,
and ThreadingApplication.stop() joins its two consumer threads
unconditionally.  add_application() appends the application to
node.applications BEFORE it calls app.start(); when app.start() fails half-way
("can't start new thread" - the condition 16e82dc / 891c949 already cater
for), the application stays registered with one thread that never ran, and
there is no way to unregister it.

The thread-start failure is injected for exactly one thread object (the OS
limit cannot be produced portably); everything else is plain library use.

exit 1: node.stop() raises and leaves the other application running
exit 0: node.stop() returns and every application is stopped
"""
import logging
import sys
import threading

logging.basicConfig(level=logging.CRITICAL)

from diameter.node import Node
from diameter.node.application import ThreadingApplication


class App(ThreadingApplication):
    def handle_request(self, message):
        return None


node = Node("a.example.org", "example.org")
peer = node.add_peer("aaa://p.example.org", "example.org")

app1 = App(4, is_auth_application=True)
app2 = App(16777238, is_auth_application=True)

# the operating system refuses exactly one new thread: app1's second consumer
real_start = threading.Thread.start
def failing_start(self):
    if self is app1._recv_queue_consumer:
        raise RuntimeError("can't start new thread")
    return real_start(self)
threading.Thread.start = failing_start
try:
    node.add_application(app1, [peer])
    print("UNEXPECTED: add_application(app1) did not raise")
except RuntimeError as e:
    print(f"add_application(app1) raised: {e!r} (app1 registered anyway: "
          f"{app1 in node.applications})")
finally:
    threading.Thread.start = real_start

node.add_application(app2, [peer])
node.start()

failed = None
try:
    node.stop(force=True)
except Exception as e:
    failed = e

app2_alive = [t.name for t in (app2._recv_queue_consumer,
                               app2._resp_queue_consumer) if t.is_alive()]
print(f"observed: node.stop() -> {failed!r}; consumer threads of app2 still "
      f"running after stop(): {len(app2_alive)}")
print("expected: node.stop() returns, joining only threads that were started "
      "(as it does for its own threads since 6e990cb), and stops every "
      "application")

# let the interpreter exit whatever happened
for a in (app1, app2):
    a._recv_queue_consumer.stop()
    a._resp_queue_consumer.stop()

sys.exit(1 if (failed is not None or app2_alive) else 0)
