"""3c0ff79 (no 5012 in place of an application answer that can no longer be
routed) - incomplete: the node still answers requests on a connection that is
DISCONNECTING (after the DPA) through its other error paths.

The commit establishes: "What an application may not send on a connection that
is no longer ready the node does not send either."  Only the 5012 of the
exception handler in Node._receive_message was suppressed.  The 5005 (AVP
validation), the 3003 (realm not served) and the 3007 (no such application) go
through Node.send_message directly and are still written after the DPA.

Run: PYTHONPATH=/repo/src /venv/bin/python /repo/_review/1/demo.py
exit 1 = an answer was written after the DPA (problem), exit 0 = none.
"""
import logging
import socket
import sys
import time

from diameter.message import Message, constants
from diameter.message.commands import (CapabilitiesExchangeRequest,
                                       CreditControlRequest,
                                       DisconnectPeerRequest)
from diameter.node import Node
from diameter.node.application import Application
from diameter.node.peer import (PeerConnection, PEER_CONNECTED, PEER_RECV,
                                PEER_READY, PEER_DISCONNECTING,
                                PEER_TRANSPORT_TCP)

logging.disable(logging.CRITICAL)


class FailingApp(Application):
    def handle_request(self, message):
        raise ValueError("handler failed")


def wait_for(cond, timeout=5.0):
    end = time.time() + timeout
    while time.time() < end:
        if cond():
            return True
        time.sleep(0.01)
    return False


def cer():
    m = CapabilitiesExchangeRequest()
    m.header.hop_by_hop_identifier = 1
    m.header.end_to_end_identifier = 1
    m.origin_host = b"client.example.net"
    m.origin_realm = b"example.net"
    m.host_ip_address = "127.0.0.1"
    m.vendor_id = 1
    m.product_name = "peer"
    m.auth_application_id = [constants.APP_DIAMETER_CREDIT_CONTROL_APPLICATION]
    return m


def dpr():
    m = DisconnectPeerRequest()
    m.header.hop_by_hop_identifier = 2
    m.header.end_to_end_identifier = 2
    m.origin_host = b"client.example.net"
    m.origin_realm = b"example.net"
    m.disconnect_cause = constants.E_DISCONNECT_CAUSE_REBOOTING
    return m


def ccr(realm=b"example.net", app_id=4, complete=True):
    m = CreditControlRequest()
    m.header.hop_by_hop_identifier = 3
    m.header.end_to_end_identifier = 3
    m.header.application_id = app_id
    m.session_id = "client.example.net;1;1"
    m.origin_host = b"client.example.net"
    m.origin_realm = b"example.net"
    m.destination_realm = realm
    m.auth_application_id = app_id
    if complete:
        m.service_context_id = "ctx@example.net"
        m.cc_request_type = constants.E_CC_REQUEST_TYPE_EVENT_REQUEST
        m.cc_request_number = 0
    return m


def run(label, request):
    node = Node("server.example.net", "example.net")
    peer = node.add_peer("aaa://client.example.net", "example.net")
    app = FailingApp(constants.APP_DIAMETER_CREDIT_CONTROL_APPLICATION,
                     is_auth_application=True)
    node.add_application(app, [peer])

    ours, theirs = socket.socketpair()
    conn = PeerConnection("127.0.0.1", 3868, PEER_RECV, node.interrupt_write)
    conn.state = PEER_CONNECTED
    node._add_peer_connection(conn, ours, PEER_TRANSPORT_TCP)
    written = []
    conn.add_out_msg = written.append
    try:
        conn.add_in_bytes(cer().as_bytes())
        assert wait_for(lambda: conn.state == PEER_READY), "no CER/CEA"
        assert written[0].result_code == 2001
        del written[:]

        # the peer's DPR, and one more request right behind it
        conn.add_in_bytes(dpr().as_bytes() + request.as_bytes())
        assert wait_for(lambda: conn.state == PEER_DISCONNECTING and written)
        time.sleep(0.5)
        seen = [(m.name, "R" if m.header.is_request else "A",
                 getattr(m, "result_code", None)) for m in written]
        print(f"{label:46s} state={hex(conn.state)} written: {seen}")
        return len(written) > 1
    finally:
        conn.close(signal_node=False)
        ours.close()
        theirs.close()


control = run("request whose handler raises (the repaired path)", ccr())
problems = [
    run("request lacking mandatory AVPs", ccr(complete=False)),
    run("request for a realm not served", ccr(realm=b"elsewhere.org")),
    run("request for an application not present", ccr(app_id=16777238)),
]
print()
print("expected: nothing but the DPA (Disconnect-Peer, A, 2001) is written on "
      "a connection that is DISCONNECTING,\n          as for the request whose "
      "handler raises (3c0ff79)")
if control:
    print("observed: even the repaired path writes an answer after the DPA")
    sys.exit(1)
if any(problems):
    print(f"observed: {sum(problems)} of 3 other error paths of the node still "
          f"write an answer (5005 / 3003 / 3007) after the DPA")
    sys.exit(1)
print("observed: no answer after the DPA")
sys.exit(0)
