"""852fca4 regression: to_answer() lets the inherited type_factory overrule an
answer class that the name search finds (and found before the commit).

An application-specific flavour of a library command, written with the
library's own naming scheme (<X>, <X>Request, <X>Answer) and re-using the
library's request / answer classes as mix-ins:

    class Gy(CreditControl)
    class GyRequest(Gy, CreditControlRequest)
    class GyAnswer(Gy, CreditControlAnswer)     # + one more AVP (Reply-Message)

GyRequest.to_answer() returned GyAnswer up to 852fca4^ (GyRequest -> Gy ->
GyAnswer).  At HEAD the type_factory inherited from CreditControl names
CreditControlAnswer and wins, so the answer is a plain CreditControlAnswer:
the attribute of the additional AVP that the application sets on it is
silently left out of the encoded answer.
"""
import sys

from diameter.message import Message, constants
from diameter.message.avp.generator import AvpGenDef
from diameter.message.commands import (CreditControl, CreditControlRequest,
                                       CreditControlAnswer)


class Gy(CreditControl):
    """Operator flavour of Credit-Control."""


class GyRequest(Gy, CreditControlRequest):
    """The request of the flavour."""


class GyAnswer(Gy, CreditControlAnswer):
    cost_note: str
    # Reply-Message is not part of the library's CreditControlAnswer
    avp_def = CreditControlAnswer.avp_def + (
        AvpGenDef("cost_note", constants.AVP_REPLY_MESSAGE),)


req = GyRequest()
req.session_id = "peer.example.org;1;1"
req.origin_host = b"peer.example.org"
req.origin_realm = b"example.org"
req.destination_realm = b"example.org"
req.auth_application_id = 4
req.service_context_id = "gy@example.org"
req.cc_request_type = constants.E_CC_REQUEST_TYPE_EVENT_REQUEST
req.cc_request_number = 0
req.header.hop_by_hop_identifier = 1
req.header.end_to_end_identifier = 2

ans = req.to_answer()
ans.session_id = req.session_id
ans.origin_host = b"srv.example.org"
ans.origin_realm = b"example.org"
ans.auth_application_id = 4
ans.cc_request_type = req.cc_request_type
ans.cc_request_number = 0
ans.result_code = constants.E_RESULT_CODE_DIAMETER_SUCCESS
ans.cost_note = "0.10 EUR"

wire = Message.from_bytes(ans.as_bytes(), plain_msg=True)
on_wire = [a.value for a in wire.avps if a.code == constants.AVP_REPLY_MESSAGE]

print(f"to_answer() of a {type(req).__name__} returned: {type(ans).__name__}")
print(f"Reply-Message AVPs in the encoded answer:  {on_wire}")
print("expected: GyAnswer (what the name search GyRequest -> Gy -> GyAnswer "
      "finds, and what 852fca4^ returned), Reply-Message ['0.10 EUR'] encoded")

if type(ans) is GyAnswer and on_wire == ["0.10 EUR"]:
    print("OK")
    sys.exit(0)
print("PROBLEM: the inherited type_factory overruled the answer class found "
      "by name; the attribute set on the answer was silently dropped")
sys.exit(1)
