"""6f626bc "SessionGenerator accepts every start time" - incomplete repair.

The commit makes Node.__init__ survive a clock at or beyond 2106-02-07
(2**32 s) by masking the start time in SessionGenerator.  The very same start
time is kept, unmasked, two lines above as Node.state_id and is put as
Origin-State-Id (Unsigned32) into every CER, DWR and DWA the node builds.
Those messages cannot be encoded: the connection's writer thread discards them
("failed to encode a queued diameter message"), so the node that can now be
constructed can never complete a capabilities exchange it starts (nor a watchdog exchange).

Two nodes in this process, real loop-back TCP, the clock shifted beyond 2**32.
Expected: the dialled connection becomes READY.  exit 1 = it never does.
"""
import logging
import os
import socket
import sys
import time

_real_time = time.time
OFFSET = 2 ** 32 + 86400 - int(_real_time())      # 2106-02-08
if os.environ.get("DEMO_CONTROL"):                # control run: today's clock
    OFFSET = 0
time.time = lambda: _real_time() + OFFSET         # the clock the library sees

from diameter.node import Node                                     # noqa: E402
from diameter.node.peer import PEER_READY_STATES                   # noqa: E402
from diameter.node.application import SimpleThreadingApplication   # noqa: E402
from diameter.message.commands import CapabilitiesExchangeRequest  # noqa: E402

records = []


class Keep(logging.Handler):
    def emit(self, record):
        records.append(record.getMessage())


logging.getLogger("diameter").addHandler(Keep())
logging.getLogger("diameter").setLevel(logging.WARNING)

s = socket.socket()
s.bind(("127.0.0.1", 0))
port = s.getsockname()[1]
s.close()

server = Node("server.example", "example", ip_addresses=["127.0.0.1"],
              tcp_port=port)
client = Node("client.example", "example")       # raised OverflowError before 6f626bc
print("Node() built with the clock at", int(time.time()),
      "- session id:", client.session_generator.next_id())
print("client.state_id =", client.state_id, "(> 0xffffffff:",
      client.state_id > 0xffffffff, ")")

for n in (server, client):
    n.wakeup_interval = 1
speer = server.add_peer("aaa://client.example", "example")
peer = client.add_peer(f"aaa://server.example:{port}", "example",
                       ip_addresses=["127.0.0.1"], is_persistent=True)
peer.reconnect_wait = 1
# both ends serve the credit control application (a CER without a common
# application is refused 5010)
server.add_application(
    SimpleThreadingApplication(4, is_auth_application=True), [speer])
client.add_application(
    SimpleThreadingApplication(4, is_auth_application=True), [peer])

server.start()
client.start()

ready = False
deadline = _real_time() + 8
while _real_time() < deadline:
    conn = peer.connection
    if conn is not None and conn.state in PEER_READY_STATES:
        ready = True
        break
    time.sleep(0.1)

server.stop(force=True)
client.stop(force=True)
for n in (server, client):
    for c in list(n.connections.values()):
        c.close(signal_node=False)

# the same thing without any network, for the record
cer = CapabilitiesExchangeRequest()
cer.origin_state_id = client.state_id
try:
    cer.as_bytes()
    direct = "encoded"
except Exception as e:
    direct = f"{type(e).__name__}: {e}"

discarded = [r for r in records if "failed to encode" in r]
print("connection became READY:", ready)
print("CER with Origin-State-Id = state_id:", direct[:160])
print("writer thread discarded messages:", len(discarded))
if discarded:
    print("  e.g.", discarded[0][:200])
print("expected: a node that can be constructed at this clock also completes "
      "its CER/CEA (state_id fits Origin-State-Id, an Unsigned32)")
if ready:
    print("OK")
    sys.exit(0)
print("PROBLEM: the node was built but every CER/DWR/DWA it builds is "
      "discarded as not encodable; it never connects")
sys.exit(1)
