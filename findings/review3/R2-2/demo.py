"""2e95bf4 (a CER without Origin-Host is refused as coming from an unknown
peer) - incomplete: the same `None.lower()` is two functions further down.

With validation of received requests switched off
(Node.validate_received_request_avps = False) a request of a command WITH a
python implementation that lacks an AVP carries the attribute as None.
2e95bf4 repaired `message.origin_host.lower()` in receive_cer.  The sibling
`message.destination_realm.lower()` in Node._receive_app_request is reached
the same way: its guard `if not hasattr(message, "destination_realm")` (which
answers 3007, "realm name not present in request") is true only for commands
without python implementation; for a Credit-Control-Request the attribute
exists and is None, `None.lower()` raises AttributeError, a traceback is
logged at ERROR level and the peer gets the catch-all 5012 "Message handling
error".

Run: PYTHONPATH=/repo/src /venv/bin/python /repo/_review/2/demo.py
exit 1 = AttributeError / 5012 (problem), exit 0 = answered by the branch
that exists for a request without Destination-Realm.
"""
import logging
import socket
import sys
import time

from diameter.message import Message, constants
from diameter.message.avp import Avp
from diameter.message.commands import (CapabilitiesExchangeRequest,
                                       CreditControlRequest)
from diameter.node import Node
from diameter.node.application import Application
from diameter.node.peer import (PeerConnection, PEER_CONNECTED, PEER_RECV,
                                PEER_READY, PEER_TRANSPORT_TCP)


class Capture(logging.Handler):
    def __init__(self):
        super().__init__(logging.ERROR)
        self.records = []

    def emit(self, record):
        self.records.append(record)


capture = Capture()
logging.getLogger("diameter").addHandler(capture)
logging.getLogger("diameter").propagate = False

handled = []


class App(Application):
    def handle_request(self, message):
        handled.append(message)
        self.send_answer(self.generate_answer(message, result_code=2001))


def wait_for(cond, timeout=5.0):
    end = time.time() + timeout
    while time.time() < end:
        if cond():
            return True
        time.sleep(0.01)
    return False


node = Node("server.example.net", "example.net")
node.validate_received_request_avps = False      # documented public switch
peer = node.add_peer("aaa://client.example.net", "example.net")
app = App(constants.APP_DIAMETER_CREDIT_CONTROL_APPLICATION,
          is_auth_application=True)
node.add_application(app, [peer])

ours, theirs = socket.socketpair()
conn = PeerConnection("127.0.0.1", 3868, PEER_RECV, node.interrupt_write)
conn.state = PEER_CONNECTED
node._add_peer_connection(conn, ours, PEER_TRANSPORT_TCP)
written = []
conn.add_out_msg = written.append

rc = 0
try:
    cer = CapabilitiesExchangeRequest()
    cer.header.hop_by_hop_identifier = 1
    cer.header.end_to_end_identifier = 1
    cer.origin_host = b"client.example.net"
    cer.origin_realm = b"example.net"
    cer.host_ip_address = "127.0.0.1"
    cer.vendor_id = 1
    cer.product_name = "peer"
    cer.auth_application_id = [4]
    conn.add_in_bytes(cer.as_bytes())
    assert wait_for(lambda: conn.state == PEER_READY), "no CER/CEA"
    del written[:]

    # control: a command WITHOUT python implementation, no Destination-Realm
    plain = Message()
    plain.header.is_request = True
    plain.header.command_code = 8388999
    plain.header.application_id = 4
    plain.header.hop_by_hop_identifier = 2
    plain.header.end_to_end_identifier = 2
    plain.append_avp(Avp.new(constants.AVP_ORIGIN_HOST,
                             value=b"client.example.net"))
    plain.append_avp(Avp.new(constants.AVP_ORIGIN_REALM, value=b"example.net"))
    conn.add_in_bytes(plain.as_bytes())
    assert wait_for(lambda: len(written) == 1)
    control = written[0]
    print(f"control  (unknown command, no Destination-Realm): answered "
          f"{control.result_code}, errors logged: {len(capture.records)}")
    del written[:]
    del capture.records[:]

    # a Credit-Control-Request without Destination-Realm
    ccr = CreditControlRequest()
    ccr.header.hop_by_hop_identifier = 3
    ccr.header.end_to_end_identifier = 3
    ccr.session_id = "client.example.net;1;1"
    ccr.origin_host = b"client.example.net"
    ccr.origin_realm = b"example.net"
    ccr.auth_application_id = 4
    ccr.service_context_id = "ctx@example.net"
    ccr.cc_request_type = constants.E_CC_REQUEST_TYPE_EVENT_REQUEST
    ccr.cc_request_number = 0
    conn.add_in_bytes(ccr.as_bytes())
    assert wait_for(lambda: len(written) == 1)
    answer = written[0]
    errors = [r for r in capture.records]
    exc = [repr(r.exc_info[1]) for r in errors if r.exc_info]
    print(f"observed (Credit-Control, no Destination-Realm): answered "
          f"{answer.result_code} ({getattr(answer, 'error_message', None)!r}), handler called: "
          f"{bool(handled)}, errors logged: {len(errors)} {exc}")
    print(f"expected: no exception inside the node; the answer of the branch "
          f"'realm name not present in request' ({control.result_code}), as "
          f"for the control")
    if (answer.result_code == constants.E_RESULT_CODE_DIAMETER_UNABLE_TO_COMPLY
            or exc):
        rc = 1
finally:
    conn.close(signal_node=False)
    ours.close()
    theirs.close()
sys.exit(rc)
