"""94cbb16 incomplete: the typed commands still declare Login-IP-Host as text.

The commit changed the dictionary type of Login-IP-Host (14) from Address to
OctetString, i.e. the python value from `str` ("10.0.0.1") to `bytes` (the
four octets).  AaRequest, AaAnswer and AccountingRequest still declare
`login_ip_host: list[str]` (the sibling next to it is declared
`login_ipv6_host: list[bytes]`).  Code written against the declared type -
which worked up to 94cbb16^ - now fails with AvpEncodeError when the message
is encoded, and a decoded message hands out `bytes` where `str` is declared.
(tests/test_annotations.py enforces "annotation matches dictionary type", but
only walks the direct subclasses of DefinedMessage, so it does not notice.)
"""
import sys
import typing

from diameter.message import Message, constants
from diameter.message.avp import AvpOctetString, AvpEncodeError
from diameter.message.commands import AaRequest, AaAnswer, AccountingRequest

problems = []

for cls in (AaRequest, AaAnswer, AccountingRequest):
    hints = typing.get_type_hints(cls)
    declared = typing.get_args(hints["login_ip_host"])[0]
    declared6 = typing.get_args(hints["login_ipv6_host"])[0]
    print(f"{cls.__name__}.login_ip_host is declared list[{declared.__name__}]"
          f" (login_ipv6_host: list[{declared6.__name__}])")

    # 1. a value of the declared type
    msg = cls()
    msg.session_id = "nas.example.org;1;1"
    msg.origin_host = b"nas.example.org"
    msg.origin_realm = b"example.org"
    msg.login_ip_host = ["10.0.0.1"] if declared is str else [bytes([10, 0, 0, 1])]
    try:
        msg.as_bytes()
        print("   a value of the declared type is encoded")
    except AvpEncodeError as e:
        print(f"   a value of the declared type is refused: AvpEncodeError: {e}")
        problems.append(f"{cls.__name__}: login_ip_host=['10.0.0.1'] (declared "
                        f"type) cannot be encoded")

    # 2. what a decoded message hands out
    wire = cls()
    wire.session_id = "nas.example.org;1;1"
    wire.origin_host = b"nas.example.org"
    wire.origin_realm = b"example.org"
    # RFC 7155 4.4.11.1: the four octets of the address
    on_wire = AvpOctetString(constants.AVP_LOGIN_IP_HOST)
    on_wire.value = bytes([10, 0, 0, 1])
    wire.append_avp(on_wire)
    decoded = Message.from_bytes(wire.as_bytes())
    assert type(decoded) is cls, type(decoded)
    value = decoded.login_ip_host[0]
    print(f"   a decoded message has login_ip_host[0] = {value!r}")
    if not isinstance(value, declared):
        problems.append(f"{cls.__name__}: decoded login_ip_host holds "
                        f"{type(value).__name__}, declared {declared.__name__}")

print("expected: the declared type of login_ip_host is what the attribute "
      "accepts and returns (list[bytes], like login_ipv6_host)")
if problems:
    for p in problems:
        print("PROBLEM:", p)
    sys.exit(1)
print("OK")
sys.exit(0)
