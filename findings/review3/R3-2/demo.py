"""2fb28d4 "route_request checks the state of the connection it reads after
the selection" - incomplete repair.

The defect, in the commit's words: a peer that lost its connection and got a
new one (still waiting for its CER/CEA) between the ready test and the
selection had the request written to that connection "while another peer was
ready".  The repair turns this into NotRoutable - the request still fails
although the other peer of the route is READY the whole time, which is not
what route_request documents ("NotRoutable: ... if none of the configured
connections is connected or accepting requests at the time").

Schedule (made deterministic through the documented selection callback, which
runs exactly in the window): two peers A and B serve the application, both
READY.  While the selection runs, A's connection is closed (what the node's
thread does when A hangs up) and A connects again (accepted, known peer:
Peer.connection is the new connection in state CONNECTED, no CER yet).
The selection returns A.

Expected: the request is routed to B (READY).  exit 1 = NotRoutable.
"""
import socket
import sys

from diameter.message import constants
from diameter.message.commands import CreditControlRequest
from diameter.node import Node
from diameter.node.application import SimpleThreadingApplication
from diameter.node.node import NotRoutable, select_least_used_peer
from diameter.node.peer import (PeerConnection, PEER_RECV, PEER_CONNECTED,
                                PEER_READY, PEER_TRANSPORT_TCP)

node = Node("client.example", "example")
peer_a = node.add_peer("aaa://a.example", "example")
peer_b = node.add_peer("aaa://b.example", "example")
app = SimpleThreadingApplication(constants.APP_DIAMETER_CREDIT_CONTROL_APPLICATION,
                                 is_auth_application=True)
node.add_application(app, [peer_a, peer_b])

all_conns = []
far_ends = []


def accept(peer, state):
    """What the node does when the known peer `peer` connects."""
    near, far = socket.socketpair()
    far_ends.append(far)
    conn = PeerConnection("127.0.0.1", 3868, PEER_RECV, node.interrupt_write)
    conn.node_name = peer.node_name
    conn.state = PEER_CONNECTED
    assert node._add_peer_connection(conn, near, PEER_TRANSPORT_TCP)
    if state == PEER_READY:
        conn.host_identity = peer.node_name
        node._flag_connection_as_ready(conn)      # CER/CEA done
    all_conns.append(conn)
    return conn


conn_a = accept(peer_a, PEER_READY)
conn_b = accept(peer_b, PEER_READY)
assert peer_a.connection is conn_a and peer_b.connection is conn_b
assert conn_a.state == conn_b.state == PEER_READY


def select(node_, app_, message, peers):
    # -- the other thread, in the window ---------------------------------
    node.close_connection_socket(conn_a)          # A hangs up ...
    accept(peer_a, PEER_CONNECTED)                # ... and connects again
    # ---------------------------------------------------------------------
    chosen = select_least_used_peer(node_, app_, message, peers)
    print("selection was offered", [p.node_name for p in peers],
          "and chose", chosen.node_name)
    return chosen


node.peer_route_select_func = select

req = CreditControlRequest()
req.header.application_id = app.application_id
req.header.end_to_end_identifier = node.end_to_end_seq.next_sequence()
req.session_id = node.session_generator.next_id()
req.origin_host = b"client.example"
req.origin_realm = b"example"
req.destination_realm = b"example"
req.auth_application_id = app.application_id
req.service_context_id = "demo@example"
req.cc_request_type = constants.E_CC_REQUEST_TYPE_EVENT_REQUEST
req.cc_request_number = 0

problem = None
try:
    conn, _ = node.route_request(app, req)
except NotRoutable as e:
    problem = f"NotRoutable({e})"
    conn = None

print("peer B:", peer_b.connection, "state READY:",
      peer_b.connection.state == PEER_READY)
print("peer A:", peer_a.connection, "state CONNECTED (no CER yet):",
      peer_a.connection.state == PEER_CONNECTED)
if conn is not None:
    print("routed to", conn, "of state", conn.state)
    if conn.state != PEER_READY:
        problem = "routed to a connection that is not ready"
else:
    print("route_request raised", problem)
print("expected: the request is routed to b.example, which was READY before, "
      "during and after the call")

app.stop()
for c in all_conns:
    c.close(signal_node=False)
for s in far_ends:
    s.close()

if problem:
    print("PROBLEM:", problem)
    sys.exit(1)
print("OK")
sys.exit(0)
