"""43a02ed incomplete: SIP-Authentication-Scheme is the one Cx authentication
item that still denotes the RFC 4740 AVP (377, Enumerated, no vendor) instead
of the TS 29.229 AVP (608, UTF8String, vendor 10415).

The commit moved SIP-Number-Auth-Items, SIP-Auth-Data-Item and SIP-Item-Number
to the 3GPP codes 607 / 612 / 613, but `sip_authentication_scheme` (in
SipAuthDataItem and in ScscfRestorationInfo) was left on code 377.  So exactly
what the commit message describes still happens for that member: what an HSS
sends is not decoded into the attribute, and the scheme names of TS 29.229
("Digest-AKAv1-MD5", "SIP Digest", ...) cannot be put into a MAR through it.
"""
import sys

from diameter.message import Message, constants
from diameter.message.avp import Avp, AvpEncodeError
from diameter.message.avp.grouped import SipAuthDataItem
from diameter.message.commands import (MultimediaAuthAnswer,
                                       MultimediaAuthRequest)

V = constants.VENDOR_TGPP
SCHEME = "Digest-AKAv1-MD5"
problems = []

# --- 1. a Multimedia-Auth-Answer the way an HSS builds it (TS 29.229 6.1.8,
#        every Cx AVP with vendor 10415) --------------------------------------
item = Avp.new(constants.AVP_TGPP_3GPP_SIP_AUTH_DATA_ITEM, V, value=[
    Avp.new(constants.AVP_TGPP_3GPP_SIP_ITEM_NUMBER, V, value=1),
    Avp.new(constants.AVP_TGPP_3GPP_SIP_AUTHENTICATION_SCHEME, V, value=SCHEME),
    Avp.new(constants.AVP_TGPP_3GPP_SIP_AUTHENTICATE, V, value=b"\x01" * 32),
    Avp.new(constants.AVP_TGPP_3GPP_SIP_AUTHORIZATION, V, value=b"\x02" * 8),
    Avp.new(constants.AVP_TGPP_CONFIDENTIALITY_KEY, V, value=b"\x03" * 16),
    Avp.new(constants.AVP_TGPP_INTEGRITY_KEY, V, value=b"\x04" * 16),
])
hss = Message()
hss.header.command_code = constants.CMD_TGPP_MULTIMEDIA_AUTH   # 303
hss.header.application_id = constants.APP_3GPP_CX
hss.header.is_proxyable = True
hss.header.hop_by_hop_identifier = 1
hss.header.end_to_end_identifier = 2
hss.avps = [
    Avp.new(constants.AVP_SESSION_ID, value="scscf.ims.example.org;1;1"),
    Avp.new(constants.AVP_AUTH_SESSION_STATE, value=1),
    Avp.new(constants.AVP_ORIGIN_HOST, value=b"hss.ims.example.org"),
    Avp.new(constants.AVP_ORIGIN_REALM, value=b"ims.example.org"),
    Avp.new(constants.AVP_RESULT_CODE, value=2001),
    Avp.new(constants.AVP_USER_NAME, value="user@ims.example.org"),
    Avp.new(constants.AVP_TGPP_PUBLIC_IDENTITY, V, value="sip:user@ims.example.org"),
    Avp.new(constants.AVP_TGPP_3GPP_SIP_NUMBER_AUTH_ITEMS, V, value=1),
    item,
]
maa = Message.from_bytes(hss.as_bytes())
assert isinstance(maa, MultimediaAuthAnswer), type(maa)
got = maa.sip_auth_data_item[0]
print("decoded MAA.sip_number_auth_items                          :",
      maa.sip_number_auth_items, "(repaired by 43a02ed)")
print("decoded MAA.sip_auth_data_item[0].sip_item_number          :",
      got.sip_item_number, "(repaired by 43a02ed)")
print("decoded MAA.sip_auth_data_item[0].sip_authenticate         :",
      got.sip_authenticate[:4], "...")
print("decoded MAA.sip_auth_data_item[0].sip_authentication_scheme:",
      repr(got.sip_authentication_scheme), f"   expected {SCHEME!r}")
print("   the AVP ended up among the undefined ones               :",
      [str(a) for a in got.additional_avps])
if got.sip_authentication_scheme != SCHEME:
    problems.append("the SIP-Authentication-Scheme (608/10415) that an HSS "
                    "sends is not decoded into sip_authentication_scheme")

# --- 2. the other direction: a MAR built from the attributes -----------------
mar = MultimediaAuthRequest()
mar.session_id = "scscf.ims.example.org;1;2"
mar.auth_session_state = 1
mar.origin_host = b"scscf.ims.example.org"
mar.origin_realm = b"ims.example.org"
mar.destination_realm = b"ims.example.org"
mar.user_name = "user@ims.example.org"
mar.public_identity = ["sip:user@ims.example.org"]
mar.sip_number_auth_items = 1
mar.server_name = "sip:scscf.ims.example.org"
mar.sip_auth_data_item = SipAuthDataItem(sip_authentication_scheme=SCHEME)
try:
    wire = Message.from_bytes(mar.as_bytes(), plain_msg=True)
except AvpEncodeError as e:
    print("MAR with sip_authentication_scheme=%r: AvpEncodeError: %s" % (SCHEME, e))
    problems.append("a TS 29.229 scheme name cannot be set on "
                    "sip_authentication_scheme (it is the Enumerated 377)")
else:
    grp = wire.find_avps((constants.AVP_TGPP_3GPP_SIP_AUTH_DATA_ITEM, V))[0]
    members = [(a.code, a.vendor_id) for a in grp.value]
    print("members of the encoded SIP-Auth-Data-Item:", members)
    if (constants.AVP_TGPP_3GPP_SIP_AUTHENTICATION_SCHEME, V) not in members:
        problems.append("the scheme went out under another code than 608/10415")

print("expected: like its siblings 607, 612 and 613 the attribute denotes "
      "3GPP-SIP-Authentication-Scheme (608, vendor 10415, UTF8String)")
if problems:
    for p in problems:
        print("PROBLEM:", p)
    sys.exit(1)
print("OK")
sys.exit(0)
