"""Demonstration (not a check): a schedule at source-line granularity in which
SequenceGenerator.next_sequence hands the same identifier to two threads.

Thread A is suspended (via a line-trace hook) after it has incremented the
counter and before it reads it back for `return`; thread B then draws an
identifier; A resumes.  Unlocked code: both get the same value.  Locked code:
B cannot enter, A times out waiting, values differ.

Run with PYTHONPATH=<repo>/src; exit 1 = duplicate handed out."""
import sys, threading
from diameter.node import _helpers
from diameter.node._helpers import SequenceGenerator

g = SequenceGenerator()
code = SequenceGenerator.next_sequence.__code__
b_done = threading.Event()
res = {}

def tracer(frame, event, arg):
    if frame.f_code is not code:
        return None
    def local(frame, event, arg):
        if event == "line":
            import linecache
            src = linecache.getline(code.co_filename, frame.f_lineno).strip()
            if src.startswith("return") and not res.get("b_started"):
                res["b_started"] = True
                tb = threading.Thread(target=lambda: res.__setitem__("B", g.next_sequence()))
                tb.start()
                tb.join(0.5)          # B runs to completion here if nothing stops it
                res["tb"] = tb
        return local
    return local

def run_a():
    sys.settrace(tracer)
    res["A"] = g.next_sequence()
    sys.settrace(None)

ta = threading.Thread(target=run_a); ta.start(); ta.join()
res["tb"].join()
print("A got", res["A"], "B got", res["B"])
sys.exit(1 if res["A"] == res["B"] else 0)
