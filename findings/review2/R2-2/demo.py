"""3284779 / acf4f6b: peer statistics (and a Peer) can no longer be pickled.

3284779 put a threading.Lock into every SecondSlotCounter.  acf4f6b noticed that
this broke copy.deepcopy() (used by Node.statistics) and added __deepcopy__, but the
other standard way of copying the object out of the node - pickle, e.g. to hand the
documented `Peer.statistics` (PeerStats) of a peer to a monitoring process through a
multiprocessing queue, or to keep them over a restart - still fails:
    TypeError: cannot pickle '_thread.lock' object
Before 3284779 both `pickle.dumps(peer.statistics)` and `pickle.dumps(peer)` worked.

exit 1 = pickling fails, exit 0 = the statistics survive a pickle round trip.
"""
import pickle
import sys

from diameter.node import Node

node = Node("server.example.net", "example.net")
peer = node.add_peer("aaa://client.example.net", "example.net")
# what the node records for every request received from / answered to the peer
peer.statistics.add_received_req()
peer.statistics.add_processed_req_time("Credit-Control", 0.01)
peer.statistics.add_sent_result_code(2001)

failed = False
for what, obj in (("peer.statistics (PeerStats)", peer.statistics),
                  ("peer (Peer, not connected)", peer)):
    try:
        clone = pickle.loads(pickle.dumps(obj))
    except Exception as e:
        failed = True
        print(f"OBSERVED: pickle.dumps({what}) raises {e!r}")
        continue
    stats = clone if obj is peer.statistics else clone.statistics
    print(f"OBSERVED: {what} pickled; copy reports "
          f"{stats.received_req_counter.get_count()} received request(s), "
          f"2xxx sent: {stats.sent_result_code_range_counters['2xxx'].get_count()}")

print("EXPECTED: both objects survive a pickle round trip with their counters "
      "(1 received request, one 2xxx answer), as they did before 3284779")
sys.exit(1 if failed else 0)
