"""d2cfdfc is incomplete: "a connection removed while route_request was routing"
is refused with NotRoutable only when the removal falls between the choice of
the connection and the filing of the record. When the removal has already
completed when route_request reads `peer.connection` (one statement earlier),
route_request / Application.send_request fail with a bare AttributeError
instead of the documented NotRoutable.

Schedule (two real threads):
  T1 (application)  app.send_request(ccr) -> route_request: two usable peers,
                    peer_route_select_func (the default select_least_used_peer)
                    has returned peer 1 ... T1 is suspended here
  T2 (node thread)  the peer hangs up: close_connection_socket(conn1)
                    -> remove_peer_connection: peer1.connection = None
  T1                conn = peer.connection  -> None
                    conn.hop_by_hop_seq     -> AttributeError

exit 1 = problem present, exit 0 = library behaved correctly
"""
import socket
import sys
import threading

from diameter.message import constants
from diameter.message.commands import CreditControlRequest
from diameter.node import Node, NotRoutable, select_least_used_peer
from diameter.node.application import Application
from diameter.node.peer import (PeerConnection, PEER_SEND, PEER_READY,
                                PEER_CONNECTED, PEER_TRANSPORT_TCP)


class App(Application):
    def handle_request(self, message):
        pass


def connect(node, peer):
    a, b = socket.socketpair()
    conn = PeerConnection("127.0.0.1", 3868, PEER_SEND, node.interrupt_write)
    conn.node_name = peer.node_name
    conn.origin_host = node.origin_host
    conn.state = PEER_CONNECTED
    node._add_peer_connection(conn, a, PEER_TRANSPORT_TCP)
    conn.state = PEER_READY
    return conn, (a, b)


node = Node("client.realm.a", "realm.a")
peer1 = node.add_peer("aaa://ocs1.realm.a", "realm.a",
                      ip_addresses=["127.0.0.1"], is_persistent=False)
peer2 = node.add_peer("aaa://ocs2.realm.a", "realm.a",
                      ip_addresses=["127.0.0.2"], is_persistent=False)
peer2.counters.requests = 5     # so that the default function picks peer1
app = App(constants.APP_DIAMETER_CREDIT_CONTROL_APPLICATION,
          is_auth_application=True)
node.add_application(app, [peer1, peer2])
conn1, socks1 = connect(node, peer1)
conn2, socks2 = connect(node, peer2)

selected = threading.Event()
resume = threading.Event()


def select(node_, app_, message, peers):
    # the stock selection function; the only addition is the point at which
    # the calling thread is suspended (right after it has returned)
    peer = select_least_used_peer(node_, app_, message, peers)
    selected.set()
    resume.wait(10)
    return peer


node.peer_route_select_func = select

result = {}


def t1():
    ccr = CreditControlRequest()
    ccr.session_id = "client.realm.a;1;2"
    ccr.origin_host = b"client.realm.a"
    ccr.origin_realm = b"realm.a"
    ccr.destination_realm = b"realm.a"
    ccr.auth_application_id = 4
    ccr.service_context_id = "32251@3gpp.org"
    ccr.cc_request_type = 1
    ccr.cc_request_number = 0
    try:
        app.send_request(ccr, timeout=1)
        result["outcome"] = "sent"
    except NotRoutable as e:
        result["outcome"] = f"NotRoutable: {e}"
    except TimeoutError:
        result["outcome"] = "sent (no answer, as nobody answers in this demo)"
    except BaseException as e:
        result["outcome"] = f"{type(e).__name__}: {e}"
        result["bad"] = True


rc = 0
try:
    th = threading.Thread(target=t1)
    th.start()
    if not selected.wait(10):
        print("demo broken: selection function not called")
        sys.exit(2)
    # T2: what the node thread does when the peer hangs up
    node.close_connection_socket(conn1)
    resume.set()
    th.join(20)

    print("send_request ended with:", result.get("outcome"))
    print("expected: NotRoutable (the documented refusal; the commit: 'The "
          "request is now refused (NotRoutable)'), or the request going out "
          "over the remaining ready connection")
    print("records left in _app_waiting_answer:", dict(node._app_waiting_answer))
    if result.get("bad"):
        print("PROBLEM: a connection removed while route_request was routing "
              "still ends in a bare exception")
        rc = 1
    else:
        print("OK")
finally:
    for c in (conn1, conn2):
        c.close(signal_node=False)
    for s in socks1 + socks2:
        try:
            s.close()
        except OSError:
            pass
sys.exit(rc)
