"""1660bc2 is incomplete (the other direction): a Destination-Realm that is not
valid UTF-8 is "simply a realm that this node does not serve" for a received
request (3003 since the commit), but the very same realm in a request that an
application sends still makes Node.route_request / Application.send_request
fail with a bare UnicodeDecodeError instead of the documented NotRoutable
("No peers in realm ... configured").

exit 1 = problem present, exit 0 = library behaved correctly
"""
import socket
import sys

from diameter.message import constants
from diameter.message.commands import CreditControlRequest
from diameter.node import Node, NotRoutable
from diameter.node.application import Application
from diameter.node.peer import (PeerConnection, PEER_SEND, PEER_READY,
                                PEER_CONNECTED, PEER_TRANSPORT_TCP)


class App(Application):
    def handle_request(self, message):
        pass


node = Node("client.realm.a", "realm.a")
peer = node.add_peer("aaa://ocs.realm.a", "realm.a",
                     ip_addresses=["127.0.0.1"], is_persistent=False)
app = App(constants.APP_DIAMETER_CREDIT_CONTROL_APPLICATION,
          is_auth_application=True)
node.add_application(app, [peer])
a, b = socket.socketpair()
conn = PeerConnection("127.0.0.1", 3868, PEER_SEND, node.interrupt_write)
conn.node_name = peer.node_name
conn.origin_host = node.origin_host
conn.state = PEER_CONNECTED
node._add_peer_connection(conn, a, PEER_TRANSPORT_TCP)
conn.state = PEER_READY

rc = 0
try:
    def send(realm: bytes):
        ccr = CreditControlRequest()
        ccr.session_id = "client.realm.a;1;2"
        ccr.origin_host = b"client.realm.a"
        ccr.origin_realm = b"realm.a"
        # e.g. the realm part of a subscriber's NAI, taken over as received
        ccr.destination_realm = realm
        ccr.auth_application_id = 4
        ccr.service_context_id = "32251@3gpp.org"
        ccr.cc_request_type = 1
        ccr.cc_request_number = 0
        try:
            app.send_request(ccr, timeout=1)
            return "sent"
        except NotRoutable as e:
            return f"NotRoutable: {e}"
        except Exception as e:
            return f"{type(e).__name__}: {e}"

    ref = send(b"unknown.realm")
    print("send_request, Destination-Realm b'unknown.realm'   ->", ref)
    res = send(b"caf\xe9.realm")
    print("send_request, Destination-Realm b'caf\\xe9.realm' ->", res)
    print("expected: NotRoutable in both cases (a realm without configured "
          "peers)")
    if not ref.startswith("NotRoutable"):
        print("unexpected reference result")
        rc = 1
    if not res.startswith("NotRoutable"):
        print("PROBLEM: the strict decode that the commit removed from the "
              "receiving side is still in route_request")
        rc = 1
    else:
        print("OK")
finally:
    conn.close(signal_node=False)
    a.close()
    b.close()
sys.exit(rc)
