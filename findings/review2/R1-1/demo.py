"""3550cd5 repaired SupplementaryService.aoc_information (attribute defined with
the code of ANOTHER AVP).  The same defect is still present one class further
up in the same file: PsInformation.pdn_connection_charging_id is defined with
AVP_TGPP_PDN_CONNECTION_ID (1065, OctetString, a Gx AVP of TS 29.212) although
the dictionary knows PDN-Connection-Charging-ID (2050, Unsigned32), which is
the AVP that TS 32.299 lists as member of PS-Information.

exit 1: defect present, exit 0: library behaves correctly.
"""
import sys

from diameter.message import Message, constants as C
from diameter.message.avp import Avp
from diameter.message.avp.generator import generate_avps_from_defs
from diameter.message.avp.grouped import PsInformation, ServiceInformation
from diameter.message.commands import CreditControlRequest

problems = []

# ---- direction 1: a peer sends PS-Information { PDN-Connection-Charging-ID }
charging_id = Avp.new(C.AVP_TGPP_PDN_CONNECTION_CHARGING_ID, C.VENDOR_TGPP, value=7)
print("sent member:", charging_id)
ps = Avp.new(C.AVP_TGPP_PS_INFORMATION, C.VENDOR_TGPP, value=[charging_id])
si = Avp.new(C.AVP_TGPP_SERVICE_INFORMATION, C.VENDOR_TGPP, value=[ps])

ccr = CreditControlRequest()
ccr.session_id = "demo;1;1"
ccr.origin_host = b"client.example"
ccr.origin_realm = b"example"
ccr.destination_realm = b"example"
ccr.auth_application_id = 4
ccr.service_context_id = "32251@3gpp.org"
ccr.cc_request_type = C.E_CC_REQUEST_TYPE_EVENT_REQUEST
ccr.cc_request_number = 0
ccr.append_avp(si)

received = Message.from_bytes(ccr.as_bytes())
ps_info = received.service_information.ps_information
print("received PsInformation.pdn_connection_charging_id =",
      repr(ps_info.pdn_connection_charging_id), "(expected 7)")
reencoded = Message.from_bytes(received.as_bytes(), plain_msg=True)
print("the received message, encoded again, holds PDN-Connection-Charging-ID:",
      reencoded.find_avps((C.AVP_TGPP_SERVICE_INFORMATION, C.VENDOR_TGPP),
                          (C.AVP_TGPP_PS_INFORMATION, C.VENDOR_TGPP),
                          (C.AVP_TGPP_PDN_CONNECTION_CHARGING_ID, C.VENDOR_TGPP)))
if ps_info.pdn_connection_charging_id != 7:
    problems.append("a received PDN-Connection-Charging-ID (2050) does not "
                    "reach PsInformation.pdn_connection_charging_id")

# ---- direction 2: the attribute is written as a different AVP
# (PDN-Connection-Charging-ID is Unsigned32: 7 is the natural value; the
# attribute is annotated `bytes` today, so the bytes form is tried as well)
ok_build = False
for value in (7, b"\x00\x00\x00\x07"):
    try:
        out = generate_avps_from_defs(PsInformation(pdn_connection_charging_id=value))
    except Exception as e:
        print(f"PsInformation(pdn_connection_charging_id={value!r}) cannot be "
              f"encoded: {type(e).__name__}: {e}")
        continue
    print(f"PsInformation(pdn_connection_charging_id={value!r}) is encoded as:",
          [str(a) for a in out])
    if [a.code for a in out] == [C.AVP_TGPP_PDN_CONNECTION_CHARGING_ID]:
        ok_build = True
    else:
        problems.append(f"the attribute is encoded with AVP code {out[0].code} "
                        f"({out[0].name}) instead of 2050 "
                        f"(PDN-Connection-Charging-ID)")
if not ok_build and not problems[1:]:
    problems.append("the attribute cannot be encoded as PDN-Connection-Charging-ID")

if problems:
    print("DEFECT:")
    for p in problems:
        print("  -", p)
    sys.exit(1)
print("ok: pdn_connection_charging_id denotes PDN-Connection-Charging-ID")
sys.exit(0)
