"""4325f13 is incomplete: a request decoded with plain_msg=True (a known command,
e.g. Credit-Control) still has no attribute definitions in use, but its
Destination-Realm AVP is ignored by route_request: it is routed by the node's
OWN realm, i.e. it is sent to a peer of the wrong realm.

exit 1 = problem present, exit 0 = library behaved correctly
"""
import socket
import sys

from diameter.message import Message, constants
from diameter.message.avp import Avp
from diameter.message.commands import CreditControlRequest
from diameter.node import Node, NotRoutable
from diameter.node.application import Application
from diameter.node.peer import (PeerConnection, PEER_SEND, PEER_READY,
                                PEER_CONNECTED, PEER_TRANSPORT_TCP)


class App(Application):
    def handle_request(self, message):
        pass


def connect(node, peer):
    a, b = socket.socketpair()
    conn = PeerConnection("127.0.0.1", 3868, PEER_SEND, node.interrupt_write)
    conn.node_name = peer.node_name
    conn.origin_host = node.origin_host
    conn.state = PEER_CONNECTED
    node._add_peer_connection(conn, a, PEER_TRANSPORT_TCP)
    conn.state = PEER_READY
    return conn, (a, b)


node = Node("relay.realm.a", "realm.a")
peer_a = node.add_peer("aaa://ocs.realm.a", "realm.a",
                       ip_addresses=["127.0.0.1"], is_persistent=False)
peer_b = node.add_peer("aaa://ocs.realm.b", "realm.b",
                       ip_addresses=["127.0.0.2"], is_persistent=False)
app = App(constants.APP_DIAMETER_CREDIT_CONTROL_APPLICATION,
          is_auth_application=True)
node.add_application(app, [peer_a, peer_b])
conn_a, socks_a = connect(node, peer_a)
conn_b, socks_b = connect(node, peer_b)

rc = 0
try:
    ccr = CreditControlRequest()
    ccr.session_id = "relay.realm.a;1;2"
    ccr.origin_host = b"relay.realm.a"
    ccr.origin_realm = b"realm.a"
    ccr.destination_realm = b"realm.b"
    ccr.auth_application_id = 4
    ccr.service_context_id = "32251@3gpp.org"
    ccr.cc_request_type = 1
    ccr.cc_request_number = 0
    ccr.header.end_to_end_identifier = 77
    raw = ccr.as_bytes()

    def route(label, msg):
        msg.header.hop_by_hop_identifier = 0
        try:
            conn, _ = node.route_request(app, msg)
            res = conn.node_name
        except NotRoutable as e:
            res = f"NotRoutable({e})"
        print(f"{label:58s} -> {res}")
        return res

    # the three ways of holding the very same request
    r_typed = route("typed CreditControlRequest (destination_realm attribute)",
                    Message.from_bytes(raw))
    generic = Message()
    generic.header = Message.from_bytes(raw).header
    generic.avps = Message.from_bytes(raw, plain_msg=True).avps
    r_generic = route("plain Message() given the list of AVPs", generic)
    plain = Message.from_bytes(raw, plain_msg=True)
    print("plain-decoded class:", type(plain).__name__,
          "| has destination_realm attribute:",
          hasattr(plain, "destination_realm"),
          "| Destination-Realm AVP:",
          plain.find_avps((constants.AVP_DESTINATION_REALM, 0))[0].value)
    r_plain = route("Message.from_bytes(raw, plain_msg=True)", plain)

    print("expected: all three are routed to ocs.realm.b (Destination-Realm "
          "is realm.b)")
    if r_typed != "ocs.realm.b" or r_generic != "ocs.realm.b":
        print("unexpected: the reference cases do not route to realm.b")
        rc = 1
    if r_plain != "ocs.realm.b":
        print("PROBLEM: the plain-decoded request is routed by the node's own "
              "realm (realm.a); its Destination-Realm AVP is ignored")
        rc = 1
    else:
        print("OK")
finally:
    for c in (conn_a, conn_b):
        c.close(signal_node=False)
    for s in socks_a + socks_b:
        s.close()
sys.exit(rc)
