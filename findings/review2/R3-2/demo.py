"""a330542 made remove_peer_connection leave a Peer record alone when the
removed connection is not the peer's own (Peer.connection is not conn).
receive_dpr, a few functions above it, still writes the peer's reconnect
bookkeeping for ANY connection that names the peer:

    peer = self._find_connection_peer(conn)
    if peer:
        peer.disconnect_reason = DISCONNECT_REASON_DPR

so a connection that never became the peer's own still decides whether the
persistent peer is redialled.

Sequence (real loop-back sockets, nothing patched):
  1. node dials its persistent peer p.example        -> conn_out, the peer's own
  2. p.example also dials the node (both sides are configured persistent, or
     anybody using that name) and completes CER/CEA  -> conn_in, READY, not own
  3. p.example takes leave of conn_in with DPR, gets the DPA, closes it
  4. conn_in is removed; conn_out keeps working (a DWR is still answered)
  5. later conn_out breaks (the remote end resets it, no DPR was ever sent on it)
  expected: the node redials p.example after reconnect_wait (1 s)
  observed: never redialled; Peer.disconnect_reason says DPR

exit 1: problem observed, exit 0: node behaved correctly.
"""
import logging
import socket
import struct
import sys
import threading
import time

from diameter.message import Message
from diameter.message.commands import (CapabilitiesExchangeRequest,
                                       DisconnectPeerRequest)
from diameter.message.constants import (APP_DIAMETER_BASE_ACCOUNTING,
                                        E_DISCONNECT_CAUSE_BUSY)
from diameter.node import Node
from diameter.node.application import SimpleThreadingApplication
from diameter.node.peer import (PEER_READY, DISCONNECT_REASON_DPR,
                                PEER_READY_STATES)

logging.basicConfig(level=logging.CRITICAL)


def free_port():
    s = socket.socket()
    s.bind(("127.0.0.1", 0))
    p = s.getsockname()[1]
    s.close()
    return p


def read_msg(sock, timeout=5):
    sock.settimeout(timeout)
    buf = b""
    while len(buf) < 20 or len(buf) < int.from_bytes(buf[1:4], "big"):
        d = sock.recv(4096)
        if not d:
            return None
        buf += d
    return Message.from_bytes(buf)


def wait_for(cond, secs):
    end = time.time() + secs
    while time.time() < end:
        if cond():
            return True
        time.sleep(0.05)
    return cond()


node_port = free_port()
peer_port = free_port()

# ---- the remote peer "p.example": a listener ------------------------------
srv = socket.socket()
srv.setsockopt(socket.SOL_SOCKET, socket.SO_REUSEADDR, 1)
srv.bind(("127.0.0.1", peer_port))
srv.listen(5)
dials = []          # sockets of the dials the node makes to p.example


def accept_loop():
    while True:
        try:
            c, _ = srv.accept()
        except OSError:
            return
        dials.append(c)


threading.Thread(target=accept_loop, daemon=True).start()

# ---- the node ---------------------------------------------------------------
node = Node("node.example", "example",
            ip_addresses=["127.0.0.1"], tcp_port=node_port)
node.wakeup_interval = 1
app = SimpleThreadingApplication(APP_DIAMETER_BASE_ACCOUNTING,
                                 is_acct_application=True)
peer = node.add_peer(f"aaa://p.example:{peer_port}", "example",
                     ["127.0.0.1"], is_persistent=True)
peer.reconnect_wait = 1
node.add_application(app, [peer])
node.start()

rc = 2
try:
    # 1. the node's own dial: answer its CER
    if not wait_for(lambda: len(dials) == 1, 5):
        print("SETUP FAILED: the node did not dial p.example")
        sys.exit(2)
    out_sock = dials[0]
    cer = read_msg(out_sock)
    cea = cer.to_answer()
    cea.origin_host = b"p.example"
    cea.origin_realm = b"example"
    cea.result_code = 2001
    cea.host_ip_address = "127.0.0.1"
    cea.vendor_id = 1
    cea.product_name = "p"
    cea.acct_application_id = [APP_DIAMETER_BASE_ACCOUNTING]
    out_sock.sendall(cea.as_bytes())
    if not wait_for(lambda: peer.connection is not None and
                    peer.connection.state == PEER_READY, 5):
        print("SETUP FAILED: conn_out did not become ready")
        sys.exit(2)
    conn_out = peer.connection

    # 2. p.example dials the node as well
    in_sock = socket.create_connection(("127.0.0.1", node_port))
    cer2 = CapabilitiesExchangeRequest()
    cer2.header.hop_by_hop_identifier = 10
    cer2.header.end_to_end_identifier = 10
    cer2.origin_host = b"p.example"
    cer2.origin_realm = b"example"
    cer2.host_ip_address = "127.0.0.1"
    cer2.vendor_id = 1
    cer2.product_name = "p"
    cer2.acct_application_id = [APP_DIAMETER_BASE_ACCOUNTING]
    in_sock.sendall(cer2.as_bytes())
    cea2 = read_msg(in_sock)
    print(f"step 2: CEA on the second connection: result {cea2.result_code}; "
          f"peer's own connection still conn_out: {peer.connection is conn_out}")

    # 3. ... and takes leave of that connection only
    dpr = DisconnectPeerRequest()
    dpr.header.hop_by_hop_identifier = 11
    dpr.header.end_to_end_identifier = 11
    dpr.origin_host = b"p.example"
    dpr.origin_realm = b"example"
    dpr.disconnect_cause = E_DISCONNECT_CAUSE_BUSY
    in_sock.sendall(dpr.as_bytes())
    dpa = read_msg(in_sock)
    in_sock.close()
    print(f"step 3: DPA on the second connection: result {dpa.result_code}")

    # 4. the second connection is gone, the own one is still there and ready
    wait_for(lambda: len(node.connections) == 1, 5)
    print(f"step 4: connections of the node: {len(node.connections)}, "
          f"own connection ready: "
          f"{conn_out.state in PEER_READY_STATES and peer.connection is conn_out}, "
          f"Peer.disconnect_reason: "
          f"{hex(peer.disconnect_reason) if peer.disconnect_reason else None}")

    # 5. the own connection breaks without any DPR
    out_sock.setsockopt(socket.SOL_SOCKET, socket.SO_LINGER,
                        struct.pack("ii", 1, 0))
    out_sock.close()
    wait_for(lambda: peer.connection is None, 5)
    redialled = wait_for(lambda: len(dials) >= 2, 8)
    print(f"step 5: own connection lost (Peer.connection={peer.connection}); "
          f"Peer.disconnect_reason="
          f"{hex(peer.disconnect_reason) if peer.disconnect_reason else None} "
          f"(DISCONNECT_REASON_DPR={hex(DISCONNECT_REASON_DPR)}); "
          f"dials received by p.example in 8 s (reconnect_wait 1 s): "
          f"{len(dials) - 1}")
    print()
    print("expected: a DPR on a connection that is not the peer's own leaves "
          "the peer's reconnect bookkeeping alone; the lost persistent peer is "
          "redialled after reconnect_wait")
    if redialled:
        print("observed: OK, redialled")
        rc = 0
    else:
        print("observed: PROBLEM - the persistent peer is never redialled, its "
              "record says it left with a DPR")
        rc = 1
finally:
    srv.close()
    for c in dials:
        try:
            c.close()
        except OSError:
            pass
    try:
        node.stop(wait_timeout=2, force=True)
    except Exception:
        pass
    for c in list(node.connections.values()):
        c.close(signal_node=False)
sys.exit(rc)
