"""
Commit 09abf71 "the node cannot block on its own wake-up pipe": the repair
trades the dead-lock for a LOST wake-up.

demand_attention() now swallows BlockingIOError "because a full pipe means the
node has wake-ups pending anyway".  That is true for "I have something to
write" (the I/O loop looks at every write buffer each round) but not for "close
my socket": the I/O loop closes the socket of a PEER_CLOSED connection (and of
a PEER_CLOSING one with nothing left to write) ONLY when it reads that
connection's own ident from the pipe.  A CLOSED connection is not even put into
select()'s read list any more.  If the token is dropped, nothing ever closes
the socket or removes the connection: it stays in Node.connections, the peer
keeps `Peer.connection` (so a persistent peer is never re-dialled), and the
remote end never sees the connection go away.  Before the commit os.write() blocked the *calling* thread
until the node had room, the token was never lost.

Schedule (real loop-back TCP, started Node, nothing patched):
  1. three client peers a, b, c connect and complete CER/CEA
  2. the node's I/O thread is held up for a moment: the handler attached to the
     "diameter.connection" logger (a slow log sink) does not return while the
     I/O thread logs "c has gone away"
  3. meanwhile the application sends a burst of 12000 requests to peer a
     (Node.send_message); the writer thread of that connection writes one
     wake-up per message: the 64 KiB pipe is full after about 10900 of them
  4. meanwhile PeerConnection.close() is called for b's connection (public:
     "signals parent Node to close the underlying socket"; the library does the
     same from the reader thread on garbage, from receive_cer on a won
     election, from the I/O thread on a failed send)   -> token dropped
  5. the log sink returns, the I/O thread carries on

exit 1: 15 s later b's connection is still in Node.connections, its socket is
        still open and Peer.connection is still set
exit 0: the node closed b's socket and removed the connection
"""
import fcntl
import logging
import socket
import struct
import sys
import termios
import threading
import time

from diameter.message import Message, constants
from diameter.message.commands import (CapabilitiesExchangeRequest,
                                       ReAuthRequest)
from diameter.node import Node
from diameter.node.application import Application
from diameter.node.peer import PEER_CLOSED

BURST = 12000
APP_ID = constants.APP_DIAMETER_CREDIT_CONTROL_APPLICATION


class App(Application):
    def handle_request(self, message):
        pass


def free_port():
    s = socket.socket()
    s.bind(("127.0.0.1", 0))
    p = s.getsockname()[1]
    s.close()
    return p


def read_message(sock, timeout):
    sock.settimeout(timeout)
    buf = b""
    while len(buf) < 20:
        chunk = sock.recv(20 - len(buf))
        if not chunk:
            return b""
        buf += chunk
    length = int.from_bytes(buf[1:4], "big")
    while len(buf) < length:
        chunk = sock.recv(length - len(buf))
        if not chunk:
            return b""
        buf += chunk
    return Message.from_bytes(buf)


def connect_peer(name, port):
    sock = socket.create_connection(("127.0.0.1", port))
    cer = CapabilitiesExchangeRequest()
    cer.header.hop_by_hop_identifier = 1
    cer.header.end_to_end_identifier = 1
    cer.origin_host = f"{name}.example.org".encode()
    cer.origin_realm = b"example.org"
    cer.host_ip_address = "127.0.0.1"
    cer.vendor_id = 99999
    cer.product_name = "demo"
    cer.auth_application_id = [APP_ID]
    sock.sendall(cer.as_bytes())
    cea = read_message(sock, 5)
    assert cea and cea.result_code == 2001, f"{name}: no CEA: {cea}"
    return sock


def pipe_bytes(fd):
    return struct.unpack("i", fcntl.ioctl(fd, termios.FIONREAD, b"\0" * 4))[0]


class SlowSink(logging.Handler):
    """A log sink that takes its time for one record."""
    def __init__(self):
        super().__init__()
        self.entered = threading.Event()
        self.go_on = threading.Event()

    def emit(self, record):
        if "has gone away" in record.getMessage() and not self.entered.is_set():
            self.entered.set()
            self.go_on.wait(40)


port = free_port()
node = Node("server.example.org", "example.org",
            ip_addresses=["127.0.0.1"], tcp_port=port)
node.wakeup_interval = 1
node.idle_timeout = 3600
peers = {n: node.add_peer(f"aaa://{n}.example.org", "example.org")
         for n in "abc"}
app = App(application_id=APP_ID, is_auth_application=True)
node.add_application(app, list(peers.values()))
node.start()

sink = SlowSink()
logging.getLogger("diameter.connection").addHandler(sink)

rc = 0
socks = {}
stop_drain = threading.Event()
try:
    for n in "abc":
        socks[n] = connect_peer(n, port)
    app.wait_for_ready(5)
    deadline = time.time() + 5
    while (not all(p.connection for p in peers.values())
           and time.time() < deadline):
        time.sleep(0.05)
    conn_a = peers["a"].connection
    conn_b = peers["b"].connection
    print(f"a, b, c connected; b's connection is {conn_b}")

    # peer a reads whatever it is sent
    def drain(sock):
        sock.settimeout(0.5)
        while not stop_drain.is_set():
            try:
                if not sock.recv(65536):
                    return
            except socket.timeout:
                continue
            except OSError:
                return
    threading.Thread(target=drain, args=(socks["a"],), daemon=True).start()

    # 2. c hangs up; the I/O thread logs it and the log sink is slow
    socks["c"].close()
    assert sink.entered.wait(10), "the I/O thread never logged c's hang-up"
    print("the I/O thread is held up in a slow log sink")

    # 3. a burst of requests to a
    for i in range(BURST):
        rar = ReAuthRequest()
        rar.header.application_id = APP_ID
        rar.header.hop_by_hop_identifier = conn_a.hop_by_hop_seq.next_sequence()
        rar.header.end_to_end_identifier = node.end_to_end_seq.next_sequence()
        rar.session_id = f"server.example.org;1;{i}"
        rar.origin_host = b"server.example.org"
        rar.origin_realm = b"example.org"
        rar.destination_realm = b"example.org"
        rar.destination_host = b"a.example.org"
        rar.auth_application_id = APP_ID
        rar.re_auth_request_type = constants.E_RE_AUTH_REQUEST_TYPE_AUTHORIZE_ONLY
        node.send_message(conn_a, rar)
    # wait for a's writer thread to be through with the burst (or, with a
    # blocking pipe, to be stuck on the full pipe)
    deadline = time.time() + 30
    last, stable_since = -1, time.time()
    while conn_a.has_queued_messages and time.time() < deadline:
        now = pipe_bytes(node.interrupt_read)
        if now != last:
            last, stable_since = now, time.time()
        elif time.time() - stable_since > 1.5:
            break
        time.sleep(0.05)
    print(f"{BURST} requests queued for a; wake-up pipe holds "
          f"{pipe_bytes(node.interrupt_read)} bytes "
          f"(= {pipe_bytes(node.interrupt_read) // 6} wake-ups)")

    # 4. b's connection is closed through the public API
    closer = threading.Thread(target=conn_b.close, daemon=True)
    closer.start()
    closer.join(1)
    print(f"PeerConnection.close() called for b "
          f"({'returned' if not closer.is_alive() else 'waits for room in the pipe'}), "
          f"state is PEER_CLOSED: {conn_b.state == PEER_CLOSED}")

    # 5. the log sink returns
    sink.go_on.set()
    closer.join(30)

    # the node must now shut b's socket down and forget the connection
    socks["b"].settimeout(0.2)
    b_closed_by_node = False
    deadline = time.time() + 15
    while time.time() < deadline:
        try:
            if socks["b"].recv(4096) == b"":
                b_closed_by_node = True
                break
        except socket.timeout:
            pass
        except OSError:
            b_closed_by_node = True
            break
        if conn_b.ident not in node.connections:
            b_closed_by_node = True
            break
    time.sleep(0.3)
    still_known = conn_b.ident in node.connections
    still_socket = conn_b.ident in node.peer_sockets
    print(f"OBSERVED after {'<' if b_closed_by_node else ''}15 s and at least "
          f"a dozen rounds of the I/O loop: remote end saw the connection go "
          f"away: {b_closed_by_node}; connection still in Node.connections: "
          f"{still_known}; socket still held in Node.peer_sockets: "
          f"{still_socket}; Peer.connection of b: {peers['b'].connection}; "
          f"pipe now holds {pipe_bytes(node.interrupt_read)} bytes")
    print("EXPECTED: the node closes the socket of a connection that was "
          "closed with PeerConnection.close() and removes the connection "
          "(Peer.connection None), as it does when the pipe is not full")
    if still_known or still_socket or not b_closed_by_node \
            or peers["b"].connection is not None:
        rc = 1
finally:
    sink.go_on.set()
    stop_drain.set()
    for s in socks.values():
        try:
            s.close()
        except OSError:
            pass
    node.stop(wait_timeout=2, force=True)

sys.exit(rc)
