"""3c70086 regression: realm names are folded with str.lower(), which is the
Unicode case mapping, not the ASCII one of DNS names (rfc6733 4.3.1 / rfc4343).
U+212A KELVIN SIGN lower-cases to the ASCII letter 'k', so a Destination-Realm
that contains bytes outside ASCII -- and therefore cannot be a spelling of the
served realm -- is now taken for the served realm and handed to the
application. Before the commit the request was answered 3003.

exit 1 = problem present, exit 0 = library behaved correctly
"""
import socket
import sys

from diameter.message import Message, constants
from diameter.message.commands import CreditControlRequest
from diameter.node import Node
from diameter.node.application import Application
from diameter.node.peer import (PeerConnection, PEER_RECV, PEER_READY,
                                PEER_CONNECTED, PEER_TRANSPORT_TCP)

REALM = "epc.mnc001.mcc228.3gppnetwork.org"


class App(Application):
    def __init__(self, *args, **kwargs):
        super().__init__(*args, **kwargs)
        self.got = []

    def handle_request(self, message):
        self.got.append(message)


node = Node("ocs." + REALM, REALM)
peer = node.add_peer("aaa://client." + REALM, REALM,
                     ip_addresses=["127.0.0.1"], is_persistent=False)
app = App(constants.APP_DIAMETER_CREDIT_CONTROL_APPLICATION,
          is_auth_application=True)
node.add_application(app, [peer])
a, b = socket.socketpair()
conn = PeerConnection("127.0.0.1", 40000, PEER_RECV, node.interrupt_write)
conn.node_name = peer.node_name
conn.state = PEER_CONNECTED
node._add_peer_connection(conn, a, PEER_TRANSPORT_TCP)
conn.state = PEER_READY
sent = []
conn.add_out_msg = sent.append

rc = 0
try:
    def receive(realm: bytes, hbh: int):
        ccr = CreditControlRequest()
        ccr.header.application_id = 4
        ccr.header.hop_by_hop_identifier = hbh
        ccr.header.end_to_end_identifier = hbh
        ccr.session_id = "client;1;2"
        ccr.origin_host = ("client." + REALM).encode()
        ccr.origin_realm = REALM.encode()
        ccr.destination_realm = realm
        ccr.auth_application_id = 4
        ccr.service_context_id = "32251@3gpp.org"
        ccr.cc_request_type = 1
        ccr.cc_request_number = 0
        n_got, n_sent = len(app.got), len(sent)
        node._receive_message(conn, Message.from_bytes(ccr.as_bytes()))
        if len(app.got) > n_got:
            return "handed to the application"
        return f"answered {[m.result_code for m in sent[n_sent:]]}"

    r1 = receive(REALM.upper().encode(), 1)
    print(f"{REALM.upper().encode()!r}\n   -> {r1}   (expected: handed to "
          f"the application)")
    other = REALM.replace("k", "K").encode()     # not ASCII
    r2 = receive(other, 2)
    print(f"{other!r}\n   -> {r2}   (expected: answered [3003], "
          f"DIAMETER_REALM_NOT_SERVED)")
    if r1 != "handed to the application":
        rc = 1
    if r2 != "answered [3003]":
        print("PROBLEM: a realm that is not a case variant of the served one "
              "is accepted as the served realm")
        rc = 1
    else:
        print("OK")
finally:
    conn.close(signal_node=False)
    a.close()
    b.close()
sys.exit(rc)
