"""ea47093 gave _dump_avps the guard that Avp.__str__ has: a malformed Grouped
AVP no longer loses the whole dump().  The second recursive walker over the
same tree, _traverse_avp_tree (behind Message.find_avps, in message/_base.py),
still reads `avp.value` of every Grouped AVP on the search path without that
guard: for the very message that dump() now renders, the whole search is lost
to an AvpDecodeError, including the results in the well-formed groups.

find_avps is the documented way to read a message decoded with plain_msg=True
and a message of a command without python implementation, and any peer can
send such a message.

exit 1: defect present, exit 0: library behaves correctly.
"""
import struct
import sys

from diameter.message import Message, dump, constants as C
from diameter.message.avp import Avp
from diameter.message.avp.errors import AvpDecodeError


def raw_avp(code: int, flags: int, payload: bytes) -> bytes:
    pad = (4 - len(payload) % 4) % 4
    return struct.pack("!II", code, (flags << 24) | (8 + len(payload))) + payload + b"\x00" * pad


def message(code: int, flags: int, app_id: int, avp_bytes: bytes) -> bytes:
    return (struct.pack("!II", (1 << 24) | (20 + len(avp_bytes)), (flags << 24) | code)
            + struct.pack("!III", app_id, 0x11, 0x22) + avp_bytes)


session_id = Avp.new(C.AVP_SESSION_ID, value="demo;1;1")
good_mscc = Avp.new(C.AVP_MULTIPLE_SERVICES_CREDIT_CONTROL, value=[
    Avp.new(C.AVP_RATING_GROUP, value=8000)])
# a Multiple-Services-Credit-Control whose content is not a sequence of AVPs
bad_mscc = raw_avp(C.AVP_MULTIPLE_SERVICES_CREDIT_CONTROL, 0x40, b"\x01\x02\x03\x04\x05")

wire = message(272, 0x80, 4, session_id.as_bytes() + bad_mscc + good_mscc.as_bytes())

rc = 0
for what, msg in (("plain_msg=True", Message.from_bytes(wire, plain_msg=True)),
                  ("unknown command 9999", Message.from_bytes(
                      message(9999, 0x80, 4, session_id.as_bytes() + bad_mscc + good_mscc.as_bytes())))):
    print(f"--- {what}: {type(msg).__name__}")
    print(dump(msg))     # repaired by ea47093: renders
    try:
        found = msg.find_avps((C.AVP_MULTIPLE_SERVICES_CREDIT_CONTROL, 0),
                              (C.AVP_RATING_GROUP, 0))
    except AvpDecodeError as e:
        print(f"find_avps(MSCC, Rating-Group) raised AvpDecodeError: {e}")
        print("expected: [Rating-Group 8000] (the member of the well-formed group)")
        rc = 1
    else:
        print("find_avps(MSCC, Rating-Group) ->", [str(a) for a in found])
        if [a.value for a in found] != [8000]:
            print("expected: [Rating-Group 8000]")
            rc = 1

print("DEFECT: find_avps is lost to the AvpDecodeError of a malformed Grouped AVP"
      if rc else "ok")
sys.exit(rc)
