"""3284779: the readers of the statistics still iterate a dictionary that other
threads resize - one level above the slots that the commit protects.

3284779 made SecondSlotCounter itself thread-safe, because "the statistics thread
iterated the slots while they were being resized".  The same readers
(StatsLogAdapter.log_stats on the node's connection thread, Node.statistics on the
statistics thread) still iterate PeerStats.sent_result_code_range_counters (and
PeerStats.processed_req_time) without any protection, while
PeerStats.add_sent_result_code / add_processed_req_time, called from
Node._record_answer on connection and application threads, insert new keys.
Every counter call in that loop is a Python-level call (and since 3284779 a lock
acquisition, i.e. a point where the thread can block), so another thread can run
in the middle of the iteration.

Schedule shown here (real loop-back TCP, node.stats_logging = True):
  1. peer does CER/CEA             -> the peer's statistics get the key "2xxx"
  2. peer sends a request for an application the node does not have; the node's
     connection thread reads it and hands it to the connection's reader thread
  3. the connection thread is back at the top of its loop, in log_stats(), inside
     `{r: c.get_count(60) for r, c in stats.sent_result_code_range_counters.items()}`
  4. the reader thread answers 3007 and records it: add_sent_result_code(3007)
     inserts "3xxx"
  5. the iteration continues: RuntimeError: dictionary changed size during
     iteration -> the exception ends Node._handle_connections: the node no longer
     reads, writes, accepts, checks timers or reconnects.
The two threads are only *delayed* (threading.settrace hooks that wait on events at
the two calls named above) to make the interleaving reproducible; nothing of the
library is replaced.

exit 1 = the connection thread of the node has died, exit 0 = it survived.
"""
import logging
import socket
import sys
import threading
import time

from diameter.message import Message, constants
from diameter.message.commands import (CapabilitiesExchangeRequest,
                                       DeviceWatchdogRequest, ReAuthRequest)
from diameter.node import Node

logging.disable(logging.NOTSET)
logging.getLogger().addHandler(logging.NullHandler())
# stats_logging only does something when the "diameter.stats" logger is at DEBUG
logging.getLogger("diameter.stats").setLevel(logging.DEBUG)
logging.getLogger("diameter.stats").addHandler(logging.NullHandler())
logging.getLogger("diameter.stats").propagate = False
for name in ("diameter.node", "diameter.connection", "diameter.peer",
             "diameter.peer.msg", "diameter.application"):
    logging.getLogger(name).setLevel(logging.CRITICAL + 1)

PEER_HOST = "client.example.net"
REALM = "example.net"

target = {"counter": None}            # the "2xxx" counter of the peer
reader_waiting = threading.Event()    # reader thread is about to insert "3xxx"
node_in_iteration = threading.Event() # node thread is inside the iteration
inserted = threading.Event()          # "3xxx" has been inserted
thread_deaths = []


def tracer(frame, event, arg):
    if event != "call":
        return None
    code = frame.f_code
    if code.co_name == "add_sent_result_code":
        if frame.f_locals.get("result_code") == 3007:
            # step 4 waits for step 3
            reader_waiting.set()
            node_in_iteration.wait(20)

            def on_return(frame_, event_, arg_):
                if event_ == "return":
                    inserted.set()
                return on_return
            return on_return
    elif code.co_name == "get_count":
        if (target["counter"] is not None and
                frame.f_locals.get("self") is target["counter"] and
                reader_waiting.is_set() and not node_in_iteration.is_set()):
            caller = frame.f_back
            while caller and caller.f_code.co_name not in ("log_stats",):
                if caller.f_code.co_name.startswith("<"):
                    caller = caller.f_back
                    continue
                caller = None
            if caller is not None:
                # step 3: in the middle of the iteration, let step 4 happen
                node_in_iteration.set()
                inserted.wait(20)
    return None


def excepthook(args):
    import traceback
    where = " <- ".join(f.name for f in reversed(
        traceback.extract_tb(args.exc_traceback)))
    thread_deaths.append((args.thread.name, repr(args.exc_value), where))


def free_port() -> int:
    s = socket.socket()
    s.bind(("127.0.0.1", 0))
    port = s.getsockname()[1]
    s.close()
    return port


def read_message(sock: socket.socket, timeout: float) -> Message | None:
    sock.settimeout(0.2)
    buf = b""
    deadline = time.time() + timeout
    while time.time() < deadline:
        if len(buf) >= 4:
            length = int.from_bytes(buf[1:4], "big")
            if len(buf) >= length:
                return Message.from_bytes(buf[:length])
        try:
            chunk = sock.recv(65535)
        except socket.timeout:
            continue
        if not chunk:
            return None
        buf += chunk
    return None


def main() -> int:
    threading.excepthook = excepthook
    threading.settrace(tracer)

    port = free_port()
    node = Node("server.example.net", REALM, ip_addresses=["127.0.0.1"],
                tcp_port=port)
    node.wakeup_interval = 1
    node.idle_timeout = 300
    node.stats_logging = True
    peer = node.add_peer(f"aaa://{PEER_HOST}", REALM)
    node.start()
    node_thread = node._connection_thread

    sock = socket.create_connection(("127.0.0.1", port), timeout=5)
    dwa = None
    try:
        cer = CapabilitiesExchangeRequest()
        cer.header.hop_by_hop_identifier = 1
        cer.header.end_to_end_identifier = 1
        cer.origin_host = PEER_HOST.encode()
        cer.origin_realm = REALM.encode()
        cer.host_ip_address = ["127.0.0.1"]
        cer.vendor_id = 99999
        cer.product_name = "demo peer"
        cer.auth_application_id = [constants.APP_RELAY]
        sock.sendall(cer.as_bytes())
        cea = read_message(sock, 5)
        if cea is None or cea.result_code != constants.E_RESULT_CODE_DIAMETER_SUCCESS:
            print("SETUP FAILED: no successful CEA", cea)
            return 2
        deadline = time.time() + 5
        while ("2xxx" not in peer.statistics.sent_result_code_range_counters
               and time.time() < deadline):
            time.sleep(0.01)
        target["counter"] = peer.statistics.sent_result_code_range_counters["2xxx"]

        # a request for an application that this node does not have: answered
        # 3007 DIAMETER_APPLICATION_UNSUPPORTED by the node itself
        rar = ReAuthRequest()
        rar.header.hop_by_hop_identifier = 0x1001
        rar.header.end_to_end_identifier = 0x2001
        rar.header.application_id = constants.APP_DIAMETER_CREDIT_CONTROL_APPLICATION
        rar.session_id = f"{PEER_HOST};1;1"
        rar.origin_host = PEER_HOST.encode()
        rar.origin_realm = REALM.encode()
        rar.destination_realm = REALM.encode()
        rar.destination_host = b"server.example.net"
        rar.auth_application_id = constants.APP_DIAMETER_CREDIT_CONTROL_APPLICATION
        rar.re_auth_request_type = constants.E_RE_AUTH_REQUEST_TYPE_AUTHORIZE_ONLY
        sock.sendall(rar.as_bytes())
        raa = read_message(sock, 3)
        print(f"answer to the request for the unknown application received "
              f"by the peer within 3 s: "
              f"{raa.result_code if raa is not None else None}")

        node_thread.join(10)
        if not inserted.is_set():
            print("SETUP FAILED: the schedule did not take place "
                  f"(reader_waiting={reader_waiting.is_set()}, "
                  f"node_in_iteration={node_in_iteration.is_set()})")
            return 2

        # is the node still serving the connection?
        if node_thread.is_alive():
            dwr = DeviceWatchdogRequest()
            dwr.header.hop_by_hop_identifier = 0x1002
            dwr.header.end_to_end_identifier = 0x2002
            dwr.origin_host = PEER_HOST.encode()
            dwr.origin_realm = REALM.encode()
            sock.sendall(dwr.as_bytes())
            dwa = read_message(sock, 5)
    finally:
        threading.settrace(None)
        sock.close()
        try:
            node.stop(wait_timeout=2, force=True)
        except Exception:
            pass
        for conn in list(node.connections.values()):
            conn.close(signal_node=False)

    died = [d for d in thread_deaths]
    print(f"keys of sent_result_code_range_counters: "
          f"{sorted(peer.statistics.sent_result_code_range_counters)}")
    if not node_thread.is_alive() and died:
        print(f"OBSERVED: the node's connection thread "
              f"ended with {died[0][1]} (raised in: {died[0][2]}); the node has "
              f"stopped serving all its sockets (the 3007 answer above was "
              f"never written either)")
        print("EXPECTED: a first answer of a new result-code range, recorded "
              "while the statistics are being logged/collected, does not "
              "disturb the reader (no exception, thread alive, DWR answered)")
        return 1
    print(f"OBSERVED: connection thread alive, DWA received: {dwa is not None}")
    print("EXPECTED: exactly that")
    return 0


if __name__ == "__main__":
    sys.exit(main())
