"""f25d799 only moves the defect: Application.send_answer can still fail with a
bare KeyError (instead of the documented NotRoutable, or of just dropping the
answer) when the connection is removed while the answer is being sent. The
check-then-use of `_peer_waiting_answer` that the commit guarded in route_answer
exists a second time, three statements further down the same call chain, in
Node.send_message:

        if (not message.header.is_request and
                conn.ident in self._peer_waiting_answer and            # (1)
                message_id in self._peer_waiting_answer[conn.ident]):  # (2)
            del self._peer_waiting_answer[conn.ident][message_id]     # (3)

Schedule (two real threads; the node's table is wrapped only in order to stop
T1 at a defined point, it behaves like the dict it replaces):
  T1 (application thread)  app.send_answer(cca) -> route_answer: fine, the
                           connection is there and READY -> send_message:
                           evaluates (1) -> True ... T1 is suspended here
  T2 (node thread)         the peer hangs up: close_connection_socket(conn)
                           -> remove_peer_connection pops
                           _peer_waiting_answer[conn.ident]
  T1                       evaluates (2) -> KeyError

exit 1 = problem present, exit 0 = library behaved correctly
"""
import socket
import sys
import threading

from diameter.message import Message, constants
from diameter.message.commands import CreditControlRequest
from diameter.node import Node, NotRoutable
from diameter.node.application import Application
from diameter.node.peer import (PeerConnection, PEER_RECV, PEER_READY,
                                PEER_CONNECTED, PEER_TRANSPORT_TCP)


class App(Application):
    def __init__(self, *args, **kwargs):
        super().__init__(*args, **kwargs)
        self.got = []

    def handle_request(self, message):
        # answered later, from the application's own thread
        self.got.append(message)


node = Node("ocs.realm.a", "realm.a")
peer = node.add_peer("aaa://client.realm.a", "realm.a",
                     ip_addresses=["127.0.0.1"], is_persistent=False)
app = App(constants.APP_DIAMETER_CREDIT_CONTROL_APPLICATION,
          is_auth_application=True)
node.add_application(app, [peer])
a, b = socket.socketpair()
conn = PeerConnection("127.0.0.1", 40000, PEER_RECV, node.interrupt_write)
conn.node_name = peer.node_name
conn.state = PEER_CONNECTED
node._add_peer_connection(conn, a, PEER_TRANSPORT_TCP)
conn.state = PEER_READY


class Table(dict):
    """`dict` that hands the processor to T2 after one chosen `in` test."""
    armed = False

    def __contains__(self, key):
        found = super().__contains__(key)
        if self.armed:
            self.armed = False
            t2 = threading.Thread(
                target=node.close_connection_socket, args=(conn,))
            t2.start()
            t2.join(10)
        return found


rc = 0
try:
    ccr = CreditControlRequest()
    ccr.header.application_id = 4
    ccr.header.hop_by_hop_identifier = 11
    ccr.header.end_to_end_identifier = 12
    ccr.session_id = "client;1;2"
    ccr.origin_host = b"client.realm.a"
    ccr.origin_realm = b"realm.a"
    ccr.destination_realm = b"realm.a"
    ccr.auth_application_id = 4
    ccr.service_context_id = "32251@3gpp.org"
    ccr.cc_request_type = 1
    ccr.cc_request_number = 0
    node._receive_message(conn, Message.from_bytes(ccr.as_bytes()))
    if len(app.got) != 1:
        print("demo broken: request not delivered")
        sys.exit(2)

    table = Table(node._peer_waiting_answer)
    node._peer_waiting_answer = table
    table.armed = True

    cca = app.generate_answer(app.got[0], constants.E_RESULT_CODE_DIAMETER_SUCCESS)
    cca.cc_request_type = 1
    cca.cc_request_number = 0
    try:
        app.send_answer(cca)
        outcome = "returned normally"
    except NotRoutable as e:
        outcome = f"NotRoutable: {e}"
    except Exception as e:
        outcome = f"{type(e).__name__}: {e!r}"
        rc = 1
    print("connection still known to the node:", conn.ident in node.connections)
    print("send_answer:", outcome)
    print("expected: NotRoutable (as documented, and as the commit "
          "establishes for the same event a moment earlier) or a normal "
          "return; never a bare KeyError")
    print("PROBLEM: send_answer still fails with a bare KeyError when the "
          "connection goes away under it" if rc else "OK")
finally:
    conn.close(signal_node=False)
    for s in (a, b):
        try:
            s.close()
        except OSError:
            pass
sys.exit(rc)
