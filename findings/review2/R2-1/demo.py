"""0fc6d38: a request whose handler fails *because of* its answer is not answered at all any more.

A plain `Application` (its handler runs on the connection's reader thread) answers a
Credit-Control request, but has taken the Result-Code from a configuration file as
text ("2001").  `Node.send_message` queues the answer, `_record_answer` pops the
request from `_origin_waiting_answer` and then fails in the statistics
(`int(result_code / 1000)` -> TypeError); the exception ends the handler.  The
queued answer cannot be encoded and is discarded by the connection's writer thread.

Before 0fc6d38 the error handler of `_receive_message` answered such a request with
5012 DIAMETER_UNABLE_TO_COMPLY.  Now it concludes from the popped record that "an
answer had already gone out" and sends nothing: the peer never gets any answer.

Real loop-back TCP: a Node with a listening socket, a raw socket playing the peer.
exit 1 = the request stays unanswered, exit 0 = the peer received an answer.
"""
import logging
import socket
import sys
import time

from diameter.message import Message, constants
from diameter.message.commands import (CapabilitiesExchangeRequest,
                                       CreditControlRequest)
from diameter.node import Node
from diameter.node.application import Application

logging.disable(logging.CRITICAL)

PEER_HOST = "client.example.net"
REALM = "example.net"


def free_port() -> int:
    s = socket.socket()
    s.bind(("127.0.0.1", 0))
    port = s.getsockname()[1]
    s.close()
    return port


def read_message(sock: socket.socket, timeout: float) -> Message | None:
    """One complete diameter message from the socket, None on timeout."""
    sock.settimeout(timeout)
    buf = b""
    deadline = time.time() + timeout
    try:
        while time.time() < deadline:
            if len(buf) >= 4:
                length = int.from_bytes(buf[1:4], "big")
                if len(buf) >= length:
                    return Message.from_bytes(buf[:length])
            chunk = sock.recv(65535)
            if not chunk:
                return None
            buf += chunk
    except socket.timeout:
        return None
    return None


class CcApp(Application):
    """The handler runs on the reader thread of the connection."""
    handled = 0
    handler_error = None

    def handle_request(self, message: Message):
        CcApp.handled += 1
        answer = self.generate_answer(message)
        answer.cc_request_type = message.cc_request_type
        answer.cc_request_number = message.cc_request_number
        # the bug of the application: a Result-Code read from a config file,
        # still text
        answer.result_code = "2001"
        try:
            self.send_answer(answer)
        except BaseException as e:
            CcApp.handler_error = repr(e)
            raise


def main() -> int:
    port = free_port()
    node = Node("server.example.net", REALM, ip_addresses=["127.0.0.1"],
                tcp_port=port)
    node.wakeup_interval = 1
    node.idle_timeout = 300
    peer = node.add_peer(f"aaa://{PEER_HOST}", REALM)
    app = CcApp(constants.APP_DIAMETER_CREDIT_CONTROL_APPLICATION,
                is_auth_application=True)
    node.add_application(app, [peer])
    node.start()

    sock = socket.create_connection(("127.0.0.1", port), timeout=5)
    try:
        cer = CapabilitiesExchangeRequest()
        cer.header.hop_by_hop_identifier = 1
        cer.header.end_to_end_identifier = 1
        cer.origin_host = PEER_HOST.encode()
        cer.origin_realm = REALM.encode()
        cer.host_ip_address = ["127.0.0.1"]
        cer.vendor_id = 99999
        cer.product_name = "demo peer"
        cer.auth_application_id = [constants.APP_DIAMETER_CREDIT_CONTROL_APPLICATION]
        sock.sendall(cer.as_bytes())
        cea = read_message(sock, 5)
        if cea is None or cea.result_code != constants.E_RESULT_CODE_DIAMETER_SUCCESS:
            print("SETUP FAILED: no successful CEA", cea)
            return 2

        ccr = CreditControlRequest()
        ccr.header.hop_by_hop_identifier = 0x1001
        ccr.header.end_to_end_identifier = 0x2001
        ccr.header.application_id = constants.APP_DIAMETER_CREDIT_CONTROL_APPLICATION
        ccr.session_id = f"{PEER_HOST};1;1"
        ccr.origin_host = PEER_HOST.encode()
        ccr.origin_realm = REALM.encode()
        ccr.destination_realm = REALM.encode()
        ccr.auth_application_id = constants.APP_DIAMETER_CREDIT_CONTROL_APPLICATION
        ccr.service_context_id = "32251@3gpp.org"
        ccr.cc_request_type = constants.E_CC_REQUEST_TYPE_EVENT_REQUEST
        ccr.cc_request_number = 0
        sock.sendall(ccr.as_bytes())

        answer = read_message(sock, 6)
    finally:
        sock.close()
        node.stop(wait_timeout=2, force=True)

    print(f"request handler called {CcApp.handled} time(s), "
          f"it ended with: {CcApp.handler_error}")
    if answer is None:
        print("OBSERVED: the peer received NO answer to its Credit-Control "
              "request within 6 seconds (the queued answer was discarded as "
              "not encodable, the error handler of _receive_message stayed "
              "silent)")
        print("EXPECTED: every request is answered; a handler that fails is "
              "answered with 5012 DIAMETER_UNABLE_TO_COMPLY (which is what "
              "happened before 0fc6d38)")
        return 1
    print(f"OBSERVED: the peer received an answer, Result-Code "
          f"{answer.result_code}, hop-by-hop {hex(answer.header.hop_by_hop_identifier)}")
    print("EXPECTED: exactly that")
    return 0


if __name__ == "__main__":
    sys.exit(main())
