"""d2cfdfc is incomplete: the pattern it repairs in route_request ("a record
filed for a connection whose tables remove_peer_connection has already swept
stays for ever") exists unchanged on the receiving side. Node._receive_message
files `_origin_waiting_answer[<conn.ident>:hbh:e2e]` and _receive_app_request
files `_peer_waiting_answer[conn.ident][(hbh, e2e)]` without looking whether
the connection is still there; remove_peer_connection sweeps both tables
exactly once. Nothing else ever removes these records (there is no timer for
them): they stay for the lifetime of the node.

Schedule (real threads: the connection's reader thread and the node thread):
  reader  a request has been decoded, PeerConnection.__dispatch_message has
          seen state READY and calls the message handler ... suspended here
  node    the peer hangs up: close_connection_socket(conn)
          -> remove_peer_connection sweeps the tables
  reader  Node._receive_message(conn, request): files both records

exit 1 = problem present, exit 0 = library behaved correctly
"""
import socket
import sys
import threading
import time

from diameter.message import constants
from diameter.message.commands import CreditControlRequest
from diameter.node import Node, NotRoutable
from diameter.node.application import Application
from diameter.node.peer import (PeerConnection, PEER_RECV, PEER_READY,
                                PEER_CONNECTED, PEER_TRANSPORT_TCP)


class App(Application):
    def __init__(self, *args, **kwargs):
        super().__init__(*args, **kwargs)
        self.got = []

    def handle_request(self, message):
        self.got.append(message)


node = Node("ocs.realm.a", "realm.a")
peer = node.add_peer("aaa://client.realm.a", "realm.a",
                     ip_addresses=["127.0.0.1"], is_persistent=False)
app = App(constants.APP_DIAMETER_CREDIT_CONTROL_APPLICATION,
          is_auth_application=True)
node.add_application(app, [peer])
a, b = socket.socketpair()
conn = PeerConnection("127.0.0.1", 40000, PEER_RECV, node.interrupt_write)
conn.node_name = peer.node_name
conn.state = PEER_CONNECTED
node._add_peer_connection(conn, a, PEER_TRANSPORT_TCP)
conn.state = PEER_READY

entered = threading.Event()
resume = threading.Event()
done = threading.Event()
receive_message = conn.message_handler      # Node._receive_message


def handler(c, m):
    # nothing but the point at which the reader thread is suspended
    entered.set()
    resume.wait(10)
    try:
        receive_message(c, m)
    finally:
        done.set()


conn.message_handler = handler

rc = 0
try:
    ccr = CreditControlRequest()
    ccr.header.application_id = 4
    ccr.header.hop_by_hop_identifier = 11
    ccr.header.end_to_end_identifier = 12
    ccr.session_id = "client;1;2"
    ccr.origin_host = b"client.realm.a"
    ccr.origin_realm = b"realm.a"
    ccr.destination_realm = b"realm.a"
    ccr.auth_application_id = 4
    ccr.service_context_id = "32251@3gpp.org"
    ccr.cc_request_type = 1
    ccr.cc_request_number = 0
    conn.add_in_bytes(ccr.as_bytes())         # as the node does after recv()
    if not entered.wait(10):
        print("demo broken: request not dispatched")
        sys.exit(2)
    node.close_connection_socket(conn)        # the peer has hung up
    resume.set()
    done.wait(10)
    time.sleep(0.2)

    # whatever the application does now, the records stay
    if app.got:
        try:
            app.send_answer(app.generate_answer(app.got[0], 2001))
        except NotRoutable as e:
            print("application's answer:", f"NotRoutable: {e}")

    ident = conn.ident
    left_origin = {k: v for k, v in node._origin_waiting_answer.items()
                   if k.startswith(ident + ":")}
    left_peer = {k: v for k, v in node._peer_waiting_answer.items()
                 if k == ident}
    print("connection known to the node:", ident in node.connections)
    print("_origin_waiting_answer records of the removed connection:",
          left_origin)
    print("_peer_waiting_answer records of the removed connection:  ",
          left_peer)
    print("_app_waiting_answer:", node._app_waiting_answer)
    print("expected: no record of a removed connection is left in any of "
          "the node's tables")
    if left_origin or left_peer:
        print("PROBLEM: records filed for a connection removed while its "
              "request was being received stay for ever")
        rc = 1
    else:
        print("OK")
finally:
    conn.close(signal_node=False)
    for s in (a, b):
        try:
            s.close()
        except OSError:
            pass
sys.exit(rc)
