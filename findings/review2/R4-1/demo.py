"""Commit 09abf71 ("the node cannot block on its own wake-up pipe").

The write end of the wake-up pipe is non-blocking now and demand_attention()
throws a wake-up away when the pipe is full ("a full pipe means the node has
wake-ups pending anyway").  But a wake-up is not only "look around", it also
says WHICH connection needs attention: the I/O loop closes the socket of a
connection that its reader thread has closed (PeerConnection.close(), state
PEER_CLOSED) only when it finds that connection's ident in the pipe.  A
PEER_CLOSED connection is in neither select() list and is skipped by
_check_timers(), so when its one wake-up is thrown away nothing ever closes
its socket, removes it from Node.connections or releases Peer.connection.

Scenario (nothing but public API and the network):
  * a node with 16 established peers that only read, and 100 more
    established peers ("victims"); all of them live in a child process;
  * the application sends a burst of requests to the 16 peers
    (Node.send_message); the writer threads emit one wake-up per message,
    the I/O thread cannot keep up and the pipe fills (64 KiB = 10922 wake-ups);
  * during the burst, one victim after the other sends 24 zero bytes (a
    Diameter header with length 0).  Its reader thread logs "queue contains
    only garbage, closing connection" and calls PeerConnection.close().
Expected: every such victim is reset by the node, removed from
Node.connections / Node.peer_sockets, and its Peer.connection becomes None
again (so that the peer can come back).
Observed at HEAD: the victims whose close() came while the pipe was full stay
in Node.connections in state PEER_CLOSED for ever, socket open,
Peer.connection still set.  With the code before the commit the reader thread
waited for room in the pipe and every victim was cleaned up.

exit 1: at least one connection leaked, exit 0: all were cleaned up.
"""
import fcntl
import logging
import os
import select
import socket
import struct
import termios
import threading
import time

N_PEERS = 16
N_MSGS = 4000           # per peer (the burst ends early once leaks have shown)
N_VICTIMS = 100
VICTIM_EVERY = 0.1      # seconds between two victims sending their garbage
GRACE = 8               # seconds given to the node after the burst is written


def free_port():
    s = socket.socket()
    s.bind(("127.0.0.1", 0))
    p = s.getsockname()[1]
    s.close()
    return p


def connect_as(name, port):
    """connect and complete the capabilities exchange as peer `name`"""
    from diameter.message import Message
    from diameter.message.commands import CapabilitiesExchangeRequest
    for _ in range(200):
        try:
            s = socket.create_connection(("127.0.0.1", port))
            break
        except OSError:
            time.sleep(0.05)
    else:
        raise RuntimeError("node does not listen")
    cer = CapabilitiesExchangeRequest()
    cer.header.hop_by_hop_identifier = 1
    cer.header.end_to_end_identifier = 1
    cer.origin_host = name.encode()
    cer.origin_realm = b"example.net"
    cer.host_ip_address = ["127.0.0.1"]
    cer.vendor_id = 1
    cer.product_name = "demo peer"
    cer.auth_application_id = [4]
    s.sendall(cer.as_bytes())
    buf = b""
    while len(buf) < 20 or len(buf) < int.from_bytes(buf[1:4], "big"):
        d = s.recv(4096)
        if not d:
            raise RuntimeError("node hung up during the capabilities exchange")
        buf += d
    cea = Message.from_bytes(buf)
    assert cea.result_code == 2001, cea.result_code
    return s


port = free_port()

# --------------------------------------- the peers and victims: a child process
if os.fork() == 0:
    try:
        socks = [connect_as(f"peer{i}.example.net", port)
                 for i in range(N_PEERS)]
        victims = [connect_as(f"victim{i}.example.net", port)
                   for i in range(N_VICTIMS)]
    except Exception:
        os._exit(2)
    for s in socks + victims:
        s.setblocking(False)
    burst_seen = None
    next_victim = 0
    last = 0
    watched = socks + victims
    while socks:
        r, _, _ = select.select(watched, [], [], 0.05)
        now = time.time()
        for s in r:
            try:
                d = s.recv(1 << 20)
            except BlockingIOError:
                continue
            except OSError:
                d = b""
            if not d:
                watched.remove(s)
                if s in socks:
                    socks.remove(s)
            elif s in socks and burst_seen is None:
                burst_seen = now
        # two seconds into the burst, one victim after the other misbehaves
        if (burst_seen and now - burst_seen > 2 and next_victim < N_VICTIMS
                and now - last >= VICTIM_EVERY):
            last = now
            try:
                victims[next_victim].sendall(b"\x00" * 24)  # version 0, length 0
            except OSError:
                pass
            next_victim += 1
    os._exit(0)

# ------------------------------------------------------------------- the node
import diameter
from diameter.message.commands import CreditControlRequest
from diameter.node import Node
from diameter.node.application import SimpleThreadingApplication
from diameter.node.peer import PEER_CLOSED, PEER_READY_STATES

print("library:", os.path.dirname(diameter.__file__))
logging.disable(logging.CRITICAL)

node = Node("node.example.net", "example.net",
            ip_addresses=["127.0.0.1"], tcp_port=port)
node.wakeup_interval = 2
peers = [node.add_peer(f"aaa://peer{i}.example.net", "example.net")
         for i in range(N_PEERS)]
victim_peers = [node.add_peer(f"aaa://victim{i}.example.net", "example.net")
                for i in range(N_VICTIMS)]
app = SimpleThreadingApplication(4, is_auth_application=True)
node.add_application(app, peers)
node.start()

deadline = time.time() + 20
while time.time() < deadline and not all(
        p.connection and p.connection.state in PEER_READY_STATES
        for p in peers + victim_peers):
    time.sleep(0.05)
conns = [p.connection for p in peers]
victim_conns = [p.connection for p in victim_peers]
assert all(conns) and all(victim_conns), "peers did not connect"
print(f"{N_PEERS} peers and {N_VICTIMS} victims are connected and ready")

stop_burst = threading.Event()


def burst(conn):
    for k in range(N_MSGS):
        if stop_burst.is_set():
            break
        ccr = CreditControlRequest()
        ccr.header.hop_by_hop_identifier = 1000 + k
        ccr.header.end_to_end_identifier = 1000 + k
        ccr.session_id = "node.example.net;1;2;3"
        ccr.origin_host = b"node.example.net"
        ccr.origin_realm = b"example.net"
        ccr.destination_realm = b"example.net"
        ccr.auth_application_id = 4
        ccr.service_context_id = "demo@example.net"
        ccr.cc_request_type = 1
        ccr.cc_request_number = 0
        node.send_message(conn, ccr)


def pipe_fill():
    """bytes waiting in the wake-up pipe (observation only)"""
    return struct.unpack("i", fcntl.ioctl(
        node.interrupt_read, termios.FIONREAD, b"\0\0\0\0"))[0]


def closed_by_reader():
    """victims whose reader thread has closed the connection"""
    return [c for c in victim_conns if c.state == PEER_CLOSED]


def leaked():
    """... and that the node still keeps"""
    return [c for c in closed_by_reader()
            if node.connections.get(c.ident) is c]


threads = [threading.Thread(target=burst, args=(c,)) for c in conns]
t0 = time.time()
for t in threads:
    t.start()

max_fill = 0
seen = {}       # ident: when it was first seen closed and still registered
while (any(t.is_alive() for t in threads) or
       any(c.has_queued_messages or c.write_buffer for c in conns)):
    now = time.time()
    if now - t0 > 20:
        stop_burst.set()
    if now - t0 > 35:
        break
    max_fill = max(max_fill, pipe_fill())
    # no need to go on once a few victims have been sitting there, closed by
    # their reader thread and untouched by the I/O loop, for some seconds
    for c in leaked():
        seen.setdefault(c.ident, now)
    if sum(1 for t in seen.values() if now - t > 3) >= 3:
        stop_burst.set()
    time.sleep(0.05)
for t in threads:
    t.join()
print(f"burst of requests to {N_PEERS} peers written after "
      f"{time.time() - t0:.1f} s; the wake-up pipe held up to {max_fill} "
      f"bytes (capacity 65536); {len(closed_by_reader())} victims sent "
      f"garbage meanwhile and were closed by their reader thread")

# give the node plenty of rounds of its loop to tidy up
time.sleep(GRACE)

zombies = leaked()
open_sockets = [c for c in zombies if c.ident in node.peer_sockets and
                node.peer_sockets[c.ident].fileno() >= 0]
stuck_peers = [p.node_name for p in victim_peers
               if p.connection is not None and p.connection.state == PEER_CLOSED]
print(f"observed: {GRACE} s later Node.connections still has {len(zombies)} "
      f"of these victims, in state PEER_CLOSED; the node holds an open socket "
      f"for {len(open_sockets)} of them; Peer.connection is still set for "
      f"{len(stuck_peers)} peers {stuck_peers[:3]}")
print("expected: 0, 0 and 0 - a connection closed by its reader thread is "
      "reset and removed by the I/O loop, its peer may connect again")

rc = 1 if (zombies or stuck_peers) else 0
for c in list(node.connections.values()):
    c.close(signal_node=False)
try:
    node.stop(wait_timeout=1, force=True)
except Exception as e:
    print("stop:", e)
os._exit(rc)
