"""8e2a713: "The result cache is keyed by the search path only, so a search of
another AVP list returned results of the message's own tree".  The repair
takes alt_list out of the cache, but the cache is still keyed by the path
only and nothing ever invalidates it: when the message's OWN list becomes
another list through the public API (the `avps` setter, append_avp, an
attribute of a typed message), find_avps keeps answering from the tree that
was searched first, i.e. still "results of another AVP list".

exit 1: defect present, exit 0: library behaves correctly.
"""
import struct
import sys

from diameter.message import Message, constants as C
from diameter.message.avp import Avp
from diameter.message.commands import CreditControlRequest

rc = 0


def check(label, found, expected):
    global rc
    values = [a.value for a in found]
    state = "ok" if values == expected else "WRONG"
    print(f"{label}: find_avps -> {values}, expected {expected}: {state}")
    if values != expected:
        rc = 1


# 1. the list of a message is replaced through the `avps` setter
msg = Message()
msg.header.command_code = 9999
msg.avps = [Avp.new(C.AVP_SESSION_ID, value="first")]
check("1a base Message, first list", msg.find_avps((C.AVP_SESSION_ID, 0)), ["first"])
msg.avps = [Avp.new(C.AVP_SESSION_ID, value="second")]
check("1b base Message, after `msg.avps = [...]`",
      msg.find_avps((C.AVP_SESSION_ID, 0)), ["second"])
on_wire = Message.from_bytes(msg.as_bytes())
print("   (what as_bytes() encodes:", on_wire.session_id, ")")

# 2. a message decoded with plain_msg=True, AVP added with append_avp
sid = Avp.new(C.AVP_SESSION_ID, value="demo;1;1").as_bytes()
wire = (struct.pack("!II", (1 << 24) | (20 + len(sid)), (0x80 << 24) | 272)
        + struct.pack("!III", 4, 1, 2) + sid)
plain = Message.from_bytes(wire, plain_msg=True)
check("2a plain_msg, before append_avp", plain.find_avps((C.AVP_ORIGIN_REALM, 0)), [])
plain.append_avp(Avp.new(C.AVP_ORIGIN_REALM, value=b"example"))
check("2b plain_msg, after append_avp(Origin-Realm)",
      plain.find_avps((C.AVP_ORIGIN_REALM, 0)), [b"example"])
print("   (what as_bytes() encodes:",
      [a.name for a in Message.from_bytes(plain.as_bytes(), plain_msg=True).avps], ")")

# 3. a typed message whose attribute changes
ccr = CreditControlRequest()
ccr.session_id = "first"
check("3a typed CCR", ccr.find_avps((C.AVP_SESSION_ID, 0)), ["first"])
ccr.session_id = "second"
check("3b typed CCR, after `ccr.session_id = 'second'`",
      ccr.find_avps((C.AVP_SESSION_ID, 0)), ["second"])

print("DEFECT: find_avps answers from a cache of a list that is no longer the "
      "message's list" if rc else "ok")
sys.exit(rc)
