"""7c37eeb: stop() now closes the socket of a CONNECTING connection on the
caller's thread, while the node's I/O thread may be about to ask that very
socket for SO_ERROR (the only socket call of _handle_connections that is not
guarded against the socket having been closed by another thread).

Schedule (forced with threading.settrace, which only DELAYS the node thread at
one source line; no library code or object is replaced):

  node thread : select() reports the dialled socket writable, looks the
                connection up, sees state CONNECTING, is about to execute
                    socket_error = wsock.getsockopt(SOL_SOCKET, SO_ERROR)
  user thread : node.stop()  ->  close_connection_socket(conn) closes wsock
  node thread : getsockopt() on the closed socket -> OSError(EBADF), not caught
                -> the I/O thread ends.

Consequence shown: a second, READY peer never receives the DPR that stop() has
queued for it, stop() sits out its whole wait_timeout, and the READY peer's
socket is never closed by the node.

exit 1: problem observed, exit 0: node behaved correctly.
"""
import inspect
import logging
import socket
import sys
import threading
import time

from diameter.message import Message
from diameter.message.commands import CapabilitiesExchangeRequest
from diameter.message.constants import APP_DIAMETER_BASE_ACCOUNTING
from diameter.node import Node
from diameter.node.application import SimpleThreadingApplication
from diameter.node.peer import PEER_READY

logging.basicConfig(level=logging.CRITICAL)

WAIT_TIMEOUT = 8          # given to node.stop()


def free_port():
    s = socket.socket()
    s.bind(("127.0.0.1", 0))
    p = s.getsockname()[1]
    s.close()
    return p


# --- where is the getsockopt line of Node._handle_connections --------------
src, first = inspect.getsourcelines(Node._handle_connections)
GETSOCKOPT_LINE = next(first + i for i, l in enumerate(src)
                       if "wsock.getsockopt(" in l)
CODE = Node._handle_connections.__code__

at_line = threading.Event()
release = threading.Event()      # set 1.5 s after stop() has been called
thread_errors = []


def local_trace(frame, event, arg):
    if event == "line" and frame.f_lineno == GETSOCKOPT_LINE and not at_line.is_set():
        wsock = frame.f_locals.get("wsock")
        at_line.set()
        # hold the node thread here until stop() has closed the socket, or,
        # if stop() leaves the socket alone, until 1.5 s after it was called
        deadline = time.time() + 30
        while (wsock.fileno() != -1 and not release.is_set()
               and time.time() < deadline):
            time.sleep(0.01)
    return local_trace


def global_trace(frame, event, arg):
    if frame.f_code is CODE:
        return local_trace
    return None


def excepthook(args):
    thread_errors.append((args.thread.name, repr(args.exc_value)))


threading.excepthook = excepthook
threading.settrace(global_trace)

node_port = free_port()
late_port = free_port()

node = Node("node.example", "example",
            ip_addresses=["127.0.0.1"], tcp_port=node_port)
node.wakeup_interval = 1
app = SimpleThreadingApplication(APP_DIAMETER_BASE_ACCOUNTING,
                                 is_acct_application=True)
good = node.add_peer("aaa://good.example", "example")
late = node.add_peer(f"aaa://late.example:{late_port}", "example",
                     ["127.0.0.1"], is_persistent=True)
late.reconnect_wait = 1
node.add_application(app, [good])
node.start()        # the dial to late.example is refused: nobody listens yet

# --- a well behaved peer "good.example": CER, answers DPR with DPA ---------
good_events = []
good_sock = socket.create_connection(("127.0.0.1", node_port))
cer = CapabilitiesExchangeRequest()
cer.header.hop_by_hop_identifier = 1
cer.header.end_to_end_identifier = 1
cer.origin_host = b"good.example"
cer.origin_realm = b"example"
cer.host_ip_address = "127.0.0.1"
cer.vendor_id = 1
cer.product_name = "good"
cer.acct_application_id = [APP_DIAMETER_BASE_ACCOUNTING]
good_sock.sendall(cer.as_bytes())


def good_reader():
    buf = b""
    while True:
        try:
            d = good_sock.recv(4096)
        except OSError:
            good_events.append("closed")
            return
        if not d:
            good_events.append("closed")
            return
        buf += d
        while len(buf) >= 20 and len(buf) >= int.from_bytes(buf[1:4], "big"):
            ln = int.from_bytes(buf[1:4], "big")
            m = Message.from_bytes(buf[:ln])
            buf = buf[ln:]
            good_events.append(
                f"{m.header.command_code}{'R' if m.header.is_request else 'A'}")
            if m.header.is_request and m.header.command_code == 282:
                a = m.to_answer()
                a.origin_host = b"good.example"
                a.origin_realm = b"example"
                a.result_code = 2001
                good_sock.sendall(a.as_bytes())


threading.Thread(target=good_reader, daemon=True).start()

deadline = time.time() + 10
while time.time() < deadline and not (
        good.connection and good.connection.state == PEER_READY):
    time.sleep(0.05)
if not (good.connection and good.connection.state == PEER_READY):
    print("SETUP FAILED: good.example did not become ready")
    sys.exit(2)

# --- now late.example starts listening: the next redial gets through --------
late_srv = socket.socket()
late_srv.setsockopt(socket.SOL_SOCKET, socket.SO_REUSEADDR, 1)
late_srv.bind(("127.0.0.1", late_port))
late_srv.listen(5)

if not at_line.wait(20):
    print("SETUP FAILED: the node never got to the getsockopt line")
    sys.exit(2)

# the node thread is about to call getsockopt(); the user stops the node
threading.Timer(1.5, release.set).start()
t0 = time.time()
node.stop(wait_timeout=WAIT_TIMEOUT)
took = time.time() - t0
time.sleep(0.5)

node_thread_alive_error = [e for e in thread_errors if "_handle_connections" in e[0]]
good_got_dpr = "282R" in good_events
good_closed = "closed" in good_events

print(f"line held: node.py:{GETSOCKOPT_LINE} (wsock.getsockopt)")
print(f"uncaught exceptions in threads : {thread_errors}")
print(f"good.example received          : {good_events}")
print(f"stop(wait_timeout={WAIT_TIMEOUT}) took      : {took:.1f} s")
print(f"connections left in the node   : {list(node.connections)}")
print()
print("expected: the I/O thread survives the socket closed by stop(); "
      "good.example receives the DPR, answers, is disconnected; stop() "
      "returns long before its timeout")

bad = bool(node_thread_alive_error) or not good_got_dpr or not good_closed

for c in list(node.connections.values()):
    c.close(signal_node=False)
if late.connection:
    late.connection.close(signal_node=False)
try:
    good_sock.close()
    late_srv.close()
except OSError:
    pass

if bad:
    print("observed: PROBLEM - the node's I/O thread ended with "
          "the exception above" if node_thread_alive_error else
          "observed: PROBLEM")
    sys.exit(1)
print("observed: OK")
sys.exit(0)
