"""
Commit 8471d46 "the idle clock of a connection follows the bytes that arrive":
the idle clock STILL follows the reader thread as well.  add_in_bytes() now
calls reset_last_read(), but work_read_queue() kept its own reset_last_read()
when it takes a chunk out of the queue.  A chunk that arrived while the reader
thread was busy (a request handler of a plain Application runs on it) therefore
restarts the idle clock a second time, at the moment the reader gets round to
it - long after the last byte arrived.  `last_read_since` ("Seconds since bytes
were last received from the network") is wrong by the reader's backlog and the
watchdog of a peer that has gone silent is late by that amount.

Schedule (real loop-back TCP, started Node, nothing patched):
  idle_timeout 5 s, wakeup_interval 1 s, plain Application, handler takes 5 s
  t=0.0  client sends CCR #1          (reader thread busy until t=5)
  t=0.5  client sends CCR #2, then nothing more, ever
  t=5.0  reader takes CCR #2 from the queue -> idle clock restarted (the bug)
  a DWR is due about t=0.5+5 (+1 s wake-up, +1 s whole-second rounding)

exit 1: the DWR came later than idle_timeout + wakeup_interval + 2 s after the
        last byte the peer sent
exit 0: the DWR came in time
"""
import socket
import sys
import time

from diameter.message import Message, constants
from diameter.message.commands import (CapabilitiesExchangeRequest,
                                       CreditControlRequest,
                                       DeviceWatchdogAnswer)
from diameter.node import Node
from diameter.node.application import Application

HANDLER_TIME = 5
IDLE_TIMEOUT = 5
WAKEUP = 1


class SlowApp(Application):
    """A plain Application: handle_request runs on the reader thread."""
    def handle_request(self, message):
        time.sleep(HANDLER_TIME)
        answer = self.generate_answer(
            message, result_code=constants.E_RESULT_CODE_DIAMETER_SUCCESS)
        answer.cc_request_type = message.cc_request_type
        answer.cc_request_number = message.cc_request_number
        self.send_answer(answer)


def free_port():
    s = socket.socket()
    s.bind(("127.0.0.1", 0))
    p = s.getsockname()[1]
    s.close()
    return p


def read_message(sock, timeout):
    """Read exactly one diameter message; None on timeout, b"" on EOF/RST."""
    sock.settimeout(timeout)
    buf = b""
    try:
        while len(buf) < 20:
            chunk = sock.recv(20 - len(buf))
            if not chunk:
                return b""
            buf += chunk
        length = int.from_bytes(buf[1:4], "big")
        while len(buf) < length:
            chunk = sock.recv(length - len(buf))
            if not chunk:
                return b""
            buf += chunk
    except socket.timeout:
        return None
    except OSError:
        return b""
    return Message.from_bytes(buf)


port = free_port()
node = Node("server.example.org", "example.org",
            ip_addresses=["127.0.0.1"], tcp_port=port)
node.idle_timeout = IDLE_TIMEOUT
node.wakeup_interval = WAKEUP
peer = node.add_peer("aaa://client.example.org", "example.org")
app = SlowApp(application_id=constants.APP_DIAMETER_CREDIT_CONTROL_APPLICATION,
              is_auth_application=True)
node.add_application(app, [peer])
node.start()


def make_ccr(n):
    ccr = CreditControlRequest()
    ccr.header.hop_by_hop_identifier = 10 + n
    ccr.header.end_to_end_identifier = 10 + n
    ccr.header.application_id = constants.APP_DIAMETER_CREDIT_CONTROL_APPLICATION
    ccr.session_id = f"client.example.org;1;{n}"
    ccr.origin_host = b"client.example.org"
    ccr.origin_realm = b"example.org"
    ccr.destination_realm = b"example.org"
    ccr.auth_application_id = constants.APP_DIAMETER_CREDIT_CONTROL_APPLICATION
    ccr.service_context_id = "demo@example.org"
    ccr.cc_request_type = constants.E_CC_REQUEST_TYPE_EVENT_REQUEST
    ccr.cc_request_number = 0
    return ccr


rc = 0
client = socket.create_connection(("127.0.0.1", port))
try:
    cer = CapabilitiesExchangeRequest()
    cer.header.hop_by_hop_identifier = 1
    cer.header.end_to_end_identifier = 1
    cer.origin_host = b"client.example.org"
    cer.origin_realm = b"example.org"
    cer.host_ip_address = "127.0.0.1"
    cer.vendor_id = 99999
    cer.product_name = "demo"
    cer.auth_application_id = [constants.APP_DIAMETER_CREDIT_CONTROL_APPLICATION]
    client.sendall(cer.as_bytes())
    cea = read_message(client, 5)
    assert cea and cea.result_code == 2001, f"no CEA: {cea}"

    client.sendall(make_ccr(1).as_bytes())
    time.sleep(0.5)
    client.sendall(make_ccr(2).as_bytes())
    t_last = time.time()
    print("client sent CCR #1, 0.5 s later CCR #2, and is silent from now on")

    limit = IDLE_TIMEOUT + WAKEUP + 2
    t_dwr = None
    while time.time() - t_last < 30:
        msg = read_message(client, 30)
        if msg is None or msg == b"":
            break
        since = time.time() - t_last
        kind = "request" if msg.header.is_request else "answer"
        print(f"  +{since:5.1f} s: received {msg.name} {kind}")
        if msg.header.command_code == constants.CMD_DEVICE_WATCHDOG:
            t_dwr = since
            break

    if t_dwr is None:
        print("OBSERVED: no DWR at all")
        rc = 1
    elif t_dwr > limit:
        print(f"OBSERVED: the DWR came {t_dwr:.1f} s after the last byte the "
              f"peer sent (idle_timeout={IDLE_TIMEOUT}, "
              f"wakeup_interval={WAKEUP})")
        print(f"EXPECTED: within {limit} s; the idle clock is to follow the "
              f"bytes that arrive, not the reader thread taking them from "
              f"its queue")
        rc = 1
    else:
        print(f"OBSERVED: the DWR came {t_dwr:.1f} s after the last byte, "
              f"in time (limit {limit} s)")
finally:
    client.close()
    node.stop(wait_timeout=2, force=True)

sys.exit(rc)
