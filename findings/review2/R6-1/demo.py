"""
Commit 8471d46 "the idle clock of a connection follows the bytes that arrive":
the repair is incomplete.  The commit message names the defect as "a peer ...
sent a DWR, and closed with DWA_TIMEOUT although its DWA had arrived" while the
connection's reader thread is busy in a request handler of a plain Application.
Only the *idle* clock (last_read) was moved to add_in_bytes(); the *DWA* clock
(dwa_wait_time) is still stopped by receive_dwa(), i.e. only when the reader
thread gets round to the DWA.

Schedule (real loop-back TCP, a started Node, nothing patched):
  1. a client peer connects, CER/CEA, then stays silent
  2. the node legitimately sends a DWR after idle_timeout
  3. the client sends an application request (CCR) and, right behind it, the DWA
  4. the CCR is handled by a plain Application whose handler takes 7 s
     (it runs on the connection's reader thread); the DWA has ARRIVED and sits
     in the connection's queue
  5. dwa_timeout (default 4 s) expires -> the node resets the connection with
     DISCONNECT_REASON_DWA_TIMEOUT

exit 1: the connection was closed with DWA_TIMEOUT although the DWA had arrived
exit 0: the connection survived
"""
import socket
import sys
import time

from diameter.message import Message, constants
from diameter.message.commands import (CapabilitiesExchangeRequest,
                                       CreditControlRequest,
                                       DeviceWatchdogAnswer)
from diameter.node import Node
from diameter.node.application import Application
from diameter.node.peer import DISCONNECT_REASON_DWA_TIMEOUT

HANDLER_TIME = 7


class SlowApp(Application):
    """A plain Application: handle_request runs on the reader thread."""
    def handle_request(self, message):
        time.sleep(HANDLER_TIME)
        answer = self.generate_answer(
            message, result_code=constants.E_RESULT_CODE_DIAMETER_SUCCESS)
        answer.cc_request_type = message.cc_request_type
        answer.cc_request_number = message.cc_request_number
        self.send_answer(answer)


def free_port():
    s = socket.socket()
    s.bind(("127.0.0.1", 0))
    p = s.getsockname()[1]
    s.close()
    return p


def read_message(sock, timeout):
    """Read exactly one diameter message; None on timeout, b"" on EOF/RST."""
    sock.settimeout(timeout)
    buf = b""
    try:
        while len(buf) < 20:
            chunk = sock.recv(20 - len(buf))
            if not chunk:
                return b""
            buf += chunk
        length = int.from_bytes(buf[1:4], "big")
        while len(buf) < length:
            chunk = sock.recv(length - len(buf))
            if not chunk:
                return b""
            buf += chunk
    except socket.timeout:
        return None
    except OSError:
        return b""
    return Message.from_bytes(buf)


port = free_port()
node = Node("server.example.org", "example.org",
            ip_addresses=["127.0.0.1"], tcp_port=port)
node.idle_timeout = 2
node.wakeup_interval = 1
# node.dwa_timeout stays at its default of 4 seconds
peer = node.add_peer("aaa://client.example.org", "example.org")
app = SlowApp(application_id=constants.APP_DIAMETER_CREDIT_CONTROL_APPLICATION,
              is_auth_application=True)
node.add_application(app, [peer])
node.start()

rc = 0
client = socket.create_connection(("127.0.0.1", port))
try:
    cer = CapabilitiesExchangeRequest()
    cer.header.hop_by_hop_identifier = 1
    cer.header.end_to_end_identifier = 1
    cer.origin_host = b"client.example.org"
    cer.origin_realm = b"example.org"
    cer.host_ip_address = "127.0.0.1"
    cer.vendor_id = 99999
    cer.product_name = "demo"
    cer.auth_application_id = [constants.APP_DIAMETER_CREDIT_CONTROL_APPLICATION]
    client.sendall(cer.as_bytes())
    cea = read_message(client, 5)
    assert cea and cea.result_code == 2001, f"no CEA: {cea}"
    print("CER/CEA done, client stays silent")

    dwr = read_message(client, 10)
    assert dwr and dwr.header.command_code == constants.CMD_DEVICE_WATCHDOG \
        and dwr.header.is_request, f"expected a DWR, got {dwr}"
    t_dwr = time.time()
    print("node sent a DWR after the idle timeout (legitimate)")

    ccr = CreditControlRequest()
    ccr.header.hop_by_hop_identifier = 2
    ccr.header.end_to_end_identifier = 2
    ccr.header.application_id = constants.APP_DIAMETER_CREDIT_CONTROL_APPLICATION
    ccr.session_id = "client.example.org;1;1"
    ccr.origin_host = b"client.example.org"
    ccr.origin_realm = b"example.org"
    ccr.destination_realm = b"example.org"
    ccr.auth_application_id = constants.APP_DIAMETER_CREDIT_CONTROL_APPLICATION
    ccr.service_context_id = "demo@example.org"
    ccr.cc_request_type = constants.E_CC_REQUEST_TYPE_EVENT_REQUEST
    ccr.cc_request_number = 0

    dwa = DeviceWatchdogAnswer()
    dwa.header.hop_by_hop_identifier = dwr.header.hop_by_hop_identifier
    dwa.header.end_to_end_identifier = dwr.header.end_to_end_identifier
    dwa.result_code = 2001
    dwa.origin_host = b"client.example.org"
    dwa.origin_realm = b"example.org"
    dwa.origin_state_id = 1

    client.sendall(ccr.as_bytes() + dwa.as_bytes())
    print(f"client sent a CCR and its DWA {time.time() - t_dwr:.3f} s after "
          f"the DWR; the CCR handler takes {HANDLER_TIME} s")

    # the next thing the client should see is the CCA, after HANDLER_TIME
    nxt = read_message(client, HANDLER_TIME + 5)
    waited = time.time() - t_dwr
    if nxt == b"":
        print(f"OBSERVED: the node closed the connection {waited:.1f} s after "
              f"its DWR; peer.disconnect_reason="
              f"{peer.disconnect_reason:#x} "
              f"(DISCONNECT_REASON_DWA_TIMEOUT={DISCONNECT_REASON_DWA_TIMEOUT:#x}), "
              f"peer.connection={peer.connection}")
        print("EXPECTED: the DWA arrived a few milliseconds after the DWR; "
              "the connection stays up and the CCA is delivered")
        rc = 1
    elif nxt is None:
        print("OBSERVED: nothing received at all (unexpected)")
        rc = 1
    else:
        print(f"OBSERVED: received {nxt} after {waited:.1f} s, connection alive, "
              f"peer.disconnect_reason={peer.disconnect_reason}")
        rc = 0
finally:
    client.close()
    node.stop(wait_timeout=2, force=True)

sys.exit(rc)
