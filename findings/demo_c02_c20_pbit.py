"""Demonstration (not a check): typed constructors overwrite the P bit.
exit 1 = wire flags changed by decoding / answer lost the request's P bit."""
import sys
from diameter.message import Message
from diameter.message.commands import CreditControlRequest, DeviceWatchdogRequest
bad = 0
# CCR received with P=0 (flags 0x80): decoding must keep 0x80
ccr = CreditControlRequest(); ccr.header.is_proxyable = False
ccr.session_id = "a;b"; ccr.origin_host = b"h"; ccr.origin_realm = b"r"; ccr.destination_realm = b"r"
ccr.auth_application_id = 4; ccr.service_context_id = "x"; ccr.cc_request_type = 1; ccr.cc_request_number = 0
raw = ccr.as_bytes()
assert raw[4] == 0x80
dec = Message.from_bytes(raw)
print("decoded flags: 0x%02x (wire 0x80)" % dec.header.command_flags)
bad |= dec.header.command_flags != 0x80
ans = ccr.to_answer()
print("answer flags: 0x%02x (expected 0x00: request had P=0)" % ans.header.command_flags)
bad |= ans.header.command_flags != 0x00
# DWR received with P=1
dwr = DeviceWatchdogRequest(); dwr.header.is_proxyable = True
a2 = dwr.to_answer()
print("DWA flags: 0x%02x (expected 0x40)" % a2.header.command_flags)
bad |= a2.header.command_flags != 0x40
sys.exit(1 if bad else 0)
