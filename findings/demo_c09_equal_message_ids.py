"""Demonstration (not a check) of the known finding C09-R4 (residual after /repo 9ce2ff5): two
connections have a request outstanding under the same hop-by-hop AND end-to-end identifier (both
are chosen by the peers); the answer to B's request is routed to A.
Run with PYTHONPATH=<repo>/src; exit 1 = misrouted."""
import os, sys
from diameter.message.commands import CreditControlRequest
from diameter.node import Node
from diameter.node.application import Application
from diameter.node.peer import PeerConnection, PEER_RECV, PEER_READY

class App(Application):
    def __init__(self):
        super().__init__(4, is_auth_application=True); self.got = []
    def handle_request(self, m): self.got.append(m)

node = Node("n.example.net", "example.net")
pa = node.add_peer("aaa://a.example.net"); pb = node.add_peer("aaa://b.example.net")
app = App(); node.add_application(app, [pa, pb])
r, w = os.pipe()
conns = {}
for name, peer in (("a.example.net", pa), ("b.example.net", pb)):
    c = PeerConnection("127.0.0.1", 1, PEER_RECV, w)
    c.ident = os.urandom(6).hex(); c.state = PEER_READY; c.host_identity = name; c.node_name = name
    node.connections[c.ident] = c; peer.connection = c; conns[name] = c
def req(origin):
    m = CreditControlRequest(); m.header.hop_by_hop_identifier = 7; m.header.end_to_end_identifier = 9
    m.session_id = "s;" + origin; m.origin_host = origin.encode(); m.origin_realm = b"example.net"
    m.destination_realm = b"example.net"
    m.auth_application_id = 4; m.service_context_id = "x"; m.cc_request_type = 1; m.cc_request_number = 0
    m.header.application_id = 4
    return m
node._receive_message(conns["a.example.net"], req("a.example.net"))
node._receive_message(conns["b.example.net"], req("b.example.net"))
answer_for_b = app.generate_answer(app.got[1], result_code=2001)
conn, _ = node.route_answer(answer_for_b)
print("answer to b.example.net's request (session", answer_for_b.session_id, ") is routed to", conn.host_identity)
for c in conns.values(): c.close(signal_node=False)
sys.exit(1 if conn.host_identity != "b.example.net" else 0)
