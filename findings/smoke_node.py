"""Developer smoke run (not a check): two nodes over loopback, CER/CEA, one
request/answer through a SimpleThreadingApplication, graceful stop."""
import logging, sys, threading, time
from diameter.message import constants
from diameter.message.commands import CreditControlRequest
from diameter.node import Node
from diameter.node.application import SimpleThreadingApplication
logging.basicConfig(level=logging.WARNING)
errs = []
threading.excepthook = lambda a: errs.append(a)
PORT = 39868
srv = Node("srv.example.net", "example.net", ip_addresses=["127.0.0.1"], tcp_port=PORT)
cli = Node("cli.example.net", "example.net")
for n in (srv, cli):
    n.wakeup_interval = 1
def handle(app, msg):
    a = app.generate_answer(msg, result_code=2001)
    a.cc_request_type = msg.cc_request_type; a.cc_request_number = msg.cc_request_number
    return a
sapp = SimpleThreadingApplication(constants.APP_DIAMETER_CREDIT_CONTROL_APPLICATION, is_auth_application=True, max_threads=1, request_handler=handle)
capp = SimpleThreadingApplication(constants.APP_DIAMETER_CREDIT_CONTROL_APPLICATION, is_auth_application=True)
sp = srv.add_peer("aaa://cli.example.net")
cp = cli.add_peer(f"aaa://srv.example.net:{PORT}", ip_addresses=["127.0.0.1"], is_persistent=True)
srv.add_application(sapp, [sp]); cli.add_application(capp, [cp])
srv.start(); cli.start()
capp.wait_for_ready(10)
for i in range(3):
    r = CreditControlRequest()
    r.session_id = cli.session_generator.next_id(); r.origin_host = b"cli.example.net"; r.origin_realm = b"example.net"
    r.destination_realm = b"example.net"; r.auth_application_id = 4; r.service_context_id = "x"
    r.cc_request_type = 1; r.cc_request_number = i
    a = capp.send_request(r, timeout=5)
    print("answer", a.result_code, hex(a.header.command_flags))
print("tables:", len(cli._app_waiting_answer), len(srv._origin_waiting_answer), len(cli._origin_waiting_answer), len(srv._peer_waiting_answer.get("cli.example.net", {})))
# the statistics path (deep copies of the counters, the stats logger) is part of the smoke run
st = srv.statistics
assert st.processed_req_per_second is not None
srv.stats_logger.log_stats(); srv.stats_logger.log_peers()
cli.stop(wait_timeout=5); srv.stop(wait_timeout=5)
time.sleep(1)
alive = [t.name for t in threading.enumerate() if t is not threading.main_thread()]
print("threads alive:", alive, "thread errors:", errs)
sys.exit(1 if alive or errs else 0)
