"""
C03 / finding 1: EventType.sip_method denotes the wrong AVP.

The container `EventType` documents itself as the 3GPP TS 32.299 "Event-Type"
(823) grouped AVP. Its members in TS 32.299 are SIP-Method (824), Event (825)
and Expires (888), all vendor 10415, and the dictionary knows all three
(824/10415 is listed as "3GPP-SIP-Method"). The attribute `sip_method` is
however defined with AVP_SIP_METHOD = 393 without vendor (RFC 4740).

Exit 1 when the defect is present, 0 otherwise.
"""
import sys

from diameter.message import Message, Avp
from diameter.message.constants import *
from diameter.message.commands import AccountingRequest
from diameter.message.commands.accounting import EventType

failed = []

# --- A: decoding an Rf ACR the way an IMS node sends it (TS 32.299) --------
wire = AccountingRequest()
wire.session_id = "cscf.ims.example;1;1"
wire.origin_host = b"cscf.ims.example"
wire.origin_realm = b"ims.example"
wire.destination_realm = b"cdf.example"
wire.accounting_record_type = E_ACCOUNTING_RECORD_TYPE_EVENT_RECORD
wire.accounting_record_number = 1
event_type_avp = Avp.new(AVP_TGPP_EVENT_TYPE, VENDOR_TGPP, value=[
    Avp.new(AVP_TGPP_3GPP_SIP_METHOD, VENDOR_TGPP, value="INVITE"),   # 824/10415
    Avp.new(AVP_TGPP_EVENT, VENDOR_TGPP, value="reg"),                # 825/10415
])
wire.append_avp(event_type_avp)
wire_bytes = wire.as_bytes()

acr = Message.from_bytes(wire_bytes)
assert isinstance(acr, AccountingRequest)
assert acr.event_type is not None and acr.event_type.event == "reg"
print("A: received Event-Type {SIP-Method(824/10415)='INVITE', Event='reg'}")
print("   decoded event_type =", acr.event_type)
if acr.event_type.sip_method != "INVITE":
    failed.append("decode")
    print("   VIOLATION: event_type.sip_method is", repr(acr.event_type.sip_method),
          "- the property requires the attribute that denotes SIP-Method of "
          "Event-Type to be restored ('INVITE')")
again = acr.as_bytes()
left = Message.from_bytes(again, plain_msg=True).find_avps(
    (AVP_TGPP_EVENT_TYPE, VENDOR_TGPP), (AVP_TGPP_3GPP_SIP_METHOD, VENDOR_TGPP))
print(f"   re-encoded: {len(wire_bytes)} -> {len(again)} bytes, "
      f"SIP-Method(824/10415) AVPs left in Event-Type: {len(left)}")
if len(left) != 1:
    failed.append("reencode")
    print("   VIOLATION: the received SIP-Method AVP is neither exposed as an "
          "attribute nor carried over")

# --- B: encoding ------------------------------------------------------------
out = AccountingRequest()
out.event_type = EventType(sip_method="INVITE")
members = out.find_avps((AVP_TGPP_EVENT_TYPE, VENDOR_TGPP))[0].value
print("B: EventType(sip_method='INVITE') is encoded as:",
      [(a.name, a.code, a.vendor_id) for a in members])
if [(a.code, a.vendor_id) for a in members] != [(824, 10415)]:
    failed.append("encode")
    print("   VIOLATION: the property requires one AVP bearing the code and "
          "vendor of the SIP-Method AVP of TS 32.299 Event-Type (824, 10415); "
          "the library emits", [(a.code, a.vendor_id) for a in members])

if failed:
    print("RESULT: violated:", failed)
    sys.exit(1)
print("RESULT: ok")
sys.exit(0)
