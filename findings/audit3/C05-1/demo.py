"""
C05 / finding 1: once any socket of the node has a descriptor number >= 1024
(FD_SETSIZE), the node's I/O loop can no longer read from ANY connection: every
select.select() call raises ValueError, the handler added for "a socket was
closed by another thread" turns that into "nothing is ready", and the loop goes
round again at once - it spins at full speed without consuming a byte, and the
bytes of established connections stay unread in the kernel.

A peer can cause this from outside: it only has to hold enough TCP connections
open (they need not send anything).  In this demo the clients live in the same
process, so about 500 connections are enough to push the node's accepted
sockets past descriptor 1023; with remote clients about 1000 are needed.

Exit 1: a well-formed CCR sent on an established, READY connection is not
delivered while the loop spins.  Exit 0: it is delivered (as before the flood).
"""
import logging
import os
import resource
import select as _select
import socket
import sys
import threading
import time

soft, hard = resource.getrlimit(resource.RLIMIT_NOFILE)
want = 4096 if hard == resource.RLIM_INFINITY else min(hard, 4096)
if soft < want:
    resource.setrlimit(resource.RLIMIT_NOFILE, (want, hard))
if resource.getrlimit(resource.RLIMIT_NOFILE)[0] < 2200:
    print("cannot run: RLIMIT_NOFILE too low to create descriptors >= 1024")
    os._exit(0)

from diameter.message import Message
from diameter.message.commands import (CapabilitiesExchangeRequest,
                                       CreditControlRequest)
from diameter.message.constants import *
from diameter.node import Node
from diameter.node import node as node_module
from diameter.node.application import Application
from diameter.node.peer import PEER_READY


def free_port():
    s = socket.socket()
    s.bind(("127.0.0.1", 0))
    p = s.getsockname()[1]
    s.close()
    return p


delivered = []


class App(Application):
    def handle_request(self, message):
        delivered.append(message.header.hop_by_hop_identifier)
        answer = self.generate_answer(message, result_code=2001)
        answer.cc_request_type = message.cc_request_type
        answer.cc_request_number = message.cc_request_number
        self.send_answer(answer)


port = free_port()
node = Node("srv.example.net", "example.net", ip_addresses=["127.0.0.1"],
            tcp_port=port)
node.wakeup_interval = 1
# keeps the run deterministic on a slow machine: idle connections that have not
# sent a CER are not reaped while the measurement runs.  (With the default of
# 4 s the outage lasts until the last connection with a descriptor >= 1024 has
# been reaped, and starts again with the next wave of connections.)
node.cer_timeout = 60
logging.getLogger("diameter").setLevel(logging.CRITICAL)
peer = node.add_peer("aaa://cli.example.net", "example.net")
app = App(application_id=4, is_auth_application=True)
node.add_application(app, [peer])
node.start()


def read_msg(sock, timeout):
    sock.settimeout(timeout)
    buf = b""
    try:
        while len(buf) < 20:
            d = sock.recv(20 - len(buf))
            if not d:
                return None
            buf += d
        length = int.from_bytes(buf[1:4], "big")
        while len(buf) < length:
            d = sock.recv(length - len(buf))
            if not d:
                return None
            buf += d
    except (socket.timeout, TimeoutError):
        return None
    return Message.from_bytes(buf)


def ccr(n):
    m = CreditControlRequest()
    m.session_id = "cli.example.net;1;1"
    m.origin_host = b"cli.example.net"
    m.origin_realm = b"example.net"
    m.destination_realm = b"example.net"
    m.auth_application_id = 4
    m.service_context_id = "demo@example.net"
    m.cc_request_type = E_CC_REQUEST_TYPE_EVENT_REQUEST
    m.cc_request_number = n
    m.header.application_id = 4
    m.header.hop_by_hop_identifier = 1000 + n
    m.header.end_to_end_identifier = 2000 + n
    return m.as_bytes()


# --- a legitimate, configured peer connects and completes CER/CEA ----------
cli = socket.create_connection(("127.0.0.1", port))
cer = CapabilitiesExchangeRequest()
cer.origin_host = b"cli.example.net"
cer.origin_realm = b"example.net"
cer.host_ip_address = ["127.0.0.1"]
cer.vendor_id = 99999
cer.product_name = "demo"
cer.auth_application_id = [4]
cer.header.hop_by_hop_identifier = 1
cer.header.end_to_end_identifier = 1
cli.sendall(cer.as_bytes())
cea = read_msg(cli, 5)
assert cea is not None and cea.result_code == 2001, "CER/CEA failed"

cli.sendall(ccr(1))
cca = read_msg(cli, 5)
assert cca is not None and delivered == [1001], "baseline CCR not served"
print(f"baseline: CCR 1 delivered to the application and answered "
      f"({cca.result_code}) on the READY connection")

# --- observation only: count what the node's loop does with select() -------
stats = {"calls": 0, "valueerrors": 0}
real_select = _select.select


def counting_select(r, w, x, t=None):
    stats["calls"] += 1
    try:
        return real_select(r, w, x, t)
    except ValueError:
        stats["valueerrors"] += 1
        raise


class SelectProxy:
    def __getattr__(self, name):
        return getattr(_select, name)
    select = staticmethod(counting_select)


node_module.select = SelectProxy()

# --- other clients merely open TCP connections (and send nothing) ----------
flood = []
deadline = time.time() + 20
while time.time() < deadline and len(flood) < 1500:
    try:
        flood.append(socket.create_connection(("127.0.0.1", port), timeout=2))
    except OSError:
        break
    if node.socket_peers and max(node.socket_peers) >= 1024:
        break
    if stats["valueerrors"]:
        break
# let the node accept what is still in its backlog
t0 = time.time()
while time.time() - t0 < 3 and not stats["valueerrors"]:
    time.sleep(0.01)
highest = max(node.socket_peers) if node.socket_peers else -1
print(f"{len(flood)} idle TCP connections opened; highest descriptor held by "
      f"the node: {highest}")

# --- the established peer sends its next request ---------------------------
calls_before = stats["calls"]
errors_before = stats["valueerrors"]
t_send = time.time()
cli.sendall(ccr(2))
cca2 = read_msg(cli, 2.5)
waited = time.time() - t_send
calls = stats["calls"] - calls_before
errors = stats["valueerrors"] - errors_before
conn_state = peer.connection.state if peer.connection else None

print(f"CCR 2 sent on the same READY connection; waited {waited:.1f} s")
print(f"  delivered to the application: {delivered}")
print(f"  answer received: {cca2 is not None}")
print(f"  connection state: "
      f"{'READY' if conn_state == PEER_READY else conn_state}")
print(f"  select() calls of the I/O loop meanwhile: {calls}, of which raised "
      f"ValueError: {errors}  (wakeup_interval is {node.wakeup_interval} s)")

violated = (1002 not in delivered) and errors > 0
if violated:
    print("VIOLATION: the byte stream of an established connection is a "
          "well-formed CCR, but it is neither delivered nor is the connection "
          "closed: the I/O loop spins (select() fails every round with "
          "'filedescriptor out of range') without consuming any input.")
    print("REQUIRED (C05): 'a peer connection delivers exactly those "
          "messages' and 'no input ... can make the reader spin without "
          "consuming input or stop servicing the connection silently'.")
else:
    print("OK: the request was delivered although descriptors >= 1024 are in "
          "use.")

rc = 1 if violated else 0
sys.stdout.flush()
for s in flood:
    try:
        s.close()
    except OSError:
        pass
try:
    cli.close()
except OSError:
    pass
os._exit(rc)
