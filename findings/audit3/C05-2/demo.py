"""
C05 / finding 2: a well-formed request of a command without typed python class
(here MO-Forward-Short-Message, 8388645; the same for any unknown command code)
whose Failed-AVP / grouped AVPs are nested about 1000 levels deep - a message of
less than 8 KiB - is thrown away by the framing loop as "garbage": building the
UndefinedMessage recurses once per nesting level (UndefinedMessage.
_assign_attr_values) and hits python's recursion limit; the RecursionError is an
Exception, so work_read_queue discards the frame.  The messages before and
behind it are delivered, this one never reaches message_handler and the peer
gets no answer at all.

Exit 1: the stream DWR, <nested request>, DWR delivers only the two DWRs.
Exit 0: all three messages are delivered, in order.
"""
import logging
import os
import struct
import sys
import time

from diameter.message import Message
from diameter.message.avp import Avp
from diameter.message.commands import DeviceWatchdogRequest
from diameter.message.constants import *
from diameter.node.peer import PeerConnection, PEER_RECV, PEER_READY

logging.basicConfig(level=logging.WARNING, stream=sys.stdout,
                    format="    [library log] %(message)s")

DEPTH = 1000


def dwr(n):
    m = DeviceWatchdogRequest()
    m.origin_host = b"peer.example.net"
    m.origin_realm = b"example.net"
    m.header.hop_by_hop_identifier = n
    m.header.end_to_end_identifier = n
    return m.as_bytes()


def nested_request(n, depth):
    # innermost member: a plain Unsigned32 AVP (Result-Code)
    inner = Avp.new(AVP_RESULT_CODE, value=5005).as_bytes()
    for _ in range(depth):
        # Failed-AVP ::= < AVP Header: 279 > 1* {AVP}; flags: M
        inner = struct.pack(">II", AVP_FAILED_AVP,
                            (0x40 << 24) | (8 + len(inner))) + inner
    body = (Avp.new(AVP_SESSION_ID, value="peer.example.net;1;1").as_bytes() +
            Avp.new(AVP_ORIGIN_HOST, value=b"peer.example.net").as_bytes() +
            Avp.new(AVP_ORIGIN_REALM, value=b"example.net").as_bytes() +
            Avp.new(AVP_DESTINATION_REALM, value=b"example.net").as_bytes() +
            inner)
    header = struct.pack(">IIIII", (1 << 24) | (20 + len(body)),
                         (0xc0 << 24) | 8388645, 16777313, n, n)
    return header + body


def check_well_formed(frame):
    """Iterative (non-recursive) walk: every AVP length is consistent."""
    assert len(frame) % 4 == 0
    assert int.from_bytes(frame[1:4], "big") == len(frame)
    todo = [(20, len(frame))]
    count = 0
    while todo:
        pos, end = todo.pop()
        while pos < end:
            code, fl = struct.unpack(">II", frame[pos:pos + 8])
            length = fl & 0xffffff
            flags = fl >> 24
            hdr = 12 if flags & 0x80 else 8
            assert length >= hdr and pos + length <= end, "bad AVP length"
            if code == AVP_FAILED_AVP:
                todo.append((pos + hdr, pos + length))
            count += 1
            pos += (length + 3) & ~3
        assert pos == end, "AVPs do not fill their container exactly"
    return count


bad = nested_request(2, DEPTH)
n_avps = check_well_formed(bad)
print(f"request 2: command 8388645, {len(bad)} bytes (<= 8192), {n_avps} AVPs, "
      f"Failed-AVP nested {DEPTH} deep; every length field is consistent")

stream = dwr(1) + bad + dwr(3)

r, w = os.pipe()
os.set_blocking(w, False)
conn = PeerConnection("127.0.0.1", 3868, PEER_RECV, w)
conn.state = PEER_READY
got = []
conn.message_handler = lambda c, m: got.append(
    (m.header.hop_by_hop_identifier, type(m).__name__))

# the way TCP might cut it: 2048-byte reads
for pos in range(0, len(stream), 2048):
    conn.add_in_bytes(stream[pos:pos + 2048])

deadline = time.time() + 10
while time.time() < deadline:
    if len(got) >= 3 or (len(got) >= 2 and conn._read_buffer_queue.empty()
                         and got[-1][0] == 3):
        break
    time.sleep(0.01)
time.sleep(0.2)

print(f"delivered to message_handler: {got}")
print(f"connection state afterwards: {hex(conn.state)} (READY is 0x12), "
      f"unframed bytes left: {len(conn._read_buffer)}")

ids = [g[0] for g in got]
conn.close(signal_node=False)
conn.add_in_bytes(b"")

if ids == [1, 2, 3]:
    print("OK: all three messages were delivered, once each and in order")
    rc = 0
else:
    print("VIOLATION: the stream consists of three well-formed messages, but "
          "request 2 was discarded as garbage and never delivered (no answer "
          "can ever be sent for it).")
    print("REQUIRED (C05): 'For any byte stream made of well-formed Diameter "
          "messages, a peer connection delivers exactly those messages, each "
          "once and in stream order'.")
    rc = 1
sys.stdout.flush()
os._exit(rc)
