"""C06 / finding 3: the per-peer CER timeout (Peer.cer_timeout, documented as
"time in seconds that the node will wait for a CER to arrive for the peer after
a connection attempt is received") is never applied to a connection on which
no CER arrives.  Node._check_timers looks the peer up through
_find_connection_peer, which knows an inbound connection only by the name
taken from its CER - so while the CER is outstanding the lookup fails and the
node-level value is used, although the connection comes from the address
configured for the peer.

Run:  PYTHONPATH=/repo/src /venv/bin/python demo.py
exit 1 = violation observed (current code), exit 0 = behaves as the property says
"""
import logging
import sys
import time

logging.disable(logging.CRITICAL)

real_time = time.time
offset = 0.0
time.time = lambda: real_time() + offset      # "clock advance"

from diameter.node import Node
from diameter.node.application import Application
from diameter.node.peer import (PeerConnection, PEER_RECV, PEER_CONNECTED,
                                PEER_CLOSED, PEER_TRANSPORT_TCP)
from diameter.node.node import state_names


class FakeSock:
    n = 1000

    def __init__(self):
        FakeSock.n += 1
        self._fd = FakeSock.n
        self.closed = False

    def fileno(self): return self._fd
    def close(self): self.closed = True
    def setsockopt(self, *a): pass


class App(Application):
    def handle_request(self, message): pass


def scenario(node_timeout, peer_timeout, advance):
    global offset
    offset = 0.0
    node = Node("node.local.realm", "local.realm",
                ip_addresses=["127.0.0.1"], tcp_port=3868)
    node.cer_timeout = node_timeout
    peer = node.add_peer("aaa://peer1.local.realm",
                         ip_addresses=["127.0.0.9"])
    peer.cer_timeout = peer_timeout
    node.add_application(App(4, is_auth_application=True), [peer])

    # what Node._handle_connections does for a TCP connection accepted from
    # 127.0.0.9, the address configured for peer1
    conn = PeerConnection("127.0.0.9", 5555, PEER_RECV,
                          interrupt_fileno=node.interrupt_write)
    conn.state = PEER_CONNECTED
    sock = FakeSock()
    node._add_peer_connection(conn, sock, PEER_TRANSPORT_TCP)
    try:
        offset = advance            # no CER arrives
        node._check_timers(conn)    # what the node thread does every round
        return conn.state, sock.closed
    finally:
        conn.close(signal_node=False)


violations = []

state, closed = scenario(node_timeout=30, peer_timeout=2, advance=10)
print(f"node.cer_timeout=30, peer1.cer_timeout=2, connection from peer1's "
      f"address, no CER for 10 s -> {state_names[state]}, socket closed: {closed}")
if not (state == PEER_CLOSED and closed):
    violations.append("the connection is still open 10 s after it was "
                      "accepted although the CER timeout configured for the "
                      "peer is 2 s")

state, closed = scenario(node_timeout=4, peer_timeout=60, advance=10)
print(f"node.cer_timeout=4, peer1.cer_timeout=60, connection from peer1's "
      f"address, no CER for 10 s -> {state_names[state]}, socket closed: {closed}")
if state == PEER_CLOSED or closed:
    violations.append("the connection is closed after 10 s although the CER "
                      "timeout configured for the peer is 60 s")

print()
print("property: a connection 'is closed ... when the expected CEA or CER "
      "does not arrive within the configured timeout' (configurations: "
      "per-peer and node-level cer/cea timeouts)")
if violations:
    for v in violations:
        print("VIOLATION:", v)
    sys.exit(1)
print("no violation")
sys.exit(0)
