"""C19 / finding 1

Node._reconnect_peers() runs on the node's I/O thread in every round and
iterates `self.peers.values()` directly (no snapshot), dialling lost
persistent peers inside the loop.  Node.add_peer() called by the application
while the loop is at work (here: while it is redialling peer X) changes the
size of the dictionary; the `for` statement then raises "RuntimeError:
dictionary changed size during iteration" outside the try/except that only
covers _connect_to_peer().  Nothing in _handle_connections() catches it: the
I/O thread ends.  From then on nothing is released any more - connections
closed by their peers keep their socket, their two worker threads and their
table entries, and even Node.stop() leaves them behind (it relies on the I/O
thread to close the sockets).

The interleaving is produced with a logging handler only (user code that
legitimately runs on the I/O thread): it holds the "reconnecting" log line of
_reconnect_peers() until the main thread has called add_peer().
"""
import logging
import os
import socket
import struct
import sys
import threading
import time

from diameter.message import Message
from diameter.node import Node
from diameter.node.application import SimpleThreadingApplication
from diameter.node.peer import PEER_READY_STATES

HOST = "127.0.0.1"


def read_messages(buf):
    msgs = []
    while len(buf) >= 20:
        ln = struct.unpack("!I", buf[:4])[0] & 0xffffff
        if len(buf) < ln:
            break
        msgs.append(Message.from_bytes(buf[:ln]))
        buf = buf[ln:]
    return msgs, buf


class FakePeer:
    """Accepts connections, answers CER with 2001, closes on request."""
    def __init__(self, name):
        self.name = name
        self.sock = socket.socket()
        self.sock.setsockopt(socket.SOL_SOCKET, socket.SO_REUSEADDR, 1)
        self.sock.bind((HOST, 0))
        self.sock.listen(5)
        self.port = self.sock.getsockname()[1]
        self.close_current = threading.Event()
        self.accepted = 0
        threading.Thread(target=self.run, daemon=True).start()

    def run(self):
        while True:
            try:
                c, _ = self.sock.accept()
            except OSError:
                return
            self.accepted += 1
            self.close_current.clear()
            c.settimeout(0.1)
            buf = b""
            while not self.close_current.is_set():
                try:
                    d = c.recv(65536)
                except socket.timeout:
                    continue
                except OSError:
                    break
                if not d:
                    break
                buf += d
                msgs, buf = read_messages(buf)
                for m in msgs:
                    if not m.header.is_request:
                        continue
                    a = m.to_answer()
                    a.origin_host = self.name.encode()
                    a.origin_realm = b"example.net"
                    a.result_code = 2001
                    if m.header.command_code == 257:
                        a.host_ip_address = [HOST]
                        a.vendor_id = 1
                        a.product_name = "fake"
                        a.auth_application_id = [4]
                    c.sendall(a.as_bytes())
            c.close()


px = FakePeer("x.example.net")
py = FakePeer("y.example.net")

# ------------------------------------------------ user code: a log handler
reconnecting = threading.Event()
peer_added = threading.Event()


class HoldReconnectLine(logging.Handler):
    armed = False

    def emit(self, record):
        msg = record.getMessage()
        if (self.armed and "x.example.net has been lost" in msg
                and msg.endswith("reconnecting")):
            self.armed = False
            reconnecting.set()
            peer_added.wait(5)       # a slow log sink, for a moment


handler = HoldReconnectLine()
node_logger = logging.getLogger("diameter.node")
node_logger.setLevel(logging.INFO)
node_logger.addHandler(handler)
node_logger.propagate = False
logging.getLogger("diameter").addHandler(logging.NullHandler())

# ----------------------------------------------------------------- the node
node = Node("client.example.net", "example.net")
node.wakeup_interval = 0.2
node.idle_timeout = 3600
peer_x = node.add_peer(f"aaa://x.example.net:{px.port}", "example.net",
                       ip_addresses=[HOST], is_persistent=True)
peer_y = node.add_peer(f"aaa://y.example.net:{py.port}", "example.net",
                       ip_addresses=[HOST], is_persistent=True)
peer_x.reconnect_wait = 1
peer_y.reconnect_wait = 3600
app = SimpleThreadingApplication(4, is_auth_application=True)
node.add_application(app, [peer_x, peer_y])

thread_errors = []
threading.excepthook = lambda args: thread_errors.append(
    f"{args.thread.name}: {args.exc_type.__name__}: {args.exc_value}")

node.start()


def wait_for(cond, seconds, what):
    t0 = time.time()
    while time.time() - t0 < seconds:
        if cond():
            return
        time.sleep(0.05)
    raise AssertionError(what)


def ready(p):
    return p.connection is not None and p.connection.state in PEER_READY_STATES


wait_for(lambda: ready(peer_x) and ready(peer_y), 10, "peers not ready")
conn_y = peer_y.connection
print(f"connected to x and y; worker threads of y's connection alive: "
      f"{conn_y._read_thread.is_alive() and conn_y._write_thread.is_alive()}")

# peer x restarts: the connection is lost and will be redialled
handler.armed = True
px.close_current.set()
assert reconnecting.wait(10), "the node did not start to redial x"
# ... and at this moment the operator makes a new client known to the node
node.add_peer("aaa://z.example.net", "example.net")
peer_added.set()

time.sleep(1.5)
io_alive = node._connection_thread.is_alive()
print(f"after add_peer() during the redial: I/O thread alive: {io_alive}; "
      f"uncaught errors in threads: {thread_errors}")

# every connection ends now: both peers close what they have
conn_x2 = peer_x.connection
px.close_current.set()
py.close_current.set()
time.sleep(2)
try:
    node.stop(wait_timeout=3)
except Exception as e:
    print("stop() raised:", repr(e))
time.sleep(7)                        # worker threads notice a stop within 5 s

leftovers = []
for name, c in (("y", conn_y), ("x (redialled)", conn_x2)):
    if c is None:
        continue
    threads = sum(t.is_alive() for t in (c._read_thread, c._write_thread))
    s = node.peer_sockets.get(c.ident)
    sock_open = s is not None and s.fileno() != -1
    entry = c.ident in node.connections
    print(f"connection to {name}: peer closed it and the node was stopped; "
          f"still in Node.connections: {entry}; socket still open: "
          f"{sock_open}; live worker threads: {threads}")
    if threads or sock_open or entry:
        leftovers.append(name)

print("property: per-connection resources (worker threads, sockets, table "
      "entries) are released when the connection closes ...; after every "
      "connection has ended the retained state and the number of live "
      "worker threads are independent of what happened before")
sys.stdout.flush()
if leftovers or not io_alive and thread_errors:
    print(f"VIOLATION: the I/O thread ended with {thread_errors}; "
          f"resources of the connections to {leftovers} are never released")
    sys.stdout.flush()
    os._exit(1)
print("OK: everything was released")
sys.stdout.flush()
os._exit(0)
