"""
C07 / finding 1: two answers are transmitted for one request.

A plain `Application` is used the way its documentation asks for ("the
implementing party is expected to utilise a message queue and do the work in a
separate thread"): handle_request() hands the request to a worker thread.  The
handler then fails (an exception after the hand-over).  Node._receive_message's
exception handler decides with

        if message_id not in self._origin_waiting_answer: return

that the request is still unanswered and goes on to build and send a 5012
answer.  Check and send are not one step: the worker thread's send_answer()
(route_answer + send_message) fits in between, and nothing the error handler
does afterwards notices it.  Both answers are written to the connection.

The interleaving is fixed with two events; the only thing patched is a
pass-through wrapper around Node._generate_answer that waits (a sync point,
it changes no behaviour).
"""
import logging
import queue
import sys
import threading
import time

from diameter.message import Message
from diameter.message.commands import (CapabilitiesExchangeRequest,
                                       CreditControlRequest)
from diameter.message.constants import *
from diameter.node import Node
from diameter.node.application import Application
from diameter.node.peer import (PeerConnection, PEER_RECV, PEER_CONNECTED,
                                PEER_TRANSPORT_TCP, PEER_READY)

logging.disable(logging.CRITICAL)


class FakeSocket:
    def fileno(self): return 4242
    def close(self): pass
    def setsockopt(self, *a): pass


checked = threading.Event()       # error handler has decided "unanswered"
worker_done = threading.Event()   # worker has sent its answer


class QueueingApp(Application):
    """hands requests to a worker thread, as the documentation recommends"""
    def __init__(self, *a, **kw):
        super().__init__(*a, **kw)
        self.jobs = queue.Queue()
        self.worker_error = None
        threading.Thread(target=self.work, daemon=True).start()

    def handle_request(self, message):
        self.jobs.put(message)
        # something after the hand-over goes wrong (statistics, logging ...)
        raise RuntimeError("failure after the request was handed over")

    def work(self):
        message = self.jobs.get()
        checked.wait(10)
        try:
            answer = self.generate_answer(
                message, result_code=E_RESULT_CODE_DIAMETER_SUCCESS)
            answer.cc_request_type = message.cc_request_type
            answer.cc_request_number = message.cc_request_number
            self.send_answer(answer)
        except Exception as e:
            self.worker_error = e
        worker_done.set()


node = Node("node.local.realm", "local.realm")
peer = node.add_peer("aaa://peer0.local.realm", "local.realm")
app = QueueingApp(APP_DIAMETER_CREDIT_CONTROL_APPLICATION,
                  is_auth_application=True)
node.add_application(app, [peer])

conn = PeerConnection("127.0.0.1", 3868, PEER_RECV, node.interrupt_write)
conn.state = PEER_CONNECTED
written = []
written_lock = threading.Lock()


def transmit(msg):
    # what the writer thread would put on the wire
    data = msg.as_bytes()
    with written_lock:
        written.append(Message.from_bytes(data, plain_msg=True))


conn.add_out_msg = transmit
node._add_peer_connection(conn, FakeSocket(), PEER_TRANSPORT_TCP)

# sync point only: the error handler calls _generate_answer between its
# "is it still unanswered" check and its send_message
orig_generate_answer = node._generate_answer


def generate_answer_sync(c, msg):
    if (msg.header.command_code == 272 and
            threading.current_thread() is not threading.main_thread() and
            not checked.is_set()):
        checked.set()
        worker_done.wait(10)
    return orig_generate_answer(c, msg)


node._generate_answer = generate_answer_sync

cer = CapabilitiesExchangeRequest()
cer.header.hop_by_hop_identifier = 1
cer.header.end_to_end_identifier = 1001
cer.origin_host = b"peer0.local.realm"
cer.origin_realm = b"local.realm"
cer.host_ip_address = ["127.0.0.1"]
cer.vendor_id = 1
cer.product_name = "peer"
cer.auth_application_id = [APP_DIAMETER_CREDIT_CONTROL_APPLICATION]
conn.add_in_bytes(cer.as_bytes())

deadline = time.time() + 10
while conn.state != PEER_READY and time.time() < deadline:
    time.sleep(0.01)
assert conn.state == PEER_READY, "capabilities exchange did not complete"

ccr = CreditControlRequest()
ccr.header.application_id = APP_DIAMETER_CREDIT_CONTROL_APPLICATION
ccr.header.hop_by_hop_identifier = 7
ccr.header.end_to_end_identifier = 5005
ccr.session_id = "peer0.local.realm;1;1"
ccr.origin_host = b"peer0.local.realm"
ccr.origin_realm = b"local.realm"
ccr.destination_realm = b"local.realm"
ccr.auth_application_id = APP_DIAMETER_CREDIT_CONTROL_APPLICATION
ccr.service_context_id = "demo@local.realm"
ccr.cc_request_type = E_CC_REQUEST_TYPE_EVENT_REQUEST
ccr.cc_request_number = 0
conn.add_in_bytes(ccr.as_bytes())

worker_done.wait(15)
time.sleep(0.5)     # let the reader thread finish its error handler
conn.close(signal_node=False)

with written_lock:
    answers = [m for m in written
               if not m.header.is_request and
               m.header.command_code == 272 and
               m.header.hop_by_hop_identifier == 7 and
               m.header.end_to_end_identifier == 5005]

print("requests received on the connection: CER (hbh 1), CCR (hbh 7, e2e 5005)")
print(f"worker thread error: {app.worker_error!r}")
for m in answers:
    rc = m.find_avps((AVP_RESULT_CODE, 0))
    print(f"  transmitted: command {m.header.command_code}, hbh "
          f"{m.header.hop_by_hop_identifier}, e2e "
          f"{m.header.end_to_end_identifier}, Result-Code "
          f"{rc[0].value if rc else None}")
print(f"observed: {len(answers)} answers transmitted for the one CCR")
print("required: 'The node never transmits two answers for one request'")
sys.exit(1 if len(answers) != 1 else 0)
