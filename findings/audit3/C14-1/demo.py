"""
C14 / finding 1

A peer's connection is lost while the application thread registers another
application with `Node.add_application` (registering applications on a running
node is supported: add_application starts the application at once and, since
commit 54fef8a, flags it ready when its peer is already connected).

`Node.remove_peer_connection` - run by the node's I/O thread for every lost
connection - walks the live routing table `self._peer_routes` with
`for ... in dict.values()` / `.items()`.  `add_application` inserts a key into
that very dictionary.  When the insert falls between two steps of the walk the
dictionary iterator raises RuntimeError("dictionary changed size during
iteration"); nothing on the I/O thread catches it, `_handle_connections`
ends, and from then on the node accepts nobody, reads nothing, writes nothing,
runs no timers and reconnects nobody.

The schedule is made deterministic with a line tracer that holds the I/O
thread at the first statement of the loop body in remove_peer_connection until
the main thread has finished add_application.  Nothing of the library is
modified or replaced; the transport is real TCP over loopback.

exit 1: the I/O thread died / the next peer is not served   (current code)
exit 0: the I/O thread survived and the next peer is served
"""
import logging
import socket
import sys
import threading
import time

from diameter.message import Message
from diameter.message.commands import (CapabilitiesExchangeRequest,
                                       CreditControlRequest)
from diameter.node import Node
from diameter.node.application import SimpleThreadingApplication

logging.basicConfig(level=logging.CRITICAL)


def free_port():
    s = socket.socket()
    s.bind(("127.0.0.1", 0))
    p = s.getsockname()[1]
    s.close()
    return p


def cer():
    m = CapabilitiesExchangeRequest()
    m.header.hop_by_hop_identifier = 1
    m.header.end_to_end_identifier = 1
    m.origin_host = b"client.example"
    m.origin_realm = b"example"
    m.host_ip_address = ["127.0.0.1"]
    m.vendor_id = 1
    m.product_name = "probe"
    m.auth_application_id = [4]
    return m.as_bytes()


def ccr(n):
    m = CreditControlRequest()
    m.header.application_id = 4
    m.header.hop_by_hop_identifier = 100 + n
    m.header.end_to_end_identifier = 200 + n
    m.session_id = "probe;1"
    m.origin_host = b"client.example"
    m.origin_realm = b"example"
    m.destination_realm = b"example"
    m.auth_application_id = 4
    m.service_context_id = "ctx"
    m.cc_request_type = 1
    m.cc_request_number = n
    return m.as_bytes()


def read_msgs(sock, n, timeout):
    sock.settimeout(0.2)
    buf, out, end = b"", [], time.time() + timeout
    while len(out) < n and time.time() < end:
        try:
            d = sock.recv(65536)
        except socket.timeout:
            continue
        except OSError:
            break
        if not d:
            break
        buf += d
        while len(buf) >= 20 and len(buf) >= int.from_bytes(buf[1:4], "big"):
            ln = int.from_bytes(buf[1:4], "big")
            out.append(Message.from_bytes(buf[:ln]))
            buf = buf[ln:]
    return out


# --- the scheduler: hold the I/O thread inside the walk of the routing table
# (the first line executed with the loop variable `app` bound, i.e. inside
# the walk, whatever the statement there looks like)
target_code = Node.remove_peer_connection.__code__
armed = threading.Event()
reached = threading.Event()
go_on = threading.Event()
done_once = []


def local_trace(frame, event, arg):
    if (event == "line" and "app" in frame.f_locals and armed.is_set()
            and not done_once):
        done_once.append(1)
        reached.set()
        go_on.wait(10)
    return local_trace


def global_trace(frame, event, arg):
    if frame.f_code is target_code:
        return local_trace
    return None


died = []
threading.excepthook = lambda a: died.append(
    (a.thread.name, a.exc_type.__name__, str(a.exc_value)))

threading.settrace(global_trace)       # for the threads the node starts

port = free_port()
node = Node("server.example", "example",
            ip_addresses=["127.0.0.1"], tcp_port=port)
node.wakeup_interval = 1
peer = node.add_peer("aaa://client.example", "example")


def handler(app, msg):
    return app.generate_answer(msg, result_code=2001)


app1 = SimpleThreadingApplication(4, is_auth_application=True,
                                  request_handler=handler)
node.add_application(app1, [peer])
node.start()

rc = 0
try:
    # an ordinary first transaction
    c1 = socket.create_connection(("127.0.0.1", port))
    c1.sendall(cer())
    r = read_msgs(c1, 1, 3)
    assert r and r[0].result_code == 2001, "first handshake failed"
    c1.sendall(ccr(0))
    r = read_msgs(c1, 1, 3)
    assert r and r[0].result_code == 2001, "first request failed"

    # the fault: orderly close by the peer ...
    armed.set()
    c1.close()
    if not reached.wait(5):
        print("note: the I/O thread was not caught inside the walk")
    # ... while the application thread registers a second application
    app2 = SimpleThreadingApplication(16777238, is_auth_application=True,
                                      request_handler=handler)
    node.add_application(app2, [peer])
    go_on.set()

    time.sleep(1.0)
    io_alive = node._connection_thread.is_alive()
    print("I/O thread alive after the connection loss:", io_alive)
    for d in died:
        print("thread terminated abnormally:", d)

    # reconnect-and-serve probe
    served = False
    try:
        c2 = socket.create_connection(("127.0.0.1", port), timeout=3)
        c2.sendall(cer())
        r = read_msgs(c2, 1, 4)
        if r and r[0].result_code == 2001:
            for n in range(2):
                c2.sendall(ccr(10 + n))
            r = read_msgs(c2, 2, 4)
            served = [m.result_code for m in r] == [2001, 2001]
        c2.close()
    except OSError as e:
        print("probe connection failed:", e)
    print("peer connecting afterwards completed CER/CEA and was served:",
          served)

    print("property requires: 'no node, connection or application worker "
          "thread terminates abnormally' and 'A peer that connects "
          "afterwards completes its capabilities exchange and has its "
          "requests delivered to the handler and answered'")
    if not io_alive or not served or died:
        rc = 1
finally:
    go_on.set()
    threading.settrace(None)
    for c in list(node.connections.values()):
        c.close(signal_node=False)
    try:
        node.stop(force=True)
    except Exception as e:
        print("stop():", repr(e))

sys.exit(rc)
