"""C12 / finding 2

A peer added with Node.add_peer() while the node's I/O thread is walking
`Node.peers` in `_reconnect_peers` ends that thread ("dictionary changed size
during iteration" is raised by the `for` statement, outside the try/except
that only covers `_connect_to_peer`).  Nothing is dialled, read, written or
timed out ever again: the persistent peer whose connection was lost is never
re-dialled although its reconnect wait elapses again and again, the node is
not stopping and the peer has no connection.

The interleaving is forced through a logging handler (user code that
legitimately runs on the I/O thread): when `_reconnect_peers` announces the
re-dial, another thread calls `node.add_peer(...)` and the handler returns
once that call has completed.
"""
import logging
import socket
import sys
import threading
import time

from diameter.node import Node
from diameter.node.application import SimpleThreadingApplication

PEER = "peer.example"


def free_port():
    s = socket.socket()
    s.bind(("127.0.0.1", 0))
    p = s.getsockname()[1]
    s.close()
    return p


# a peer that accepts every connection and hangs up at once: every dial of
# the node ends as a lost connection ("peer gone")
peer_port = free_port()
listener = socket.socket()
listener.setsockopt(socket.SOL_SOCKET, socket.SO_REUSEADDR, 1)
listener.bind(("127.0.0.1", peer_port))
listener.listen(16)
listener.settimeout(0.2)
dials = []
run = [True]


def serve():
    while run[0]:
        try:
            c, _ = listener.accept()
        except socket.timeout:
            continue
        except OSError:
            return
        dials.append(time.time())
        c.close()


threading.Thread(target=serve, daemon=True).start()

node = Node("node.example", "example")
node.wakeup_interval = 0.2
peer = node.add_peer(f"aaa://{PEER}:{peer_port}", "example", ["127.0.0.1"],
                     is_persistent=True)
peer.reconnect_wait = 1
app = SimpleThreadingApplication(4, is_auth_application=True)
node.add_application(app, [peer])

added = threading.Event()
fired = [False]


class AddPeerWhileReconnecting(logging.Handler):
    def emit(self, record):
        if fired[0] or "reconnecting" not in record.getMessage():
            return
        fired[0] = True

        def add():
            node.add_peer("aaa://late.example", "example", ["127.0.0.1"])
            added.set()
        threading.Thread(target=add, daemon=True).start()
        added.wait(5)


logging.getLogger("diameter.node").setLevel(logging.INFO)
logging.getLogger("diameter.node").addHandler(AddPeerWhileReconnecting())
logging.getLogger("diameter.node").propagate = False

result = 2
try:
    node.start()
    if not added.wait(10):
        print("the node never announced a re-dial")
        sys.exit(2)
    t_added = time.time()
    print(f"dials before/at the moment the peer was added: {len(dials)}")
    time.sleep(5)
    later = [t for t in dials if t > t_added + 0.5]
    alive = node._connection_thread.is_alive()
    print(f"5 s later: I/O thread alive: {alive}; stopping: {node._stopping}; "
          f"Peer.connection: {peer.connection}; persistent: {peer.persistent};"
          f" reconnect_wait: {peer.reconnect_wait}; "
          f"dials in those 5 s: {len(later)}")
    print("property: a persistent peer whose connection is lost is dialled "
          "again once its reconnect wait has elapsed (unless DPR / stopping / "
          "already connected) - at least two dials are due in 5 s")
    if not alive or len(later) < 2:
        print("VIOLATION")
        result = 1
    else:
        print("ok")
        result = 0
finally:
    run[0] = False
    try:
        node.stop(wait_timeout=1, force=True)
    except Exception as e:
        print("stop:", e)
    for c in list(node.connections.values()):
        c.close(signal_node=False)
    listener.close()

sys.exit(result)
