"""C08 / finding 3

Node._receive_app_request walks the live routing dictionary
(`for app, peers in self._peer_routes[realm_name].items()`) on the
connection's reader thread.  Node.add_application - which the guide and
examples/credit_control_sms_client.py call AFTER node.start(), i.e. while
traffic may already be flowing - inserts a new key into the same dictionary
from the application's thread.  If that happens while a request is being
matched, the loop ends with "RuntimeError: dictionary changed size during
iteration": the request, which matches an application that has been
registered all along, is answered 5012 by the node and the application never
sees it.

The interleaving is forced with a trace function that parks the dispatching
thread on the first line of the loop body (first entry of the dictionary, the
"_default" list) until add_application() has returned on the main thread.
Nothing of the library is replaced or modified.

Run:  PYTHONPATH=/repo/src /venv/bin/python /repo/_audit3/3/demo.py
exit 1 = violation observed, exit 0 = behaves as the property says
"""
import inspect
import logging
import socket
import sys
import threading

from diameter.message import Message
from diameter.message.commands import CreditControlRequest
from diameter.node import Node
from diameter.node.application import Application
from diameter.node.peer import (PeerConnection, PEER_RECV, PEER_CONNECTED,
                                PEER_READY, PEER_TRANSPORT_TCP)

logging.disable(logging.CRITICAL)


class RecordingApp(Application):
    def __init__(self, *args, **kwargs):
        super().__init__(*args, **kwargs)
        self.requests = []

    def handle_request(self, message):
        self.requests.append(message)


node = Node("node.own.realm", "own.realm")
peer = node.add_peer("aaa://peer1.own.realm")
gy_app = RecordingApp(4, is_auth_application=True)     # registered first
node.add_application(gy_app, [peer])
late_app = RecordingApp(16777238, is_auth_application=True)  # added later

conn = PeerConnection("10.0.0.1", 3868, PEER_RECV, node.interrupt_write)
conn.state = PEER_CONNECTED
conn.node_name = conn.host_identity = peer.node_name
sock = socket.socket()
node._add_peer_connection(conn, sock, PEER_TRANSPORT_TCP)
conn.state = PEER_READY
sent = []
conn.add_out_msg = sent.append

m = CreditControlRequest()
m.session_id = "peer1.own.realm;1;1"
m.origin_host = b"peer1.own.realm"
m.origin_realm = b"own.realm"
m.destination_realm = b"own.realm"
m.service_context_id = "32251@3gpp.org"
m.cc_request_type = 4
m.cc_request_number = 0
m.header.application_id = 4
m.header.hop_by_hop_identifier = 77
m.header.end_to_end_identifier = 78
request = Message.from_bytes(m.as_bytes())

# the first line of the body of the matching loop
code = Node._receive_app_request.__code__
lines, first = inspect.getsourcelines(Node._receive_app_request)
loop_line = next(first + i for i, text in enumerate(lines)
                 if "self._peer_routes[realm_name].items()" in text)
park_line = loop_line + 1

parked = threading.Event()
go_on = threading.Event()
state = {"done": False}


def local_trace(frame, event, arg):
    if (event == "line" and frame.f_lineno == park_line
            and not state["done"]):
        state["done"] = True
        parked.set()
        go_on.wait(20)
    return local_trace


def global_trace(frame, event, arg):
    if frame.f_code is code:
        return local_trace
    return None


def reader():
    sys.settrace(global_trace)
    try:
        # what the connection's reader thread does with a received request
        node._receive_message(conn, request)
    finally:
        sys.settrace(None)


t = threading.Thread(target=reader)
t.start()
ok = parked.wait(20)
# the application thread registers a second application meanwhile
node.add_application(late_app, [peer])
go_on.set()
t.join(20)
conn.close(signal_node=False)
sock.close()

if not ok:
    print("demo precondition failed: the dispatcher never reached the loop")
    sys.exit(2)

answers = [Message.from_bytes(a.as_bytes()) for a in sent]
print(f"request: CCR, application id 4, realm own.realm, from the peer "
      f"application 4 is registered for")
print(f"handed to application 4      : {len(gy_app.requests)} time(s)")
print(f"handed to the late application: {len(late_app.requests)} time(s)")
print(f"answers sent by the node      : "
      f"{[a.result_code for a in answers]}")
print("property requires             : 'a request whose application id, "
      "destination realm and originating peer match a registered "
      "application ... is handed to that application exactly once'; the "
      "node answers itself only 'otherwise'")

if len(gy_app.requests) == 1 and not answers and not late_app.requests:
    print("OK")
    sys.exit(0)
print("VIOLATION: a matching request was rejected by the node because "
      "another application was being registered at that moment")
sys.exit(1)
