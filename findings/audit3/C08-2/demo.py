"""C08 / finding 2

ThreadingApplication._wait_for_recv_msg: when the thread for a request cannot
be started ("can't start new thread" - the process is at its thread limit,
which is what max_threads=0, the default, allows a burst of requests to
reach), the request is logged as "discarded": handle_request is never called
and nobody answers.  The property leaves two outcomes only: the request is
handed to the application, or the node answers itself (5012 when handling
fails).

The fault is injected by making Thread.start fail for the per-request worker
thread only, with the exact error CPython raises at the thread limit.

Run:  PYTHONPATH=/repo/src /venv/bin/python /repo/_audit3/2/demo.py
exit 1 = violation observed, exit 0 = behaves as the property says
"""
import logging
import socket
import sys
import threading
import time

from diameter.message import Message
from diameter.message.commands import CreditControlRequest
from diameter.node import Node
from diameter.node.application import SimpleThreadingApplication
from diameter.node.peer import (PeerConnection, PEER_RECV, PEER_CONNECTED,
                                PEER_READY, PEER_TRANSPORT_TCP)

logging.disable(logging.CRITICAL)

node = Node("node.own.realm", "own.realm")
peer = node.add_peer("aaa://peer1.own.realm")

handled = []


def handler(app, message):
    handled.append(message.header.hop_by_hop_identifier)
    return app.generate_answer(message, result_code=2001)


app = SimpleThreadingApplication(4, is_auth_application=True,
                                 request_handler=handler)
node.add_application(app, [peer])      # starts the two consumer threads

conn = PeerConnection("10.0.0.1", 3868, PEER_RECV, node.interrupt_write)
conn.state = PEER_CONNECTED
conn.node_name = conn.host_identity = peer.node_name
sock = socket.socket()
node._add_peer_connection(conn, sock, PEER_TRANSPORT_TCP)
conn.state = PEER_READY
sent = []
conn.add_out_msg = sent.append


def ccr(ident: int) -> Message:
    m = CreditControlRequest()
    m.session_id = f"peer1.own.realm;1;{ident}"
    m.origin_host = b"peer1.own.realm"
    m.origin_realm = b"own.realm"
    m.destination_realm = b"own.realm"
    m.service_context_id = "32251@3gpp.org"
    m.cc_request_type = 4
    m.cc_request_number = 0
    m.header.application_id = 4
    m.header.hop_by_hop_identifier = ident
    m.header.end_to_end_identifier = ident
    return Message.from_bytes(m.as_bytes())


def answers_for(ident: int) -> list[int]:
    return [Message.from_bytes(a.as_bytes()).result_code for a in list(sent)
            if a.header.hop_by_hop_identifier == ident]


real_start = threading.Thread.start
refused = []


def start_at_thread_limit(self):
    target = getattr(self, "_target", None)
    if getattr(target, "__name__", "") == "_process_recv_msg":
        refused.append(self)
        raise RuntimeError("can't start new thread")
    return real_start(self)


try:
    # control: threads can be started
    node._receive_message(conn, ccr(2001))
    deadline = time.time() + 5
    while time.time() < deadline and not answers_for(2001):
        time.sleep(0.05)
    control = answers_for(2001)

    # the process is at its thread limit
    threading.Thread.start = start_at_thread_limit
    node._receive_message(conn, ccr(2002))
    deadline = time.time() + 8
    while time.time() < deadline and not answers_for(2002):
        time.sleep(0.1)
    threading.Thread.start = real_start
    observed = answers_for(2002)
finally:
    threading.Thread.start = real_start
    app.stop()
    conn.close(signal_node=False)
    sock.close()

print(f"control request 2001   : handled={2001 in handled}, "
      f"answers on the wire: {control}")
print(f"request 2002 (thread for it refused {len(refused)}x): "
      f"handled={2002 in handled}, answers on the wire after 8 s: {observed}")
print("property requires      : the request is handed to the application "
      "exactly once, 'otherwise the node answers itself ... 5012 when "
      "handling fails'")

if control != [2001]:
    print("demo precondition failed")
    sys.exit(2)
if (2002 in handled and len(observed) == 1) or (
        2002 not in handled and len(observed) == 1 and observed[0]):
    print("OK")
    sys.exit(0)
print("VIOLATION: the request was neither handed to the application nor "
      "answered - it was silently discarded")
sys.exit(1)
