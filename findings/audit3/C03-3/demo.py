"""
C03 / finding 3: LcsPrivacyException.service_type denotes the RADIUS/NASREQ
Service-Type (6, Enumerated) instead of the grouped Service-Type (1483/10415)
of TS 29.272, whose container class `ServiceType` exists but is attached to
no attribute.

TS 29.272 7.3.156:  LCS-PrivacyException ::= <AVP header: 1475 10415>
        { SS-Code } { SS-Status } [ Notification-To-UE-User ]
       *[ External-Client ] *[ PLMN-Client ] *[ Service-Type ] *[AVP]
TS 29.272 7.3.157:  Service-Type ::= <AVP header: 1483 10415>
        { ServiceTypeIdentity } [ GMLC-Restriction ] [ Notification-To-UE-User ]

The library has the dictionary entry 1483/10415 (Grouped, "3GPP-Service-Type")
and the container `ServiceType` ('represents the "Service-Type" (1483) AVP,
3GPP TS 29.272') with exactly these three members.

Exit 1 when the defect is present, 0 otherwise.
"""
import sys

from diameter.message import Message, Avp
from diameter.message.constants import *
from diameter.message.commands import UpdateLocationAnswer
from diameter.message.avp.errors import AvpEncodeError
from diameter.message.avp.grouped import (
    LcsPrivacyException, ServiceType, SubscriptionData, LcsInfo)

failed = []

# --- A: a ULA the way an HSS sends it ---------------------------------------
wire = UpdateLocationAnswer()
wire.session_id = "mme.epc.example;1;1"
wire.origin_host = b"hss.epc.example"
wire.origin_realm = b"epc.example"
wire.result_code = E_RESULT_CODE_DIAMETER_SUCCESS
wire.auth_session_state = E_AUTH_SESSION_STATE_NO_STATE_MAINTAINED
wire.append_avp(Avp.new(AVP_TGPP_SUBSCRIPTION_DATA, VENDOR_TGPP, value=[
    Avp.new(AVP_TGPP_LCS_INFO, VENDOR_TGPP, value=[
        Avp.new(AVP_TGPP_LCS_PRIVACYEXCEPTION, VENDOR_TGPP, value=[
            Avp.new(AVP_TGPP_SS_CODE, VENDOR_TGPP, value=b"\x11"),
            Avp.new(AVP_TGPP_SS_STATUS, VENDOR_TGPP, value=b"\x05"),
            Avp.new(AVP_TGPP_3GPP_SERVICE_TYPE, VENDOR_TGPP, value=[      # 1483/10415
                Avp.new(AVP_TGPP_SERVICETYPEIDENTITY, VENDOR_TGPP, value=5),
                Avp.new(AVP_TGPP_GMLC_RESTRICTION, VENDOR_TGPP, value=1),
            ]),
        ])
    ])
]))
ula = Message.from_bytes(wire.as_bytes())
assert isinstance(ula, UpdateLocationAnswer)
lpe = ula.subscription_data.lcs_info.lcs_privacyexception
print("A: received LCS-PrivacyException with one Service-Type(1483/10415)"
      "{ServiceTypeIdentity=5, GMLC-Restriction=1}")
print("   decoded:", lpe)
ok = (len(lpe.service_type) == 1
      and getattr(lpe.service_type[0], "servicetypeidentity", None) == 5)
if not ok:
    failed.append("decode")
    print("   VIOLATION: service_type is", lpe.service_type, "- the property "
          "requires the attribute that denotes Service-Type of "
          "LCS-PrivacyException to hold one nested object with "
          "servicetypeidentity 5 (a grouped AVP, the attribute's container "
          "class being ServiceType)")

# --- B: encoding -----------------------------------------------------------
ula2 = UpdateLocationAnswer()
ula2.subscription_data = SubscriptionData(lcs_info=LcsInfo(
    lcs_privacyexception=LcsPrivacyException(
        ss_code=b"\x11", ss_status=b"\x05",
        service_type=[ServiceType(servicetypeidentity=5, gmlc_restriction=1)])))
try:
    data = ula2.as_bytes()
except AvpEncodeError as e:
    failed.append("encode")
    print("B: LcsPrivacyException(service_type=[ServiceType(5, 1)]) cannot be "
          "encoded:", str(e)[:150])
    print("   VIOLATION: the property requires one grouped AVP 1483/10415 per "
          "list element")
else:
    found = Message.from_bytes(data, plain_msg=True).find_avps(
        (AVP_TGPP_SUBSCRIPTION_DATA, VENDOR_TGPP), (AVP_TGPP_LCS_INFO, VENDOR_TGPP),
        (AVP_TGPP_LCS_PRIVACYEXCEPTION, VENDOR_TGPP),
        (AVP_TGPP_3GPP_SERVICE_TYPE, VENDOR_TGPP))
    print("B: encoded, Service-Type(1483/10415) AVPs:", len(found))
    if len(found) != 1:
        failed.append("encode")

# what the attribute emits today
from diameter.message.avp.generator import generate_avps_from_defs
emitted = generate_avps_from_defs(LcsPrivacyException(service_type=[3]))
print("   today service_type=[3] is emitted as:",
      [(a.name, a.code, a.vendor_id, type(a).__name__) for a in emitted])
if [(a.code, a.vendor_id) for a in emitted] == [(6, 0)]:
    if "encode" not in failed:
        failed.append("encode")

if failed:
    print("RESULT: violated:", failed)
    sys.exit(1)
print("RESULT: ok")
sys.exit(0)
