"""
C10 / finding 2 - a request of a typed command (one with attribute
definitions) whose Destination-Realm is present as an AVP of the message, but
not through the `destination_realm` attribute, is routed by the node's OWN
realm: it is written to a peer that is not configured for the realm the request
carries on the wire, although a ready peer configured for exactly that
application and realm exists.

The class documentation of the typed commands describes this way of building
a message ("custom AVPs can be appended to the message using append_avp, or by
overwriting the avp attribute entirely ... the mandatory values ... can be set
as None, if they are not to be used"). route_request reads the Destination-Realm
AVP itself only for messages WITHOUT attribute definitions (repairs 4325f13 /
739ec77); the sibling case of a typed message was left out.

No network: two inbound connections are accepted through the node's own
_add_peer_connection and complete a real CER/CEA exchange through
conn.add_in_bytes(); what the node writes is read from the connections' write
buffers.
"""
import socket
import sys
import time

from diameter.message import Avp, Message
from diameter.message.commands import (CapabilitiesExchangeRequest,
                                       CreditControlRequest)
from diameter.message.constants import *
from diameter.node import Node
from diameter.node.application import Application
from diameter.node.node import NotRoutable
from diameter.node.peer import (PeerConnection, PEER_RECV, PEER_CONNECTED,
                                PEER_READY_STATES, PEER_TRANSPORT_TCP)

node = Node("client.home.net", "home.net")
p_home = node.add_peer("aaa://ocs.home.net", "home.net")
p_roam = node.add_peer("aaa://ocs.roaming.org", "roaming.org")
app = Application(4, is_auth_application=True)
# p_home serves home.net, p_roam serves roaming.org for this application
node.add_application(app, [p_home, p_roam])

socks = []


def connect(peer_name: str, realm: str) -> PeerConnection:
    a, b = socket.socketpair()
    socks.extend([a, b])
    conn = PeerConnection("127.0.0.1", 3868, PEER_RECV, node.interrupt_write)
    conn.state = PEER_CONNECTED
    node._add_peer_connection(conn, a, PEER_TRANSPORT_TCP)
    cer = CapabilitiesExchangeRequest()
    cer.header.hop_by_hop_identifier = 1
    cer.header.end_to_end_identifier = 1
    cer.origin_host = peer_name.encode()
    cer.origin_realm = realm.encode()
    cer.host_ip_address = ["127.0.0.1"]
    cer.vendor_id = 99
    cer.product_name = "peer"
    cer.auth_application_id = [4]
    conn.add_in_bytes(cer.as_bytes())
    until = time.time() + 10
    while conn.state not in PEER_READY_STATES and time.time() < until:
        time.sleep(0.01)
    assert conn.state in PEER_READY_STATES, "handshake failed"
    return conn


c_home = connect("ocs.home.net", "home.net")
c_roam = connect("ocs.roaming.org", "roaming.org")


def written(conn: PeerConnection) -> list[Message]:
    until = time.time() + 5
    while conn.has_queued_messages and time.time() < until:
        time.sleep(0.01)
    buf, out = conn.write_buffer, []
    while buf:
        length = int.from_bytes(buf[1:4], "big")
        out.append(Message.from_bytes(buf[:length]))
        buf = buf[length:]
    return out


def describe(msgs):
    res = []
    for m in msgs:
        if m.header.command_code == 272:
            res.append(f"CCR(Destination-Realm={m.destination_realm!r})")
    return res


def build_avps():
    return [
        Avp.new(AVP_SESSION_ID, value="client.home.net;1;2"),
        Avp.new(AVP_ORIGIN_HOST, value=b"client.home.net"),
        Avp.new(AVP_ORIGIN_REALM, value=b"home.net"),
        Avp.new(AVP_DESTINATION_REALM, value=b"roaming.org"),
        Avp.new(AVP_SERVICE_CONTEXT_ID, value="demo"),
        Avp.new(AVP_CC_REQUEST_TYPE, value=1),
        Avp.new(AVP_CC_REQUEST_NUMBER, value=0),
    ]


# the typed request, its AVPs given as a list
ccr = CreditControlRequest()
ccr.avps = build_avps()
outcome = "?"
try:
    app.send_request(ccr, timeout=0.3)
except TimeoutError:
    outcome = "sent (nobody answers in this demo)"
except NotRoutable as e:
    outcome = f"NotRoutable: {e}"

home_got = describe(written(c_home))
roam_got = describe(written(c_roam))

print("application 4 is configured with ocs.home.net for realm home.net and "
      "ocs.roaming.org for realm roaming.org; both connections are READY")
print("request: CreditControlRequest whose AVP list carries "
      "Destination-Realm = roaming.org")
print("send_request:", outcome)
print("written to ocs.home.net   :", home_got)
print("written to ocs.roaming.org:", roam_got)

for c in (c_home, c_roam):
    c.close(signal_node=False)
for s in socks:
    s.close()

if home_got and not roam_got:
    print("\nVIOLATION: a request that carries Destination-Realm roaming.org "
          "left on the connection of ocs.home.net, a peer configured for "
          "home.net only.\nThe property requires: 'A request submitted by an "
          "application is sent only to a peer that is configured for that "
          "application and destination realm (or is a default peer of the "
          "realm)'.\nExpected: written to ocs.roaming.org (the same AVP list "
          "on a message without attribute definitions is routed there).")
    sys.exit(1)
print("\nno violation: the request went to the peer of its destination realm")
sys.exit(0)
