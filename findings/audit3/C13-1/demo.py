"""
C13 / finding 1

Node.remove_peer_connection (I/O thread) walks the live routing dictionaries
`self._peer_routes` / `app_peers` while `Node.add_application` (application
thread; adding an application to a running node is supported, cf. the
readiness check at the end of add_application) inserts into them.  When the
insertion falls into the walk, the walk raises "RuntimeError: dictionary
changed size during iteration".  Nothing catches it on the I/O thread:
`Node._handle_connections` ends, and with it every bit of table maintenance
of the node.

The interleaving is forced with a trace function (no library code or state is
changed): the I/O thread is paused on the line `app_list.setdefault(app, [])`
of remove_peer_connection, the main thread calls add_application, the I/O
thread is resumed.

exit 1: violation observed, exit 0: library behaves as the property says.
"""
import inspect
import socket
import sys
import threading
import time

from diameter.message import Message
from diameter.message.commands import CapabilitiesExchangeRequest
from diameter.node import Node
from diameter.node.application import Application
from diameter.node.peer import PEER_READY_STATES


def free_port():
    s = socket.socket()
    s.bind(("127.0.0.1", 0))
    p = s.getsockname()[1]
    s.close()
    return p


def cer(host: bytes) -> bytes:
    m = CapabilitiesExchangeRequest()
    m.header.hop_by_hop_identifier = 1
    m.header.end_to_end_identifier = 1
    m.origin_host = host
    m.origin_realm = b"realm.net"
    m.host_ip_address = "127.0.0.1"
    m.vendor_id = 1
    m.product_name = "peer"
    m.auth_application_id = [4]
    return m.as_bytes()


def read_msg(s):
    s.settimeout(5)
    buf = b""
    while len(buf) < 20 or len(buf) < int.from_bytes(buf[1:4], "big"):
        d = s.recv(4096)
        if not d:
            return None
        buf += d
    return Message.from_bytes(buf)


def wait(cond, t=8.0):
    end = time.time() + t
    while time.time() < end:
        if cond():
            return True
        time.sleep(0.02)
    return cond()


# --- the scheduling hook: pause the I/O thread inside the walk -------------
src, first = inspect.getsourcelines(Node.remove_peer_connection)
pause_lines = [first + i for i, l in enumerate(src)
               if "app_list.setdefault(app" in l]
paused = threading.Event()
resume = threading.Event()
armed = threading.Event()


def local_trace(frame, event, arg):
    if (event == "line" and frame.f_lineno in pause_lines and
            armed.is_set() and not paused.is_set()):
        paused.set()
        resume.wait(10)
    return local_trace


def global_trace(frame, event, arg):
    if frame.f_code is Node.remove_peer_connection.__code__:
        return local_trace
    return None


threading.settrace(global_trace)

port = free_port()
node = Node("node.realm.net", "realm.net",
            ip_addresses=["127.0.0.1"], tcp_port=port)
node.wakeup_interval = 1
peer_a = node.add_peer("aaa://a.realm.net", "realm.net")
peer_b = node.add_peer("aaa://b.realm.net", "realm.net")
app1 = Application(4, is_auth_application=True)
app2 = Application(4, is_auth_application=True)
node.add_application(app1, [peer_a])
node.start()
threading.settrace(None)

failed = []
try:
    sa = socket.create_connection(("127.0.0.1", port))
    sa.sendall(cer(b"a.realm.net"))
    assert read_msg(sa).result_code == 2001
    sb = socket.create_connection(("127.0.0.1", port))
    sb.sendall(cer(b"b.realm.net"))
    assert read_msg(sb).result_code == 2001
    assert wait(lambda: peer_a.connection and peer_b.connection and
                peer_a.connection.state in PEER_READY_STATES and
                peer_b.connection.state in PEER_READY_STATES)
    assert app1.is_ready.is_set()
    conn_b = peer_b.connection
    print("A and B connected and ready; app1 (peer A) reports ready")

    # step 1: peer A goes away -> I/O thread: close_connection_socket ->
    #         remove_peer_connection -> walk over self._peer_routes
    armed.set()
    sa.close()
    if paused.wait(8):
        # step 2: meanwhile the application thread registers a second
        #         application (for peer B, in a further realm)
        node.add_application(app2, [peer_b], realms=["other.net"])
        resume.set()
    else:
        print("(the walk was never entered; adding the application anyway)")
        node.add_application(app2, [peer_b], realms=["other.net"])
    time.sleep(1.0)

    alive = node._connection_thread.is_alive()
    print(f"I/O thread alive after the removal of A's connection: {alive}")
    print(f"peer A: connection={peer_a.connection}, app1.is_ready="
          f"{app1.is_ready.is_set()}")
    if not alive:
        failed.append("the node's I/O thread has ended with RuntimeError "
                      "(dictionary changed size during iteration)")
    if peer_a.connection is None and app1.is_ready.is_set():
        failed.append("app1 still reports ready although its only configured "
                      "peer has no connection (readiness recomputation was "
                      "aborted)")

    # step 3: peer B goes away as well; a working node notices within one
    #         round of its loop
    sb.close()
    gone = wait(lambda: peer_b.connection is None and
                conn_b.ident not in node.connections and
                conn_b.ident not in node.peer_sockets, 4)
    print(f"peer B hung up; B's connection removed from the tables: {gone} "
          f"(Peer.connection={peer_b.connection}, "
          f"in connections={conn_b.ident in node.connections}, "
          f"in peer_sockets={conn_b.ident in node.peer_sockets}, "
          f"disconnect_reason={peer_b.disconnect_reason})")
    if not gone:
        failed.append("peer B has hung up but Peer.connection still "
                      "references the dead connection, which is still in "
                      "Node.connections / Node.peer_sockets with its socket "
                      "open; app2 keeps reporting ready")
finally:
    resume.set()
    for c in list(node.connections.values()):
        c.close(signal_node=False)
    for s in list(node.peer_sockets.values()) + node.tcp_sockets:
        try:
            s.close()
        except OSError:
            pass
    node._connection_thread.stop()
    node._stat_collect_thread.stop()

print()
print("property requires: after a close, the connection is in none of the "
      "tables, Peer.connection is None exactly when no live connection "
      "exists, and an application reports not ready once none of its peers "
      "has a connection - whatever other thread registers an application "
      "at that moment")
if failed:
    print("VIOLATION:")
    for f in failed:
        print("  -", f)
    sys.exit(1)
print("no violation observed")
sys.exit(0)
