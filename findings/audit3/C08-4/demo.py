"""C08 / finding 4

"A peer may be configured with a realm other than the Node" (docs/guide/
node.md).  Such a peer addresses its requests to the realm of the node
(Destination-Realm is the realm of the destination, rfc6733 6.6), i.e. to the
node's OWN realm.  add_application files the application under the realm of
each of its PEERS only, so Node._receive_app_request looks the node's own
realm up, finds the entry that Node.__init__ created for it - with nothing but
"_default" in it - and answers 3007 DIAMETER_APPLICATION_UNSUPPORTED: the
application id is registered, the realm is the node's own, the peer is the
one the application was registered with, and yet the application never sees a
single request of that peer.

Run:  PYTHONPATH=/repo/src /venv/bin/python /repo/_audit3/4/demo.py
exit 1 = violation observed, exit 0 = behaves as the property says
"""
import logging
import socket
import sys

from diameter.message import Message
from diameter.message.commands import CreditControlRequest
from diameter.node import Node
from diameter.node.application import Application
from diameter.node.peer import (PeerConnection, PEER_RECV, PEER_CONNECTED,
                                PEER_READY, PEER_TRANSPORT_TCP)

logging.disable(logging.CRITICAL)


class RecordingApp(Application):
    def __init__(self, *args, **kwargs):
        super().__init__(*args, **kwargs)
        self.requests = []

    def handle_request(self, message):
        self.requests.append(message)


def run(peer_realm: str) -> tuple[int, list[int]]:
    """One charging server in realm `server.realm`, one client peer whose own
    realm is `peer_realm`; the client sends a CCR to the server's realm."""
    node = Node("ocs.server.realm", "server.realm")
    peer = node.add_peer(f"aaa://client.{peer_realm}", peer_realm)
    app = RecordingApp(4, is_auth_application=True)
    node.add_application(app, [peer])

    conn = PeerConnection("10.0.0.1", 3868, PEER_RECV, node.interrupt_write)
    conn.state = PEER_CONNECTED
    conn.node_name = conn.host_identity = peer.node_name
    sock = socket.socket()
    node._add_peer_connection(conn, sock, PEER_TRANSPORT_TCP)
    conn.state = PEER_READY
    sent = []
    conn.add_out_msg = sent.append

    m = CreditControlRequest()
    m.session_id = f"client.{peer_realm};1;1"
    m.origin_host = f"client.{peer_realm}".encode()
    m.origin_realm = peer_realm.encode()
    m.destination_realm = b"server.realm"      # the node's own realm
    m.destination_host = b"ocs.server.realm"   # the node itself
    m.service_context_id = "32251@3gpp.org"
    m.cc_request_type = 4
    m.cc_request_number = 0
    m.header.application_id = 4
    m.header.hop_by_hop_identifier = 11
    m.header.end_to_end_identifier = 12
    try:
        node._receive_message(conn, Message.from_bytes(m.as_bytes()))
    finally:
        conn.close(signal_node=False)
        sock.close()
    return (len(app.requests),
            [Message.from_bytes(a.as_bytes()).result_code for a in sent])


same = run("server.realm")
other = run("client.realm")
print("CCR, application id 4 (registered), Destination-Realm = the node's own "
      "realm, sent by the peer the application is registered with")
print(f"peer configured in the node's realm : handed to the application "
      f"{same[0]}x, node answered {same[1]}")
print(f"peer configured in another realm    : handed to the application "
      f"{other[0]}x, node answered {other[1]}")
print("property requires                   : 'a request whose application "
      "id, destination realm and originating peer match a registered "
      "application ... is handed to that application exactly once'; 3007 "
      "only 'when no application matches' (realms {own, ...} x peers "
      "{configured for the app, ...})")

if same == (1, []) and other == (1, []):
    print("OK")
    sys.exit(0)
print("VIOLATION: the request to the node's own realm is answered 3007 "
      "although the application is registered for exactly this peer")
sys.exit(1)
