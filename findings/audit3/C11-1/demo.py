"""
C11 / finding 1

A DWA that arrives - and is handled - two seconds after the DWR (DWA timeout
4 s) gets the connection closed with DISCONNECT_REASON_DWA_TIMEOUT.

PeerConnection.dwa_wait_time reads `_last_dwr` twice:

    if not self.is_waiting_for_dwa:          # 1st read: _last_dwr > 0
        return 0
    return int(time.time()) - self._last_dwr # 2nd read

The node's I/O thread evaluates it in Node._check_timers in the very round in
which it has read the DWA from the socket and handed it to the connection's
reader thread.  When the reader thread runs reset_last_dwa() (state = READY,
_last_dwr = 0) between the two reads, the property returns `now - 0`, i.e.
about 1.7e9 seconds, which exceeds every DWA timeout.

The schedule is enforced deterministically: the virtual clock (time.time as
seen by diameter.node.peer) is the only hook; when it is called from
dwa_wait_time it lets the reader thread - which is held at the entrance of
Node.receive_dwa - proceed, and waits until the DWA has been handled.
"""
import socket
import sys
import threading
import time as real_time

from diameter.message import Message
from diameter.message.commands import (CapabilitiesExchangeRequest,
                                       DeviceWatchdogAnswer)
from diameter.message.constants import *
from diameter.node import Node
from diameter.node import peer as peer_mod
from diameter.node import node as node_mod
from diameter.node.peer import *


class VirtualTime:
    """Stand-in for the `time` module inside diameter.node.{peer,node}."""
    def __init__(self):
        self.now = 1_700_000_000
        self.hook = None

    def time(self):
        caller = sys._getframe(1).f_code.co_name
        if self.hook:
            self.hook(caller)
        return float(self.now)

    def sleep(self, s):
        real_time.sleep(s)


vt = VirtualTime()
peer_mod.time = vt
node_mod.time = vt

node = Node("node.example.net", "example.net")
node.idle_timeout = 30
node.dwa_timeout = 4
peer = node.add_peer("aaa://peer.example.net", "example.net")

# an accepted (inbound) connection, the way Node._handle_connections makes one
sock_node, sock_peer = socket.socketpair()
conn = PeerConnection("127.0.0.1", 40000, PEER_RECV, node.interrupt_write)
conn.state = PEER_CONNECTED
node._add_peer_connection(conn, sock_node, PEER_TRANSPORT_TCP)

sent = []
orig_add_out = conn.add_out_msg
def record(msg):
    sent.append((vt.now, msg))
    orig_add_out(msg)
conn.add_out_msg = record


def wait_for(cond, what):
    deadline = real_time.time() + 10
    while not cond():
        if real_time.time() > deadline:
            print(f"harness: timed out waiting for {what}")
            conn.close(signal_node=False)
            sys.exit(2)
        real_time.sleep(0.01)


cer = CapabilitiesExchangeRequest()
cer.header.hop_by_hop_identifier = 1
cer.header.end_to_end_identifier = 1
cer.origin_host = b"peer.example.net"
cer.origin_realm = b"example.net"
cer.host_ip_address = ["127.0.0.1"]
cer.vendor_id = 1
cer.product_name = "x"
cer.auth_application_id = [APP_RELAY]
conn.add_in_bytes(cer.as_bytes())
wait_for(lambda: conn.state == PEER_READY, "CER/CEA")
t0 = vt.now
print(f"t=+0   connection ready (idle timeout {node.idle_timeout}, "
      f"DWA timeout {node.dwa_timeout})")

# nothing arrives for 31 seconds: the timer check sends the DWR
vt.now = t0 + 31
node._check_timers(conn)
dwrs = [m for _, m in sent if m.header.command_code == 280 and m.header.is_request]
assert len(dwrs) == 1 and conn.state == PEER_READY_WAITING_DWA
print("t=+31  timer check: DWR sent, state READY_WAITING_DWA")

# the reader thread is held at the entrance of receive_dwa until the node
# thread is between the two reads of _last_dwr
gate = threading.Event()
handled = threading.Event()
orig_receive_dwa = node.receive_dwa
def held_receive_dwa(c, m):
    gate.wait(10)
    orig_receive_dwa(c, m)
    handled.set()
node.receive_dwa = held_receive_dwa

def hook(caller):
    if caller == "dwa_wait_time" and not gate.is_set():
        gate.set()
        handled.wait(10)
vt.hook = hook

# two seconds later the DWA arrives; the I/O thread reads it, hands it to the
# connection and goes on to the timer checks of the same round
vt.now = t0 + 33
dwa = DeviceWatchdogAnswer()
dwa.header.hop_by_hop_identifier = dwrs[0].header.hop_by_hop_identifier
dwa.header.end_to_end_identifier = dwrs[0].header.end_to_end_identifier
dwa.result_code = E_RESULT_CODE_DIAMETER_SUCCESS
dwa.origin_host = b"peer.example.net"
dwa.origin_realm = b"example.net"
conn.add_in_bytes(dwa.as_bytes())
print("t=+33  DWA arrives (2 s after the DWR), handed to the reader thread")
node._check_timers(conn)
vt.hook = None
wait_for(handled.is_set, "DWA handling")

still_there = conn.ident in node.connections
print(f"t=+33  timer check of the same round: DWA handled={handled.is_set()}, "
      f"connection still registered={still_there}, "
      f"state={node_mod.state_names.get(conn.state)}, "
      f"peer.disconnect_reason={peer.disconnect_reason and hex(peer.disconnect_reason)}")

conn.close(signal_node=False)
sock_peer.close()
try:
    sock_node.close()
except OSError:
    pass

print("property: 'a DWA returns it to ready, and if none arrives within the "
      "DWA timeout the connection is closed with the watchdog-timeout reason'")
if (not still_there) or peer.disconnect_reason == DISCONNECT_REASON_DWA_TIMEOUT:
    print("VIOLATION: the DWA arrived and was handled 2 s after the DWR "
          "(DWA timeout 4 s), yet the connection was closed with "
          "DISCONNECT_REASON_DWA_TIMEOUT")
    sys.exit(1)
print("ok: connection kept, state READY")
sys.exit(0)
