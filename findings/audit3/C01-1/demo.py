"""C01 / finding 1: Login-IP-Host (AVP 14) is typed Address in the dictionary.

RFC 7155 section 4.4.11.1 (RFC 4005 6.14.1): "The Login-IP-Host AVP (AVP Code 14)
is of type OctetString and contains the IPv4 address of a host" - four octets,
NO address-family prefix (its sibling Login-IPv6-Host, 98, is OctetString in the
dictionary).  The dictionary entry says AvpAddress, so the library puts the
2-octet IANA family 0x0001 in front of the address when encoding and tears the
first two octets of a conformant value off as a "family" when decoding.
Exit 1 = violation present, 0 = behaves as the property requires.
"""
import struct
import sys

from diameter.message import constants as C
from diameter.message.avp import Avp


def reference(code, flags, data):
    # independent RFC 6733 encoder: code, flags, 24-bit length, data, zero padding
    return (struct.pack("!IB", code, flags) + struct.pack("!I", 8 + len(data))[1:]
            + data + b"\0" * (-len(data) % 4))


ipv4 = bytes([192, 168, 0, 1])
wire = reference(14, 0x40, ipv4)          # 0000000e 4000000c c0a80001
bad = []

# --- encoding: whatever representation of the address the library accepts must
# produce the RFC wire form
produced = {}
for candidate in ("192.168.0.1", ipv4, (1, "192.168.0.1")):
    try:
        produced[repr(candidate)] = Avp.new(C.AVP_LOGIN_IP_HOST, value=candidate).as_bytes()
    except Exception as e:
        produced[repr(candidate)] = f"{type(e).__name__}: {e}"
print("RFC 7155 wire form of Login-IP-Host 192.168.0.1:", wire.hex())
for k, v in produced.items():
    print(f"  Avp.new(AVP_LOGIN_IP_HOST, value={k}) ->",
          v.hex() if isinstance(v, bytes) else v)
if wire not in produced.values():
    bad.append("no accepted value encodes to the RFC wire form (a 6-octet "
               "payload 0001c0a80001, length 14, is emitted instead of c0a80001, length 12)")

# --- decoding a conformant AVP
dec = Avp.from_bytes(wire)
try:
    val = dec.value
except Exception as e:
    val = f"{type(e).__name__}: {e}"
print("decoding the RFC wire form ->", type(dec).__name__, "value", val)
if val not in (ipv4, "192.168.0.1", (1, "192.168.0.1")):
    bad.append(f"conformant Login-IP-Host 192.168.0.1 decodes as {val!r}")

# a conformant address whose first two octets happen to be 00 01 cannot be read at all
wire2 = reference(14, 0x40, bytes([0, 1, 2, 3]))
try:
    v2 = Avp.from_bytes(wire2).value
except Exception as e:
    v2 = f"{type(e).__name__}: {e}"
print("decoding Login-IP-Host 0.1.2.3 ->", v2)

print()
print("property requires: 'encoding produces exactly the RFC 6733 wire form ... "
      "type-specific data layout' and 'decoding those bytes yields an AVP ... "
      "with equal ... value'")
if bad:
    print("VIOLATION:")
    for b in bad:
        print("  -", b)
    sys.exit(1)
print("ok")
sys.exit(0)
