"""
C04 / finding 1: a CEA whose Origin-Host payload is not valid UTF-8 makes the
node raise UnicodeDecodeError (not a library decode error) while it turns the
received bytes into the connection's host identity; the connection is left
half-open in PEER_CONNECTED.  The CER side of the same conversion was repaired
(errors="replace"), the CEA side (Node.receive_cea) was not.

Runs a real Node that dials a fake peer on 127.0.0.1; the fake peer answers the
CER with a well-formed CEA (Result-Code 2001) whose Origin-Host is ff fe 70 ...
"""
import logging
import socket
import sys
import threading
import time

from diameter.message import Message
from diameter.message.avp import AvpDecodeError, AvpEncodeError
from diameter.message.commands import CapabilitiesExchangeAnswer
from diameter.message.packer import Error as PackerError
from diameter.node import Node
from diameter.node.peer import (PEER_CONNECTED, PEER_READY,
                                PEER_READY_WAITING_DWA)

LIBRARY_ERRORS = (AvpDecodeError, AvpEncodeError, PackerError)


class Catcher(logging.Handler):
    def __init__(self):
        super().__init__()
        self.foreign = []

    def emit(self, record):
        if record.exc_info and record.exc_info[1] is not None:
            exc = record.exc_info[1]
            if not isinstance(exc, LIBRARY_ERRORS):
                self.foreign.append((record.getMessage(), exc))


def read_message(sock):
    buf = b""
    while len(buf) < 20:
        chunk = sock.recv(4096)
        if not chunk:
            return None
        buf += chunk
    length = int.from_bytes(buf[1:4], "big")
    while len(buf) < length:
        chunk = sock.recv(4096)
        if not chunk:
            return None
        buf += chunk
    return buf[:length]


def run(origin_host_bytes):
    """Returns (foreign exceptions, final connection state or None)."""
    catcher = Catcher()
    logging.getLogger("diameter").addHandler(catcher)
    logging.getLogger("diameter").setLevel(logging.ERROR)
    logging.getLogger("diameter").propagate = False

    srv = socket.socket(socket.AF_INET, socket.SOCK_STREAM)
    srv.bind(("127.0.0.1", 0))
    srv.listen(1)
    port = srv.getsockname()[1]
    sent = threading.Event()
    held = []

    def fake_peer():
        srv.settimeout(10)
        c, _ = srv.accept()
        held.append(c)
        c.settimeout(10)
        raw = read_message(c)
        cer = Message.from_bytes(raw)
        cea = CapabilitiesExchangeAnswer()
        cea.header.hop_by_hop_identifier = cer.header.hop_by_hop_identifier
        cea.header.end_to_end_identifier = cer.header.end_to_end_identifier
        cea.result_code = 2001
        cea.origin_host = origin_host_bytes
        cea.origin_realm = b"realm.test"
        cea.host_ip_address = ["127.0.0.1"]
        cea.vendor_id = 1
        cea.product_name = "fake"
        cea.auth_application_id = [4]
        c.sendall(cea.as_bytes())
        sent.set()

    t = threading.Thread(target=fake_peer, daemon=True)
    t.start()

    node = Node("client.realm.test", "realm.test")
    node.wakeup_interval = 1
    node.cea_timeout = 30      # must not interfere with the observation
    node.add_peer(f"aaa://peer.realm.test:{port}", "realm.test",
                  ip_addresses=["127.0.0.1"], is_persistent=True)
    node.start()
    state = None
    try:
        if not sent.wait(10):
            print("harness problem: the fake peer never got a CER")
            sys.exit(2)
        # give the reader thread ample time to handle the CEA
        deadline = time.time() + 3
        while time.time() < deadline:
            conns = list(node.connections.values())
            if conns and conns[0].state in (PEER_READY, PEER_READY_WAITING_DWA):
                break
            if not conns:
                break
            time.sleep(0.05)
        conns = list(node.connections.values())
        state = conns[0].state if conns else None
    finally:
        node.stop(force=True)
        for c in held:
            c.close()
        srv.close()
        logging.getLogger("diameter").removeHandler(catcher)
    return catcher.foreign, state


def main():
    foreign, state = run(b"peer.realm.test")
    print(f"control  (Origin-Host b'peer.realm.test'): foreign exceptions "
          f"{foreign}, connection state {state and hex(state)}")
    if foreign or state not in (PEER_READY, PEER_READY_WAITING_DWA):
        print("harness problem: the control run did not become ready")
        sys.exit(2)

    hostile = b"\xff\xfepeer.realm.test"
    foreign, state = run(hostile)
    print(f"hostile  (Origin-Host {hostile!r}): connection state "
          f"{state and hex(state)}")
    for text, exc in foreign:
        print(f"  exception raised while handling the CEA: {exc!r}")
        print(f"  logged as: {text[:150]}")

    print("property: decoding hostile bytes 'either returns a result or "
          "raises one of the library's own decode errors; it never raises any "
          "other exception'")
    if foreign:
        print("VIOLATION: a non-library exception "
              f"({type(foreign[0][1]).__name__}) was raised from the bytes of "
              "a received CEA" +
              ("; the connection is left in PEER_CONNECTED, neither ready nor "
               "closed" if state == PEER_CONNECTED else ""))
        sys.exit(1)
    print("ok: no foreign exception")
    sys.exit(0)


if __name__ == "__main__":
    main()
