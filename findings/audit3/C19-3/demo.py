"""C19 / finding 3

remove_peer_connection() (running on the reader thread of connection A, which
has just rejected a CEA and closed A's socket) tests
`self.socket_peers.get(conn.socket_fileno) is conn` and then pops the entry
in a second step, without the lock under which _add_peer_connection() stores
entries.  The file descriptor of A's closed socket is free again, so the I/O
thread, redialling another persistent peer B at that moment, gets the same
number for B's socket and stores socket_peers[fd] = B between the test and
the pop.  The pop then removes B's entry.  B stays in Node.connections /
peer_sockets / Peer.connection, but the I/O loop cannot find it by its socket
any more: the completion of the connect is never acted upon (state CONNECTING
has no timer), no CER is sent, and when the peer closes the connection
nothing is released.

Peer B is slow in taking the connection (its accept queue is full while the
node dials, so the SYN is answered a second later) - otherwise the connect
completes within microseconds on the loopback interface and the demonstration
would depend on timing.

The schedule is forced with a line tracer (no library object is replaced or
modified): the reader thread of A is held at the `pop` line until the I/O
thread has registered B.
"""
import inspect
import logging
import os
import socket
import struct
import sys
import threading
import time

from diameter.message import Message
from diameter.node import Node
from diameter.node.peer import (PEER_CONNECTING, PEER_CONNECTED, PEER_READY)

logging.basicConfig(level=logging.CRITICAL)

HOST = "127.0.0.1"


def recv_msg(s, timeout=5.0):
    s.settimeout(timeout)
    buf = b""
    try:
        while len(buf) < 20:
            d = s.recv(4096)
            if not d:
                return None
            buf += d
        ln = struct.unpack("!I", buf[:4])[0] & 0xffffff
        while len(buf) < ln:
            d = s.recv(4096)
            if not d:
                return None
            buf += d
    except OSError:
        return None
    return Message.from_bytes(buf[:ln])


# ---------------------------------------------------------------- the peers
sa = socket.socket()
sa.setsockopt(socket.SOL_SOCKET, socket.SO_REUSEADDR, 1)
sa.bind((HOST, 0))
sa.listen(5)
PORT_A = sa.getsockname()[1]

sb = socket.socket()
sb.setsockopt(socket.SOL_SOCKET, socket.SO_REUSEADDR, 1)
sb.bind((HOST, 0))
sb.listen(5)
PORT_B = sb.getsockname()[1]

# three sockets that fill B's accept queue while the node dials B
dummies = [socket.socket() for _ in range(3)]
for d in dummies:
    d.setblocking(False)

send_cea = threading.Event()
a_got_cer = threading.Event()


def peer_a():
    c, _ = sa.accept()
    cer = recv_msg(c)
    a_got_cer.set()
    send_cea.wait(30)
    cea = cer.to_answer()
    cea.origin_host = b"a.example.net"
    cea.origin_realm = b"example.net"
    cea.result_code = 5010           # DIAMETER_NO_COMMON_APPLICATION
    cea.host_ip_address = [HOST]
    cea.vendor_id = 1
    cea.product_name = "peer-a"
    c.sendall(cea.as_bytes())
    time.sleep(1)
    c.close()


threading.Thread(target=peer_a, daemon=True).start()


def peer_b_first_connection():
    # B takes the node's first connection and loses it again (restarts)
    c, _ = sb.accept()
    recv_msg(c)
    time.sleep(0.3)
    c.close()


threading.Thread(target=peer_b_first_connection, daemon=True).start()

# ------------------------------------------------------------ the scheduler
src, first = inspect.getsourcelines(Node.remove_peer_connection)
POP_LINE = None
for off, text in enumerate(src):
    if "self.socket_peers.pop(conn.socket_fileno" in text:
        POP_LINE = first + off
REMOVE_CODE = Node.remove_peer_connection.__code__

node = Node("client.example.net", "example.net")
node.wakeup_interval = 0.1
node.cea_timeout = 2
peer_a_cfg = node.add_peer(f"aaa://a.example.net:{PORT_A}", "example.net",
                           ip_addresses=[HOST], is_persistent=True)
peer_b_cfg = node.add_peer(f"aaa://b.example.net:{PORT_B}", "example.net",
                           ip_addresses=[HOST], is_persistent=True)
peer_a_cfg.reconnect_wait = 3600
peer_b_cfg.reconnect_wait = 3600     # adjusted while running, see below

armed = threading.Event()
hook_report = {}


def hold_reader_of_a(conn):
    """Runs on A's reader thread, between the `is conn` test and the pop."""
    fd = conn.socket_fileno
    # peer B is back, but busy: its accept queue is full
    sb.listen(0)
    for d in dummies:
        d.connect_ex((HOST, PORT_B))
    time.sleep(0.2)
    fillers = []
    xfd = None
    # make `fd` (the number of A's closed socket) the lowest free descriptor
    while True:
        n = os.open(os.devnull, os.O_RDONLY)
        if n < fd:
            fillers.append(n)
        elif n == fd:
            xfd = n
            break
        else:
            os.close(n)
            break
    peer_b_cfg.reconnect_wait = 0    # B may be redialled at once
    if xfd is not None:
        os.close(xfd)
    deadline = time.time() + 5
    b_conn = None
    while time.time() < deadline and b_conn is None:
        for c in list(node.connections.values()):
            if (c.node_name == "b.example.net" and c.socket_fileno == fd and
                    node.socket_peers.get(fd) is c):
                b_conn = c
        time.sleep(0.01)
    for n in fillers:
        os.close(n)
    peer_b_cfg.reconnect_wait = 3600
    hook_report["fd"] = fd
    hook_report["b_conn"] = b_conn


def local_trace(frame, event, arg):
    if (event == "line" and frame.f_lineno == POP_LINE and armed.is_set()
            and frame.f_locals.get("conn") is not None
            and frame.f_locals["conn"].node_name == "a.example.net"):
        armed.clear()
        hold_reader_of_a(frame.f_locals["conn"])
    return local_trace


def global_trace(frame, event, arg):
    if frame.f_code is REMOVE_CODE:
        return local_trace
    return None


if POP_LINE is not None:
    threading.settrace(global_trace)
else:
    print("note: the two-step removal from socket_peers is not in the source "
          "any more; running without a forced schedule")

node.start()

# the first connection to B has been lost; A is waiting for its CEA
t0 = time.time()
while time.time() - t0 < 10 and not (
        a_got_cer.is_set() and peer_b_cfg.last_disconnect and
        peer_b_cfg.connection is None):
    time.sleep(0.05)
assert a_got_cer.is_set(), "peer A never received the CER"
assert peer_b_cfg.last_disconnect and peer_b_cfg.connection is None, \
    "first connection to B was not lost"

armed.set()
send_cea.set()                       # A rejects the CER -> reader thread of A
                                     # closes A's socket and removes A

t0 = time.time()
while time.time() - t0 < 10 and (armed.is_set() or "fd" not in hook_report) \
        and POP_LINE is not None:
    time.sleep(0.05)
if POP_LINE is None:
    peer_b_cfg.reconnect_wait = 0
    time.sleep(1)
    peer_b_cfg.reconnect_wait = 3600

for d in dummies[1:]:
    d.close()                        # only one connection fills B's queue
time.sleep(2.5)                      # > cea_timeout, many I/O rounds

b_conn = hook_report.get("b_conn") or peer_b_cfg.connection
fd = hook_report.get("fd")
print(f"A's socket had descriptor {fd}; connection registered for B while "
      f"A's reader thread stood between test and pop: {b_conn}")

# peer B gets round to its accept queue; the node's SYN is answered now
b_port = None
if b_conn is not None and b_conn.ident in node.peer_sockets:
    try:
        b_port = node.peer_sockets[b_conn.ident].getsockname()[1]
    except OSError:
        pass
cb = None
sb.settimeout(0.5)
t0 = time.time()
while time.time() - t0 < 12 and cb is None:
    try:
        c, addr = sb.accept()
    except OSError:
        continue
    if b_port is not None and addr[1] == b_port:
        cb = c
    elif b_port is None and addr[1] not in [
            d.getsockname()[1] for d in dummies]:
        cb = c
    else:
        c.close()
for d in dummies:
    d.close()
# what peer B sees: the TCP connection is there, but no CER ever arrives
cer_b = recv_msg(cb, 2.5) if cb else None
print(f"peer B accepted a TCP connection: {cb is not None}; "
      f"CER received from the node: {cer_b is not None}")

state_before = b_conn.state if b_conn else None
in_lookup = (b_conn is not None and
             node.socket_peers.get(b_conn.socket_fileno) is b_conn)
print(f"B: state {hex(state_before) if state_before else None} "
      f"(CONNECTING is {hex(PEER_CONNECTING)}), in Node.connections: "
      f"{b_conn is not None and b_conn.ident in node.connections}, "
      f"found in Node.socket_peers: {in_lookup}")

# the connection ends: peer B closes it
if cb:
    cb.close()
sb.close()
time.sleep(7)                        # worker threads notice within 5 s

violations = []
if b_conn is not None:
    still_conn = b_conn.ident in node.connections
    sock = node.peer_sockets.get(b_conn.ident)
    sock_open = sock is not None and sock.fileno() != -1
    threads = [t for t in (b_conn._read_thread, b_conn._write_thread)
               if t.is_alive()]
    held = peer_b_cfg.connection is b_conn
    print(f"7 s after peer B closed the connection: still in "
          f"Node.connections: {still_conn}; socket still open: {sock_open}; "
          f"live worker threads of the connection: {len(threads)}; "
          f"Peer.connection still refers to it: {held}; state "
          f"{hex(b_conn.state)}")
    if still_conn:
        violations.append("table entries not released")
    if sock_open:
        violations.append("socket not closed")
    if threads:
        violations.append("worker threads alive")
    if held:
        violations.append("Peer.connection keeps the dead connection "
                          "(peer is never dialled again)")
else:
    print("no connection for B was observed")

print("property: per-connection resources (worker threads, sockets, table "
      "entries) are released when the connection closes, is refused or "
      "fails to be established")

threading.settrace(None)
try:
    node.stop(wait_timeout=2, force=True)
except Exception as e:
    print("stop:", e)

if violations:
    print("VIOLATION:", "; ".join(violations))
    sys.stdout.flush()
    os._exit(1)
print("OK: everything of B's connection was released")
sys.stdout.flush()
os._exit(0)
