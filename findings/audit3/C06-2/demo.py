"""C06 / finding 2: with Node.validate_received_request_avps = False (a
documented node attribute) a CER that carries no Origin-Host AVP makes
Node.receive_cer raise AttributeError ('NoneType' object has no attribute
'lower').  The generic error handler of _receive_message turns that into a
5012 "Message handling error" answer and leaves the connection open in
PEER_CONNECTED.  The sender cannot be one of the configured peers, so the
property requires 3010 followed by closing.

Run:  PYTHONPATH=/repo/src /venv/bin/python demo.py
exit 1 = violation observed (current code), exit 0 = behaves as the property says
"""
import logging
import sys
import time

from diameter.message import Message
from diameter.message.commands import CapabilitiesExchangeRequest
from diameter.node import Node
from diameter.node.application import Application
from diameter.node.peer import (PeerConnection, PEER_RECV, PEER_CONNECTED,
                                PEER_CLOSING, PEER_CLOSED, PEER_TRANSPORT_TCP)
from diameter.node.node import state_names


class Capture(logging.Handler):
    def __init__(self):
        super().__init__()
        self.errors = []

    def emit(self, record):
        if record.levelno >= logging.ERROR:
            self.errors.append(record.getMessage())


capture = Capture()
logging.getLogger("diameter").addHandler(capture)
logging.getLogger("diameter").propagate = False


class FakeSock:
    def fileno(self): return 1001
    def close(self): pass
    def setsockopt(self, *a): pass


class App(Application):
    def handle_request(self, message): pass


def written(conn):
    deadline = time.time() + 5
    while time.time() < deadline:
        if (conn._read_buffer_queue.empty() and
                conn._write_msg_queue.unfinished_tasks == 0):
            time.sleep(0.2)
            if (conn._read_buffer_queue.empty() and
                    conn._write_msg_queue.unfinished_tasks == 0):
                break
        time.sleep(0.02)
    out, buf = [], conn.write_buffer
    while buf:
        ln = int.from_bytes(buf[1:4], "big")
        out.append(Message.from_bytes(buf[:ln]))
        buf = buf[ln:]
    return out


node = Node("node.local.realm", "local.realm",
            ip_addresses=["127.0.0.1"], tcp_port=3868)
node.validate_received_request_avps = False
peer = node.add_peer("aaa://peer1.local.realm")
node.add_application(App(4, is_auth_application=True), [peer])

# what Node._handle_connections does for an accepted TCP connection
conn = PeerConnection("127.0.0.9", 5555, PEER_RECV,
                      interrupt_fileno=node.interrupt_write)
conn.state = PEER_CONNECTED
node._add_peer_connection(conn, FakeSock(), PEER_TRANSPORT_TCP)

cer = CapabilitiesExchangeRequest()
cer.header.hop_by_hop_identifier = 1
cer.header.end_to_end_identifier = 2
# no Origin-Host
cer.origin_realm = b"local.realm"
cer.host_ip_address = ["127.0.0.9"]
cer.vendor_id = 1
cer.product_name = "peer"
cer.auth_application_id = [4]

try:
    conn.add_in_bytes(cer.as_bytes())
    out = written(conn)
    state = conn.state
finally:
    conn.close(signal_node=False)

print("CER without Origin-Host, validate_received_request_avps=False")
print("  answers written :", [(m.name, m.result_code, m.error_message)
                              for m in out])
print("  connection state:", state_names[state])
print("  errors logged   :", capture.errors)
print()
print("property: an inbound CER is answered '... with 3010 followed by "
      "closing when the peer is unknown' (a CER that names no host cannot "
      "come from a known peer)")

# (5005 MISSING_AVP would be the RFC's alternative wording of the refusal)
ok = (len(out) == 1 and out[0].result_code in (3010, 5005) and
      state in (PEER_CLOSING, PEER_CLOSED) and not capture.errors)
if not ok:
    print("VIOLATION: receive_cer fails with an internal error, the peer is "
          "told 5012 'Message handling error' and the connection stays open "
          "in CONNECTED until the CER timeout")
    sys.exit(1)
print("no violation")
sys.exit(0)
