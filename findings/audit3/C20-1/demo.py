"""
C20 / finding 1: to_answer() pairs request and answer classes by the *spelling
of the python class names*, not through the command registry.

A command is registered exactly the way docs/guide/extending_the_stack.md
describes (base class extending DefinedMessage with a type_factory, a request
subclass, an answer subclass, commands.register(base)).  Nothing in the
documentation says that the class names carry meaning.  Only when the classes
happen to be called  <Base>, <Base>Request, <Base>Answer  does to_answer() find
the answer class:

  * SpecialMessage / SpecialRequest / SpecialAnswer  -> to_answer() returns the
    generic `Message` although the registered command has an answer class; the
    node's own error answer for such a request is a bare 20-byte header.
  * PingMessage / PingReq / PingAns                  -> to_answer() returns a
    second *PingReq*, whose constructor sets the R bit: the "answer" is a
    request, and the node transmits it as one.

Exit code 1 = violation observed, 0 = behaves as the property requires.
"""
import sys
from typing import Type

from diameter.message import Message, DefinedMessage, MessageHeader
from diameter.message.avp.generator import AvpGenDef, AvpGenType
from diameter.message.commands import register
from diameter.message.commands._attributes import assign_attr_from_defs
from diameter.message.constants import *
from diameter.node import Node
from diameter.node.peer import PeerConnection, PEER_RECV, PEER_READY

REQ_DEF = (
    AvpGenDef("session_id", AVP_SESSION_ID, is_required=True),
    AvpGenDef("origin_host", AVP_ORIGIN_HOST, is_required=True),
    AvpGenDef("origin_realm", AVP_ORIGIN_REALM, is_required=True),
    AvpGenDef("destination_realm", AVP_DESTINATION_REALM, is_required=True),
)
ANS_DEF = (
    AvpGenDef("session_id", AVP_SESSION_ID, is_required=True),
    AvpGenDef("result_code", AVP_RESULT_CODE, is_required=True),
    AvpGenDef("origin_host", AVP_ORIGIN_HOST, is_required=True),
    AvpGenDef("origin_realm", AVP_ORIGIN_REALM, is_required=True),
)


def make_command(code, base_name, req_name, ans_name):
    """The class layout of docs/guide/extending_the_stack.md, with the three
    class names as parameters."""
    def base_post_init(self):
        self.header.command_code = self.code
        DefinedMessage.__post_init__(self)

    def type_factory(cls, header: MessageHeader) -> Type[Message] | None:
        return req if header.is_request else ans

    base = type(base_name, (DefinedMessage,), {
        "code": code, "name": base_name, "__post_init__": base_post_init,
        "type_factory": classmethod(type_factory)})

    def req_post_init(self):
        base.__post_init__(self)
        self.header.is_request = True
        self.header.is_proxyable = True
        assign_attr_from_defs(self, self._avps)
        self._avps = []

    def ans_post_init(self):
        base.__post_init__(self)
        self.header.is_request = False
        self.header.is_proxyable = True
        assign_attr_from_defs(self, self._avps)
        self._avps = []

    req = type(req_name, (base,), {"avp_def": REQ_DEF, "__post_init__": req_post_init})
    ans = type(ans_name, (base,), {"avp_def": ANS_DEF, "__post_init__": ans_post_init})
    register(base)
    return base, req, ans


def wire_request(req_cls, flags):
    r = req_cls()
    r.session_id = "peer.example;1;1"
    r.origin_host = b"peer.example"
    r.origin_realm = b"example"
    r.destination_realm = b"other.realm"   # not served: the node answers 3003 itself
    r.header.application_id = 16777999
    r.header.hop_by_hop_identifier = 0x11223344
    r.header.end_to_end_identifier = (req_cls.code << 8) + flags   # a new request each time
    data = bytearray(r.as_bytes())
    data[4] = flags
    return bytes(data)


violations = []

node = Node("node.local.realm", "local.realm")
conn = PeerConnection("127.0.0.1", 3868, PEER_RECV, node.interrupt_write)
conn.ident = "aabbccddeeff"
conn.state = PEER_READY
sent = []
conn.add_out_msg = sent.append

try:
    for code, names in ((990, ("CtlMessage", "CtlMessageRequest", "CtlMessageAnswer")),
                        (991, ("SpecialMessage", "SpecialRequest", "SpecialAnswer")),
                        (992, ("PingMessage", "PingReq", "PingAns"))):
        base, req_cls, ans_cls = make_command(code, *names)
        print(f"--- command {code}: classes {names}")
        for flags in (0x80, 0xc0, 0xf0):
            req = Message.from_bytes(wire_request(req_cls, flags))
            assert type(req) is req_cls, "registry did not return the request class"
            assert type(Message.from_bytes(
                bytes(wire_request(req_cls, flags)[:4]) + bytes([flags & 0x40]) +
                wire_request(req_cls, flags)[5:])) is ans_cls, \
                "registry does not know the answer class"

            # 1. Message.to_answer()
            ans = req.to_answer()
            what = f"{names[1]} flags 0x{flags:02x}: to_answer() -> " \
                   f"{type(ans).__name__}, flags 0x{ans.header.command_flags:02x}"
            ok = type(ans) is ans_cls and ans.header.command_flags == (flags & 0x40)
            print(("   ok   " if ok else "   BAD  ") + what)
            if not ok:
                violations.append(
                    what + f"; required: an instance of {ans_cls.__name__} with "
                    f"flags 0x{flags & 0x40:02x} (R, E, T cleared, P kept)")

            # 2. the answer the node itself generates (realm not served, 3003)
            sent.clear()
            node._receive_message(conn, req)
            if len(sent) != 1:
                violations.append(f"{names[1]}: node queued {len(sent)} messages")
                continue
            out = sent[0].as_bytes()
            dec = Message.from_bytes(out, plain_msg=True)
            oh = [a.value for a in dec.find_avps((AVP_ORIGIN_HOST, 0))]
            sid = [a.value for a in dec.find_avps((AVP_SESSION_ID, 0))]
            what = (f"{names[1]} flags 0x{flags:02x}: node's answer on the wire: "
                    f"{len(out)} bytes, flags 0x{out[4]:02x}, Origin-Host {oh}, "
                    f"Session-Id {sid}")
            ok = (out[4] == (flags & 0x40) and oh == [b"node.local.realm"]
                  and sid == ["peer.example;1;1"])
            print(("   ok   " if ok else "   BAD  ") + what)
            if not ok:
                violations.append(
                    what + "; required: flags "
                    f"0x{flags & 0x40:02x}, Origin-Host [b'node.local.realm'], "
                    "Session-Id ['peer.example;1;1']")

    # 3. the same lookup applied to a subclass of a built-in request class
    #    (the usual way of adding operator-specific typed attributes)
    from diameter.message.commands import CreditControlRequest, CreditControlAnswer

    class GyCreditControlRequest(CreditControlRequest):
        avp_def = CreditControlRequest.avp_def + (
            AvpGenDef("charging_rule_base_name", AVP_TGPP_CHARGING_RULE_BASE_NAME, VENDOR_TGPP),)

    class GyCcr(CreditControlRequest):
        avp_def = GyCreditControlRequest.avp_def

    print("--- subclasses of the built-in CreditControlRequest")
    for sub in (GyCreditControlRequest, GyCcr):
        r = sub()
        r.header.hop_by_hop_identifier = 1
        r.header.end_to_end_identifier = 2
        ans = r.to_answer()
        what = f"{sub.__name__}: to_answer() -> {type(ans).__name__}, " \
               f"flags 0x{ans.header.command_flags:02x}"
        ok = isinstance(ans, CreditControlAnswer) and ans.header.command_flags == 0x40
        print(("   ok   " if ok else "   BAD  ") + what)
        if not ok:
            violations.append(what + "; required: a CreditControlAnswer with flags 0x40")
finally:
    conn.close(signal_node=False)

print()
if violations:
    print("PROPERTY VIOLATED (C20: 'For every command class, the answer produced "
          "from a request is an instance of that command's answer class ... has "
          "the request, error and retransmit bits cleared ... Answers generated "
          "through a node ... carry the local Origin-Host ... copy Session-Id'):")
    for v in violations:
        print("  -", v)
    sys.exit(1)
print("every registered command is answered with its answer class")
sys.exit(0)
