"""
C03 / finding 4: an AVP the class does not declare is NOT carried over
unchanged when it arrives with the V flag set and Vendor-Id 0.

`Avp.__init__` stores the received flags and then assigns `self.vendor_id`,
whose setter rewrites the V bit from the truth value of the vendor id: for
vendor id 0 the V bit that was received is cleared. On re-encoding the AVP has
lost its flag and its 4-byte Vendor-Id field (header 12 -> 8 bytes).

The same happens with `plain_msg=True`, which is documented to keep the wire
sequence.

Exit 1 when the defect is present, 0 otherwise.
"""
import struct
import sys

from diameter.message import Message
from diameter.message.constants import *
from diameter.message.commands import CreditControlRequest

ccr = CreditControlRequest()
ccr.session_id = "host.example;1;1"
ccr.origin_host = b"host.example"
ccr.origin_realm = b"example"
ccr.destination_realm = b"realm.example"
ccr.service_context_id = "32251@3gpp.org"
ccr.cc_request_type = E_CC_REQUEST_TYPE_EVENT_REQUEST
ccr.cc_request_number = 0
base = ccr.as_bytes()

# an AVP no class declares: code 99999, flags V|M (0xC0), Vendor-Id 0, 4 bytes
extra = struct.pack("!IIII", 99999, (0xC0 << 24) | 16, 0, 0xDEADBEEF)
total = len(base) + len(extra)
wire = base[:1] + struct.pack("!I", total)[1:] + base[4:] + extra
assert wire.endswith(extra)

failed = []
for label, kwargs in (("typed", {}), ("plain_msg=True", {"plain_msg": True})):
    msg = Message.from_bytes(wire, **kwargs)
    out = msg.as_bytes()
    tail = out[len(base):]
    print(f"{label}: received undeclared AVP {extra.hex()}")
    print(f"{' ' * len(label)}  re-encoded as         {tail.hex()}")
    if out[len(base):] != extra or out[20:len(base)] != base[20:]:
        failed.append(label)
        print(f"{' ' * len(label)}  VIOLATION: the property requires AVPs the "
              f"class does not declare to be carried over unchanged "
              f"({len(extra)} bytes, flags 0xc0); got {len(tail)} bytes, "
              f"flags 0x{tail[4]:02x}")

if failed:
    print("RESULT: violated:", failed)
    sys.exit(1)
print("RESULT: ok")
sys.exit(0)
