"""
C10 / finding 1 - route_request reads Peer.connection a second time after the
ready check (and after the selection callback) and never looks at the state of
what it finds there: when the peer's ready connection has been lost and the
I/O thread has already dialled the persistent peer again, the request is
written to the NEW connection, whose capabilities exchange has not completed.

Real sockets, real node threads. Two configured persistent peers A and B, each
played by a tiny TCP server in this file. The custom selection callback (a
documented hook) takes a while to decide; during that time peer A drops its
connection, the node's I/O thread notices and dials A again (reconnect_wait 0).
The new connection has sent its CER and waits for the CEA, which A does not send
yet. The callback then returns A - one of the ready peers it was offered.
"""
import os
import socket
import sys
import threading
import time

from diameter.message import Message
from diameter.message.commands import (CapabilitiesExchangeAnswer,
                                       CreditControlRequest)
from diameter.node import Node
from diameter.node.application import Application
from diameter.node.node import NotRoutable
from diameter.node.peer import (PEER_READY_STATES, PEER_CONNECTED,
                                PEER_CONNECTING)

STATE = {0x10: "CONNECTING", 0x11: "CONNECTED", 0x12: "READY",
         0x13: "READY_WAITING_DWA", 0x1a: "DISCONNECTING", 0x1b: "CLOSING",
         0x1c: "CLOSED"}


class FakePeer:
    """Listens on 127.0.0.1, records every message per accepted connection."""
    def __init__(self, name):
        self.name = name
        self.lsock = socket.socket()
        self.lsock.setsockopt(socket.SOL_SOCKET, socket.SO_REUSEADDR, 1)
        self.lsock.bind(("127.0.0.1", 0))
        self.lsock.listen(8)
        self.port = self.lsock.getsockname()[1]
        self.accepted = []          # [(socket, [messages])]
        self.answer_cer = True
        self.stopped = False
        threading.Thread(target=self._accept, daemon=True).start()

    def _accept(self):
        while not self.stopped:
            try:
                s, _ = self.lsock.accept()
            except OSError:
                return
            msgs = []
            self.accepted.append((s, msgs))
            threading.Thread(target=self._serve, args=(s, msgs, self.answer_cer),
                             daemon=True).start()

    def _serve(self, s, msgs, answer_cer):
        buf = b""
        while True:
            try:
                data = s.recv(4096)
            except OSError:
                return
            if not data:
                return
            buf += data
            while len(buf) >= 20:
                length = int.from_bytes(buf[1:4], "big")
                if len(buf) < length:
                    break
                m = Message.from_bytes(buf[:length])
                buf = buf[length:]
                msgs.append(m)
                if m.header.command_code == 257 and answer_cer:
                    cea = CapabilitiesExchangeAnswer()
                    cea.header.hop_by_hop_identifier = m.header.hop_by_hop_identifier
                    cea.header.end_to_end_identifier = m.header.end_to_end_identifier
                    cea.result_code = 2001
                    cea.origin_host = self.name.encode()
                    cea.origin_realm = b"realm.net"
                    cea.host_ip_address = ["127.0.0.1"]
                    cea.vendor_id = 99
                    cea.product_name = "fake"
                    cea.auth_application_id = [4]
                    s.sendall(cea.as_bytes())

    def close(self):
        self.stopped = True
        self.lsock.close()
        for s, _ in self.accepted:
            try:
                s.close()
            except OSError:
                pass


def wait_for(cond, what, timeout=20):
    until = time.time() + timeout
    while time.time() < until:
        if cond():
            return
        time.sleep(0.02)
    print(f"SETUP FAILED: {what}", flush=True)
    os._exit(2)


fa, fb = FakePeer("a.realm.net"), FakePeer("b.realm.net")

node = Node("client.realm.net", "realm.net")
node.wakeup_interval = 1
pa = node.add_peer(f"aaa://a.realm.net:{fa.port}", "realm.net",
                   ip_addresses=["127.0.0.1"], is_persistent=True)
pb = node.add_peer(f"aaa://b.realm.net:{fb.port}", "realm.net",
                   ip_addresses=["127.0.0.1"], is_persistent=True)
pa.reconnect_wait = 0

app = Application(4, is_auth_application=True)
node.add_application(app, [pa, pb])

offered = []


def slow_selector(node_, app_, message, peers):
    offered.append([(p.node_name, STATE[p.connection.state]) for p in peers])
    first_conn = pa.connection
    # ... while the callback is deciding, peer A drops its connection
    fa.answer_cer = False            # and will be slow to answer the next CER
    fa.accepted[0][0].shutdown(socket.SHUT_RDWR)
    fa.accepted[0][0].close()
    # the node's I/O thread reads the end of the stream, removes the
    # connection and dials the persistent peer again; the new connection sends
    # its CER and waits for the CEA
    wait_for(lambda: pa.connection is not None and
             pa.connection is not first_conn and
             len(fa.accepted) == 2 and len(fa.accepted[1][1]) >= 1,
             "node did not dial peer A again")
    return pa


node.peer_route_select_func = slow_selector
node.start()
wait_for(lambda: all(p.connection and p.connection.state in PEER_READY_STATES
                     for p in (pa, pb)), "peers did not become ready")

ccr = CreditControlRequest()
ccr.session_id = node.session_generator.next_id()
ccr.origin_host = b"client.realm.net"
ccr.origin_realm = b"realm.net"
ccr.destination_realm = b"realm.net"
ccr.auth_application_id = 4
ccr.service_context_id = "demo"
ccr.cc_request_type = 1
ccr.cc_request_number = 0

outcome = None
try:
    app.send_request(ccr, timeout=2)
    outcome = "answer"
except NotRoutable as e:
    outcome = f"NotRoutable({e})"
except TimeoutError:
    outcome = "TimeoutError"

time.sleep(0.5)
new_conn = pa.connection
new_state = STATE.get(new_conn.state) if new_conn else None
second_conn_msgs = [(m.header.command_code, m.header.is_request)
                    for m in fa.accepted[1][1]]
b_msgs = [(m.header.command_code, m.header.is_request)
          for s, msgs in fb.accepted for m in msgs]

print("peers offered to the selection callback:", offered)
print("send_request ended with:", outcome)
print("state of peer A's (new) connection after the request:", new_state)
print("messages peer A received on its NEW connection "
      "(command code, is_request):", second_conn_msgs)
print("messages peer B (READY all along) received:", b_msgs)

violated = (272, True) in second_conn_msgs and new_state in ("CONNECTED", "CONNECTING")

node.stop(force=True)
fa.close()
fb.close()

if violated:
    print("\nVIOLATION: the Credit-Control-Request was written to a connection "
          "in state CONNECTED (CER sent, no CEA received).\n"
          "The property requires: 'A request submitted by an application is "
          "sent only to a peer ... whose connection is ready ... when none "
          "exists the not-routable error is raised and nothing is sent'.\n"
          "Expected: NotRoutable (the connection whose readiness had been "
          "checked is gone), nothing written to the unready connection.")
    sys.exit(1)
print("\nno violation: nothing was written to an unready connection")
sys.exit(0)
