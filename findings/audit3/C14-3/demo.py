"""
C14 / finding 3

Scenario "shutdown": a node serves a peer, is stopped with the ordinary
DPR/DPA exchange, and is discarded.  A stopped node cannot be started again
("Cannot start a node twice"), so every restart of the service needs a new
Node object.

`Node.__init__` opens the wake-up pipe (`os.pipe()`); nothing ever closes it:
not `stop()`, not the end of `_handle_connections`, and the two descriptors
are plain integers that garbage collection does not close either.  Every
start/serve/stop cycle therefore costs the process two file descriptors for
good; after RLIMIT_NOFILE/2 cycles `Node(...)`, `accept()` and every dial fail
with EMFILE.

exit 1: descriptors remain open after stop()      (current code)
exit 0: the process has as many descriptors as before the node existed
"""
import gc
import logging
import os
import socket
import sys
import threading
import time

from diameter.message import Message
from diameter.message.commands import (CapabilitiesExchangeRequest,
                                       CreditControlRequest)
from diameter.node import Node
from diameter.node.application import SimpleThreadingApplication

logging.basicConfig(level=logging.CRITICAL)
CYCLES = 3


def open_fds():
    return {fd: os.readlink(f"/proc/self/fd/{fd}")
            for fd in os.listdir("/proc/self/fd")
            if os.path.exists(f"/proc/self/fd/{fd}")}


def free_port():
    s = socket.socket()
    s.bind(("127.0.0.1", 0))
    p = s.getsockname()[1]
    s.close()
    return p


def cer():
    m = CapabilitiesExchangeRequest()
    m.header.hop_by_hop_identifier = 1
    m.header.end_to_end_identifier = 1
    m.origin_host = b"client.example"
    m.origin_realm = b"example"
    m.host_ip_address = ["127.0.0.1"]
    m.vendor_id = 1
    m.product_name = "probe"
    m.auth_application_id = [4]
    return m.as_bytes()


def ccr():
    m = CreditControlRequest()
    m.header.application_id = 4
    m.header.hop_by_hop_identifier = 7
    m.header.end_to_end_identifier = 7
    m.session_id = "probe;1"
    m.origin_host = b"client.example"
    m.origin_realm = b"example"
    m.destination_realm = b"example"
    m.auth_application_id = 4
    m.service_context_id = "ctx"
    m.cc_request_type = 1
    m.cc_request_number = 0
    return m.as_bytes()


def read_msgs(sock, n, timeout):
    sock.settimeout(0.2)
    buf, out, end = b"", [], time.time() + timeout
    while len(out) < n and time.time() < end:
        try:
            d = sock.recv(65536)
        except socket.timeout:
            continue
        except OSError:
            break
        if not d:
            break
        buf += d
        while len(buf) >= 20 and len(buf) >= int.from_bytes(buf[1:4], "big"):
            ln = int.from_bytes(buf[1:4], "big")
            out.append(Message.from_bytes(buf[:ln]))
            buf = buf[ln:]
    return out


def one_life():
    port = free_port()
    node = Node("server.example", "example",
                ip_addresses=["127.0.0.1"], tcp_port=port)
    node.wakeup_interval = 1
    peer = node.add_peer("aaa://client.example", "example")
    app = SimpleThreadingApplication(
        4, is_auth_application=True, max_threads=1,
        request_handler=lambda a, m: a.generate_answer(m, result_code=2001))
    node.add_application(app, [peer])
    node.start()
    c = socket.create_connection(("127.0.0.1", port))
    c.sendall(cer())
    r = read_msgs(c, 1, 3)
    assert r and r[0].result_code == 2001
    c.sendall(ccr())
    r = read_msgs(c, 1, 3)
    assert r and r[0].result_code == 2001

    def answer_dpr():
        m = read_msgs(c, 1, 5)
        if m:
            a = m[0].to_answer()
            a.origin_host = b"client.example"
            a.origin_realm = b"example"
            a.result_code = 2001
            c.sendall(a.as_bytes())
        read_msgs(c, 1, 3)          # until the node closes
        c.close()

    t = threading.Thread(target=answer_dpr)
    t.start()
    node.stop(wait_timeout=5)
    t.join()


before = open_fds()
for _ in range(CYCLES):
    one_life()
# connection worker threads end within their 5 s poll
end = time.time() + 8
while threading.active_count() > 1 and time.time() < end:
    time.sleep(0.2)
gc.collect()
after = open_fds()
left = {fd: what for fd, what in after.items() if fd not in before}
print(f"threads still alive after {CYCLES} start/serve/stop cycles:",
      threading.active_count() - 1)
print(f"descriptors open before: {len(before)}, after: {len(after)}")
for fd, what in sorted(left.items(), key=lambda x: int(x[0])):
    print(f"  left open: fd {fd} -> {what}")
print("property requires: 'no processing capacity is consumed for good' "
      "(scenario: shutdown)")
sys.exit(1 if left else 0)
