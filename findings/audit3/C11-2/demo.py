"""
C11 / finding 2

The watchdog timers are differences of the WALL clock (int(time.time())),
not of a monotonic clock.  When the system clock is stepped (NTP correcting a
wrong RTC after boot, an administrator setting the date, a VM resumed from a
snapshot) while connections are up:

 A. step back by one hour: a READY connection on which nothing is received
    for two minutes (idle timeout 30 s) is never sent a DWR;
 B. step back by one hour while a DWR is outstanding: no DWA ever arrives
    (peer is dead), yet the connection stays READY_WAITING_DWA - routable -
    instead of being closed after the DWA timeout (4 s);
 C. step forward by one hour one second after the DWR went out: the next
    timer check closes the connection with DWA_TIMEOUT although only one
    second of the four-second DWA timeout has passed.

The demo replaces the `time` module seen by diameter.node.{peer,node} with a
virtual one that has an independent wall clock (`time()`, can be stepped) and
monotonic clock (`monotonic()`, real elapsed seconds).  Timer checks are made
every `wakeup_interval` (6 s) of elapsed time, as the I/O thread does.
"""
import socket
import sys
import time as real_time

from diameter.message.commands import CapabilitiesExchangeRequest
from diameter.message.constants import *
from diameter.node import Node
from diameter.node import peer as peer_mod
from diameter.node import node as node_mod
from diameter.node.peer import *


class VirtualTime:
    def __init__(self):
        self.mono = 50_000.0           # seconds since boot
        self.wall = 1_700_000_000.0    # what the system clock says

    def time(self):
        return self.wall

    def monotonic(self):
        return self.mono

    def monotonic_ns(self):
        return int(self.mono * 1e9)

    def perf_counter(self):
        return self.mono

    def sleep(self, s):
        real_time.sleep(s)

    def elapse(self, seconds):
        self.mono += seconds
        self.wall += seconds

    def step_wall_clock(self, seconds):
        self.wall += seconds


vt = VirtualTime()
peer_mod.time = vt
node_mod.time = vt


def wait_for(cond, what, conn):
    deadline = real_time.time() + 10
    while not cond():
        if real_time.time() > deadline:
            print(f"harness: timed out waiting for {what}")
            conn.close(signal_node=False)
            sys.exit(2)
        real_time.sleep(0.01)


def ready_connection(name):
    node = Node("node.example.net", "example.net")
    node.idle_timeout = 30
    node.dwa_timeout = 4
    node.wakeup_interval = 6
    peer = node.add_peer(f"aaa://{name}", "example.net")
    sock_node, sock_peer = socket.socketpair()
    conn = PeerConnection("127.0.0.1", 40000, PEER_RECV, node.interrupt_write)
    conn.state = PEER_CONNECTED
    node._add_peer_connection(conn, sock_node, PEER_TRANSPORT_TCP)
    sent = []
    orig = conn.add_out_msg
    def record(msg):
        sent.append(msg)
        orig(msg)
    conn.add_out_msg = record
    cer = CapabilitiesExchangeRequest()
    cer.header.hop_by_hop_identifier = 1
    cer.header.end_to_end_identifier = 1
    cer.origin_host = name.encode()
    cer.origin_realm = b"example.net"
    cer.host_ip_address = ["127.0.0.1"]
    cer.vendor_id = 1
    cer.product_name = "x"
    cer.auth_application_id = [APP_RELAY]
    conn.add_in_bytes(cer.as_bytes())
    wait_for(lambda: conn.state == PEER_READY, "CER/CEA", conn)
    return node, peer, conn, sent, (sock_node, sock_peer)


def dwrs(sent):
    return [m for m in sent
            if m.header.command_code == 280 and m.header.is_request]


def cleanup(conn, socks):
    conn.close(signal_node=False)
    for s in socks:
        try:
            s.close()
        except OSError:
            pass


violations = []

# ---------------------------------------------------------------- A
node, peer, conn, sent, socks = ready_connection("a.example.net")
vt.elapse(5)
vt.step_wall_clock(-3600)
print("A: connection READY; +5 s: system clock stepped back by 3600 s; "
      "the peer sends nothing any more")
for _ in range(20):                      # 120 s of timer checks
    vt.elapse(6)
    node._check_timers(conn)
print(f"A: after 125 s without a byte received (idle timeout 30 s): "
      f"{len(dwrs(sent))} DWR sent, state "
      f"{node_mod.state_names.get(conn.state)}")
if len(dwrs(sent)) != 1:
    violations.append(
        "A: 'A ready connection on which nothing has been received for "
        "longer than its idle timeout is sent exactly one DWR at the next "
        "timer check' - none was sent in 125 s")
cleanup(conn, socks)

# ---------------------------------------------------------------- B
node, peer, conn, sent, socks = ready_connection("b.example.net")
vt.elapse(31)
node._check_timers(conn)
assert len(dwrs(sent)) == 1 and conn.state == PEER_READY_WAITING_DWA
vt.elapse(1)
vt.step_wall_clock(-3600)
print("B: DWR sent after 31 s idle; +1 s: system clock stepped back by "
      "3600 s; the peer is dead, no DWA comes")
for _ in range(20):
    vt.elapse(6)
    node._check_timers(conn)
print(f"B: 121 s after the DWR (DWA timeout 4 s): state "
      f"{node_mod.state_names.get(conn.state)}, still registered="
      f"{conn.ident in node.connections}, peer.disconnect_reason="
      f"{peer.disconnect_reason}")
if conn.ident in node.connections or \
        peer.disconnect_reason != DISCONNECT_REASON_DWA_TIMEOUT:
    violations.append(
        "B: 'if none arrives within the DWA timeout the connection is "
        "closed with the watchdog-timeout reason' - it is still "
        "READY_WAITING_DWA (offered for routing) two minutes later")
cleanup(conn, socks)

# ---------------------------------------------------------------- C
node, peer, conn, sent, socks = ready_connection("c.example.net")
vt.elapse(31)
node._check_timers(conn)
assert len(dwrs(sent)) == 1 and conn.state == PEER_READY_WAITING_DWA
vt.elapse(1)
vt.step_wall_clock(+3600)
node._check_timers(conn)
print(f"C: DWR sent; 1 s later the system clock is stepped forward by "
      f"3600 s and a timer check runs: still registered="
      f"{conn.ident in node.connections}, peer.disconnect_reason="
      f"{peer.disconnect_reason and hex(peer.disconnect_reason)}")
if conn.ident not in node.connections:
    violations.append(
        "C: the connection was closed with DWA_TIMEOUT one second after "
        "the DWR although the DWA timeout is 4 s ('if none arrives WITHIN "
        "the DWA timeout')")
cleanup(conn, socks)

print()
if violations:
    print("VIOLATIONS:")
    for v in violations:
        print("  -", v)
    sys.exit(1)
print("ok: the timers followed the elapsed time")
sys.exit(0)
