"""C12 / finding 3

A persistent peer is dialled again at once - not after its reconnect wait -
when the loss of its connection is recorded by the connection's reader thread.

`Node.remove_peer_connection` clears `peer.connection` FIRST and stores the
new `peer.last_disconnect` (and the reason) AFTERWARDS.  For most losses the
node's own I/O thread runs it, but a rejected CER (CEA with a result code
other than 2001) is handled on the connection's reader thread
(receive_cea -> close_connection_socket -> remove_peer_connection).  If the
I/O thread runs `_reconnect_peers` between the two stores it sees: no
connection, the time stamp of the PREVIOUS loss (which is at least one
reconnect wait old - otherwise the connection just rejected would not have
been dialled), no DPR reason -> it dials immediately.

The interleaving is forced by a `time.time` stand-in that holds the reader
thread at `peer.last_disconnect = int(time.time())` until the I/O thread has
completed its next round (monkeypatching time: the thread is merely
descheduled between two statements).
"""
import logging
import socket
import sys
import threading
import time

from diameter.message import Message, constants
from diameter.node import Node
from diameter.node.application import SimpleThreadingApplication

logging.basicConfig(level=logging.ERROR)
PEER = "peer.example"
RECONNECT_WAIT = 3


def free_port():
    s = socket.socket()
    s.bind(("127.0.0.1", 0))
    p = s.getsockname()[1]
    s.close()
    return p


def read_msg(sock, timeout=8):
    sock.settimeout(timeout)
    buf = b""
    while len(buf) < 20 or len(buf) < int.from_bytes(buf[1:4], "big"):
        d = sock.recv(4096)
        if not d:
            return None
        buf += d
    return Message.from_bytes(buf[:int.from_bytes(buf[1:4], "big")])


def rejecting_cea(cer):
    a = cer.to_answer()
    a.result_code = constants.E_RESULT_CODE_DIAMETER_TOO_BUSY
    a.origin_host = PEER.encode()
    a.origin_realm = b"example"
    a.host_ip_address = ["127.0.0.1"]
    a.vendor_id = 1
    a.product_name = "fake"
    a.error_message = "come back later"
    return a


real_time = time.time
peer_port = free_port()
listener = socket.socket()
listener.setsockopt(socket.SOL_SOCKET, socket.SO_REUSEADDR, 1)
listener.bind(("127.0.0.1", peer_port))
listener.listen(16)
listener.settimeout(0.2)
dials = []
run = [True]


def serve():
    # a peer that answers every CER with 3004 DIAMETER_TOO_BUSY
    while run[0]:
        try:
            c, _ = listener.accept()
        except socket.timeout:
            continue
        except OSError:
            return
        dials.append(real_time())
        try:
            cer = read_msg(c, 3)
            if cer is not None:
                c.sendall(rejecting_cea(cer).as_bytes())
            time.sleep(0.3)
        except OSError:
            pass
        finally:
            c.close()


threading.Thread(target=serve, daemon=True).start()

node = Node("node.example", "example")
node.wakeup_interval = 0.1
peer = node.add_peer(f"aaa://{PEER}:{peer_port}", "example", ["127.0.0.1"],
                     is_persistent=True)
peer.reconnect_wait = RECONNECT_WAIT
app = SimpleThreadingApplication(4, is_auth_application=True)
node.add_application(app, [peer])

armed = [False]
held = []


def fake_time():
    if (armed[0] and
            sys._getframe(1).f_code.co_name == "remove_peer_connection" and
            threading.current_thread() is not node._connection_thread):
        armed[0] = False
        # `peer.connection = None` has been executed, `peer.last_disconnect`
        # has not been stored yet; let the I/O thread have two rounds
        t0 = real_time()
        while real_time() - t0 < 1.0 and peer.connection is None:
            time.sleep(0.01)
        held.append(real_time() - t0)
    return real_time()


time.time = fake_time

result = 2
try:
    node.start()
    # first dial (at start-up) is rejected: first loss
    end = real_time() + 5
    while real_time() < end and not peer.last_disconnect:
        time.sleep(0.02)
    print(f"1st dial rejected, reason {hex(peer.disconnect_reason)}, "
          f"reconnect_wait = {RECONNECT_WAIT} s")
    armed[0] = True
    # second dial is due RECONNECT_WAIT later, is rejected as well: 2nd loss;
    # a third dial is due another RECONNECT_WAIT after that
    end = real_time() + RECONNECT_WAIT + 4
    while real_time() < end and len(dials) < 3:
        time.sleep(0.02)
    time.sleep(0.3)
    rel = [round(t - dials[0], 2) for t in dials]
    print("dials seen by the peer, seconds after the first one:", rel)
    if held:
        print(f"reader thread was held for {held[0]:.2f} s between "
              f"'peer.connection = None' and 'peer.last_disconnect = now'")
    print(f"property: a persistent peer whose connection is lost is dialled "
          f"again once its reconnect wait ({RECONNECT_WAIT} s) has elapsed")
    if len(dials) >= 3 and dials[2] - dials[1] < RECONNECT_WAIT - 1.5:
        print(f"VIOLATION: dialled again {dials[2] - dials[1]:.2f} s after "
              f"the dial whose CER was rejected")
        result = 1
    else:
        print("ok")
        result = 0
finally:
    time.time = real_time
    run[0] = False
    try:
        node.stop(wait_timeout=1, force=True)
    except Exception as e:
        print("stop:", e)
    for c in list(node.connections.values()):
        c.close(signal_node=False)
    listener.close()

sys.exit(result)
