"""C08 / finding 1

A request handler of a ThreadingApplication / SimpleThreadingApplication that
ends with a BaseException which is not an Exception (sys.exit(), or
asyncio.CancelledError from an asyncio.run() inside the handler) leaves the
request without any answer.  The property demands "5012 when handling fails";
the very same handler in a plain Application is answered 5012 by the node.

Run:  PYTHONPATH=/repo/src /venv/bin/python /repo/_audit3/1/demo.py
exit 1 = violation observed, exit 0 = behaves as the property says
"""
import logging
import socket
import sys
import time

from diameter.message import Message
from diameter.message.commands import CreditControlRequest
from diameter.node import Node
from diameter.node.application import Application, SimpleThreadingApplication
from diameter.node.peer import (PeerConnection, PEER_RECV, PEER_CONNECTED,
                                PEER_READY, PEER_TRANSPORT_TCP)

logging.disable(logging.CRITICAL)

node = Node("node.own.realm", "own.realm")
peer = node.add_peer("aaa://peer1.own.realm")

seen = {"threading": 0, "plain": 0}


def exiting_handler(app, message):
    seen["threading"] += 1
    sys.exit(1)          # a BaseException that is not an Exception


class PlainApp(Application):
    def handle_request(self, message):
        seen["plain"] += 1
        sys.exit(1)


threading_app = SimpleThreadingApplication(
    4, is_auth_application=True, request_handler=exiting_handler)
plain_app = PlainApp(5, is_auth_application=True)
node.add_application(threading_app, [peer])
node.add_application(plain_app, [peer])

# a ready connection of the configured peer, without network traffic
conn = PeerConnection("10.0.0.1", 3868, PEER_RECV, node.interrupt_write)
conn.state = PEER_CONNECTED
conn.node_name = conn.host_identity = peer.node_name
sock = socket.socket()
node._add_peer_connection(conn, sock, PEER_TRANSPORT_TCP)
conn.state = PEER_READY
sent = []
conn.add_out_msg = sent.append


def ccr(app_id: int, ident: int) -> Message:
    m = CreditControlRequest()
    m.session_id = f"peer1.own.realm;1;{ident}"
    m.origin_host = b"peer1.own.realm"
    m.origin_realm = b"own.realm"
    m.destination_realm = b"own.realm"
    m.auth_application_id = app_id
    m.service_context_id = "32251@3gpp.org"
    m.cc_request_type = 4
    m.cc_request_number = 0
    m.header.application_id = app_id
    m.header.hop_by_hop_identifier = ident
    m.header.end_to_end_identifier = ident
    return Message.from_bytes(m.as_bytes())


def answers_for(ident: int) -> list[int]:
    return [Message.from_bytes(a.as_bytes()).result_code for a in list(sent)
            if a.header.hop_by_hop_identifier == ident
            and not a.header.is_request]


try:
    # control: plain Application, handler ends with SystemExit
    node._receive_message(conn, ccr(5, 1001))
    plain_answers = answers_for(1001)

    # ThreadingApplication, the same handler
    node._receive_message(conn, ccr(4, 1002))
    deadline = time.time() + 8
    while time.time() < deadline and not answers_for(1002):
        time.sleep(0.1)
    threading_answers = answers_for(1002)
finally:
    threading_app.stop()
    conn.close(signal_node=False)
    sock.close()

print(f"plain Application      : handler called {seen['plain']}x, "
      f"answers on the wire: {plain_answers}")
print(f"ThreadingApplication   : handler called {seen['threading']}x, "
      f"answers on the wire after 8 s: {threading_answers}")
print("property requires      : '5012 when handling fails' - exactly one "
      "answer 5012 for each of the two requests")

if threading_answers == [5012] and plain_answers == [5012]:
    print("OK")
    sys.exit(0)
print("VIOLATION: the request whose handler failed in the "
      "ThreadingApplication is never answered")
sys.exit(1)
