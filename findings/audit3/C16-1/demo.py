"""C16 / finding 1: the session-id generator cannot be created for every start
timestamp: a start time >= 2**32 (07 Feb 2106) or < 0 raises OverflowError, so
no session id of the form identity;start-time;high32;low32 is handed out and
Node(...) itself cannot be constructed.  The end-to-end generator, its sibling,
masks its start time and accepts every timestamp.

Exit 1: violation observed, exit 0: the library behaves as the property says.
"""
import re
import sys
import time

import diameter.node._helpers as helpers
from diameter.node import Node, SequenceGenerator, SessionGenerator

IDENT = "node1.example.net"
FORM = re.compile(r"^node1\.example\.net;([0-9a-f]{8,});([0-9a-f]{8});([0-9a-f]{8})(;.*)?$")

real_time = time.time
failures = []

START_TIMES = [0, 1, int(real_time()), 2**31, 2**32 - 1,   # accepted today
               2**32, 2**32 + 0x1234, 2**33 + 5, -1]       # the boundary

for ts in START_TIMES:
    helpers.time.time = lambda ts=ts: float(ts)
    try:
        # the sibling generator takes every start timestamp
        e2e = SequenceGenerator(ts)
        assert e2e.sequence >> 20 == ts & 0xfff and 0 < e2e.next_sequence() <= 0xffffffff

        try:
            gen = SessionGenerator(IDENT)
            sid = gen.next_id()
            sid2 = gen.next_id("opt")
        except Exception as e:
            print(f"start time {ts:>11}: SessionGenerator -> {type(e).__name__}: {e}")
            failures.append(ts)
            continue
        m = FORM.match(sid)
        ok = (m is not None and int(m.group(1), 16) & 0xffffffff == ts & 0xffffffff
              and sid != sid2 and FORM.match(sid2) and sid2.endswith(";opt"))
        print(f"start time {ts:>11}: {sid}  {'ok' if ok else 'BAD FORM'}")
        if not ok:
            failures.append(ts)
    finally:
        helpers.time.time = real_time

# the same through the public entry point: the node cannot even be created
helpers.time.time = lambda: float(2**32)
try:
    try:
        n = Node(IDENT, "example.net")
        print("Node() at start time 2**32:", n.session_generator.next_id())
    except Exception as e:
        print(f"Node() at start time 2**32 -> {type(e).__name__}: {e}")
        failures.append("Node")
finally:
    helpers.time.time = real_time

print()
print("property requires: for ALL start timestamps session ids have the form "
      "identity;start-time;high32;low32[;optional...] and are pairwise distinct")
if failures:
    print(f"observed: no session id can be produced for start timestamps {failures}")
    sys.exit(1)
print("observed: every start timestamp yields well-formed, distinct session ids")
sys.exit(0)
