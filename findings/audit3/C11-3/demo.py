"""
C11 / finding 3

Peer.cer_timeout ("Timeout waiting for a CER after receiving a connection
attempt", docs/guide/node.md: "This can also be set individually for each
peer") never takes effect for the situation it exists for.

Node._check_timers looks the peer of a connection up by conn.node_name /
conn.host_identity.  Both are empty on an accepted connection until its CER
has been handled, so while the node WAITS FOR THE CER the lookup finds
nothing and the node default is applied, although the connection comes from
the address that is configured for exactly one peer (Peer.ip_addresses).

  node.cer_timeout = 4, peer.cer_timeout = 30:
      the peer's connection is closed after 5 s   (must be kept for 30 s)
  node.cer_timeout = 30, peer.cer_timeout = 2:
      the peer's connection is still open after 10 s (must be closed after 2)
"""
import socket
import sys
import time as real_time

from diameter.node import Node
from diameter.node import peer as peer_mod
from diameter.node import node as node_mod
from diameter.node.peer import *


class VirtualTime:
    def __init__(self):
        self.now = 1_700_000_000.0

    def time(self):
        return self.now

    def monotonic(self):
        return self.now - 1_600_000_000.0

    def sleep(self, s):
        real_time.sleep(s)


vt = VirtualTime()
peer_mod.time = vt
node_mod.time = vt

PEER_IP = "10.1.2.3"


def accepted_connection(node_cer_timeout, peer_cer_timeout):
    node = Node("node.example.net", "example.net")
    node.cer_timeout = node_cer_timeout
    peer = node.add_peer("aaa://peer.example.net", "example.net",
                         ip_addresses=[PEER_IP])
    peer.cer_timeout = peer_cer_timeout
    # what Node._handle_connections does when the listening socket accepts
    sock_node, sock_peer = socket.socketpair()
    conn = PeerConnection(PEER_IP, 40000, PEER_RECV, node.interrupt_write)
    conn.state = PEER_CONNECTED
    node._add_peer_connection(conn, sock_node, PEER_TRANSPORT_TCP)
    return node, peer, conn, (sock_node, sock_peer)


def cleanup(conn, socks):
    conn.close(signal_node=False)
    for s in socks:
        try:
            s.close()
        except OSError:
            pass


violations = []

# -- the peer has been given more time than the default
node, peer, conn, socks = accepted_connection(4, 30)
closed_at = None
for t in range(1, 41):
    vt.now += 1
    node._check_timers(conn)
    if conn.ident not in node.connections:
        closed_at = t
        break
print(f"node.cer_timeout=4, peer.cer_timeout=30, connection accepted from "
      f"{PEER_IP} (the peer's configured address), no CER yet: "
      f"closed after {closed_at} s")
if closed_at is None or closed_at <= 30:
    violations.append(
        f"connection of the peer closed after {closed_at} s while waiting "
        f"for its CER; its own cer_timeout is 30 s (node default 4 s)")
cleanup(conn, socks)

# -- the peer has been given less time than the default
node, peer, conn, socks = accepted_connection(30, 2)
closed_at = None
for t in range(1, 11):
    vt.now += 1
    node._check_timers(conn)
    if conn.ident not in node.connections:
        closed_at = t
        break
print(f"node.cer_timeout=30, peer.cer_timeout=2, same connection: "
      f"closed after {closed_at} s (checked for 10 s)")
if closed_at is None or closed_at > 3:
    violations.append(
        "connection of the peer still open 10 s after it was accepted "
        "without a CER; its own cer_timeout is 2 s (node default 30 s)")
cleanup(conn, socks)

print("property: 'per-peer timer settings take precedence over the node "
      "defaults' (quantifier: idle/dwa/cer/cea timeout values at node and "
      "peer level, on inbound and outbound connections)")
if violations:
    print("VIOLATION:")
    for v in violations:
        print("  -", v)
    sys.exit(1)
print("ok: the peer's cer_timeout was applied")
sys.exit(0)
