"""
C18 finding 1: a node whose start() failed half-way cannot be stopped.

Node.start() sets `_started = True` first, then binds the listening sockets
one by one, and only at the end starts the node's two threads.  When it raises
in between (one of several addresses cannot be bound; or an SCTP port is
configured and pysctp is not installed - that test comes AFTER the TCP
listeners have been bound), the node is left "started" with listening sockets
open, its applications running (add_application has started their threads) and
its own threads never started.  stop() accepts the call (`_started` is True),
sets `_stopping`, and then dies with RuntimeError("cannot join thread before it
is started") before it closes the listening sockets and before it stops the
applications.  A second stop() is refused ("Node is already stopping"), a second
start() as well ("Cannot start a node twice"): the TCP port stays bound and the
application's non-daemon threads stay alive for the life of the process.

The property requires: "When stop returns every listening and peer socket is
closed and the applications are stopped, and all node and connection worker
threads terminate."

exit 1: violation observed, exit 0: stop() released everything.
"""
import socket
import sys
import threading
import time

from diameter.message import constants
from diameter.node import Node
from diameter.node.application import SimpleThreadingApplication


def free_port() -> int:
    s = socket.socket()
    s.bind(("127.0.0.1", 0))
    p = s.getsockname()[1]
    s.close()
    return p


def port_accepts(ip: str, port: int) -> bool:
    try:
        c = socket.create_connection((ip, port), timeout=1)
    except OSError:
        return False
    c.close()
    return True


def scenario(name: str, make_node) -> list[str]:
    print(f"--- {name}")
    problems = []
    node, port, cleanup = make_node()
    app = SimpleThreadingApplication(
        constants.APP_DIAMETER_CREDIT_CONTROL_APPLICATION,
        is_auth_application=True,
        request_handler=lambda a, m: a.generate_answer(m, 2001))
    peer = node.add_peer("aaa://peer1.example.org", "example.org")
    node.add_application(app, [peer])      # starts the application's threads

    try:
        node.start()
        print("start() succeeded - scenario not applicable")
        node.stop(force=True)
        cleanup()
        return []
    except Exception as e:
        print(f"start() failed as arranged: {e!r}")

    print(f"after the failed start: listening sockets held by the node: "
          f"{[s.getsockname() for s in node.tcp_sockets]}, "
          f"127.0.0.1:{port} accepts connections: "
          f"{port_accepts('127.0.0.1', port)}")

    # what any caller does with a node that failed to start: stop it
    try:
        node.stop(wait_timeout=2)
        print("stop() returned")
    except Exception as e:
        print(f"stop() raised {e!r}")
    try:
        node.stop(force=True)
        print("second stop(force=True) returned")
    except Exception as e:
        print(f"second stop(force=True) raised {e!r}")

    # generous grace period: the application's consumer threads poll their
    # queues with a timeout of 3 (+5) seconds
    deadline = time.time() + 10
    app_threads = [app._recv_queue_consumer, app._resp_queue_consumer]
    while time.time() < deadline and any(t.is_alive() for t in app_threads):
        time.sleep(0.25)

    open_listeners = [s for s in node.tcp_sockets if s.fileno() != -1]
    still_accepting = port_accepts("127.0.0.1", port)
    alive = [t.name for t in app_threads if t.is_alive()]
    node_threads = [t.name for t in (node._connection_thread,
                                     node._stat_collect_thread) if t.is_alive()]
    print(f"observed 10 s after stop(): open listening sockets: "
          f"{len(open_listeners)}, port still accepts connections: "
          f"{still_accepting}, application threads alive: {alive}, "
          f"node threads alive: {node_threads}")
    if open_listeners or still_accepting:
        problems.append(f"{name}: listening socket 127.0.0.1:{port} is "
                        f"still open after stop()")
    if alive:
        problems.append(f"{name}: the application has not been stopped "
                        f"(threads {alive} alive)")
    if node_threads:
        problems.append(f"{name}: node threads alive: {node_threads}")

    # let the demo terminate
    for s in node.tcp_sockets:
        s.close()
    app.stop()
    node._stat_collect_thread.stop()
    cleanup()
    return problems


def port_in_use_on_second_address():
    # the node is to listen on two local addresses; on the second one the
    # port is taken by somebody else
    port = free_port()
    other = socket.socket()
    other.bind(("127.0.0.2", port))
    other.listen(1)
    node = Node("node.example.org", "example.org",
                ip_addresses=["127.0.0.1", "127.0.0.2"], tcp_port=port)
    node.wakeup_interval = 1
    return node, port, other.close


def sctp_port_without_pysctp():
    # TCP and SCTP listeners configured; pysctp is not installed: start()
    # finds that out after it has bound the TCP listeners
    port = free_port()
    node = Node("node.example.org", "example.org",
                ip_addresses=["127.0.0.1"], tcp_port=port, sctp_port=port)
    node.wakeup_interval = 1
    return node, port, lambda: None


problems = []
problems += scenario("port in use on the second of two listen addresses",
                     port_in_use_on_second_address)
problems += scenario("sctp_port configured, pysctp not installed",
                     sctp_port_without_pysctp)

print()
print("required: when stop returns every listening and peer socket is closed "
      "and the applications are stopped, and all node and connection worker "
      "threads terminate")
if problems:
    print("VIOLATION:")
    for p in problems:
        print("  -", p)
    sys.exit(1)
print("no violation observed")
sys.exit(0)
