"""C19 / finding 4

Node.remove_peer_connection() is a documented public method ("should not be
called directly, unless it is absolutely certain that the peer socket is no
longer connected").  Used exactly like that - for a peer host that has died
without closing its TCP connection - it removes the table entries, but it
does not stop the two worker threads of the connection (and merely drops the
socket object it takes out of Node.peer_sockets instead of closing it; the
socket is closed only when its last reference disappears, the I/O loop's local
variables keep the most recent one open): the threads run for the life of the
process, two more for every connection removed this way.
Node.close_connection_socket(), the "safer way" named in the same docstring,
releases everything - which shows what the property expects.
"""
import gc
import logging
import os
import socket
import struct
import sys
import threading
import time
import warnings

from diameter.message import Message, constants
from diameter.message.commands import CapabilitiesExchangeRequest
from diameter.node import Node
from diameter.node.application import SimpleThreadingApplication
from diameter.node.peer import PEER_READY_STATES

logging.basicConfig(level=logging.CRITICAL)
warnings.simplefilter("ignore", ResourceWarning)
HOST = "127.0.0.1"

ls = socket.socket()
ls.bind((HOST, 0))
PORT = ls.getsockname()[1]
ls.close()

node = Node("server.example.net", "example.net", ip_addresses=[HOST],
            tcp_port=PORT)
node.wakeup_interval = 0.2
node.idle_timeout = 3600
peer = node.add_peer("aaa://client.example.net", "example.net")
app = SimpleThreadingApplication(
    constants.APP_DIAMETER_CREDIT_CONTROL_APPLICATION,
    is_auth_application=True)
node.add_application(app, [peer])
node.start()


def recv_msg(s):
    s.settimeout(5)
    buf = b""
    while len(buf) < 20:
        buf += s.recv(4096)
    ln = struct.unpack("!I", buf[:4])[0] & 0xffffff
    while len(buf) < ln:
        buf += s.recv(4096)
    return Message.from_bytes(buf[:ln])


def connect_and_handshake():
    s = socket.create_connection((HOST, PORT))
    cer = CapabilitiesExchangeRequest()
    cer.header.hop_by_hop_identifier = 1
    cer.header.end_to_end_identifier = 1
    cer.origin_host = b"client.example.net"
    cer.origin_realm = b"example.net"
    cer.host_ip_address = [HOST]
    cer.vendor_id = 1
    cer.product_name = "client"
    cer.auth_application_id = [4]
    s.sendall(cer.as_bytes())
    cea = recv_msg(s)
    assert cea.result_code == 2001, cea.result_code
    t0 = time.time()
    while time.time() - t0 < 5:
        c = peer.connection
        if c is not None and c.state in PEER_READY_STATES:
            return s, c
        time.sleep(0.02)
    raise AssertionError("connection did not become ready")


def run(n, how):
    """n connections, each established and then declared dead by `how`."""
    conns, clients = [], []
    for _ in range(n):
        client, conn = connect_and_handshake()
        # the peer host dies here without FIN/RST: nothing arrives any more
        how(conn)
        conns.append(conn)
        clients.append(client)       # kept open: a dead host sends no FIN
        t0 = time.time()
        while peer.connection is not None and time.time() - t0 < 3:
            time.sleep(0.02)
    time.sleep(7)                    # worker threads notice a stop within 5 s
    gc.collect()
    alive = sum(t.is_alive() for c in conns
                for t in (c._read_thread, c._write_thread))
    entries = sum(c.ident in node.connections for c in conns)
    still_open = 0                   # as seen by the other end
    for c in clients:
        c.settimeout(0.3)
        try:
            if c.recv(1) != b"":
                still_open += 1
        except socket.timeout:
            still_open += 1
        except OSError:
            pass                     # reset: closed by the node
        c.close()
    return alive, still_open, entries


base_threads = threading.active_count()
res = {}
for n in (1, 3):
    res[("close_connection_socket", n)] = run(
        n, lambda c: node.close_connection_socket(c))
    res[("remove_peer_connection", n)] = run(
        n, lambda c: node.remove_peer_connection(c))

bad = False
for (how, n), (alive, open_socks, entries) in res.items():
    print(f"{n} connection(s) ended with Node.{how}(): live worker threads "
          f"of these connections afterwards: {alive}; sockets not closed "
          f"(as seen from the other end): {open_socks}; entries left in "
          f"Node.connections: {entries}")
    if alive or open_socks or entries:
        bad = True
print(f"threads in the process: {base_threads} before, "
      f"{threading.active_count()} now")
print("property: the per-connection resources the node allocates (worker "
      "threads, sockets, table entries) are released when the connection "
      "closes ...; the number of live worker threads is independent of the "
      "number of connections")
sys.stdout.flush()
if bad:
    print("VIOLATION: worker threads survive the removal of their "
          "connection and grow with the number of connections")
    sys.stdout.flush()
    os._exit(1)
print("OK")
sys.stdout.flush()
os._exit(0)
