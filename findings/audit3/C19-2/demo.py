"""C19 / finding 2

Requests awaiting a peer's answer are kept in two places: the node's
_app_waiting_answer table and the application's _answer_waiting table (one
WaitingMessage plus one caller blocked in send_request() per request).  When
the connection over which they were sent closes, remove_peer_connection()
sweeps the node's table (so an answer can never be delivered any more) but
leaves the application's entries and the blocked callers alone: they stay
until each caller's own timeout expires - for the whole `timeout` given to
send_request(), however long after the connection has gone.
"""
import logging
import os
import socket
import struct
import sys
import threading
import time

from diameter.message import Message
from diameter.message.commands import CreditControlRequest
from diameter.node import Node
from diameter.node.application import SimpleThreadingApplication

logging.basicConfig(level=logging.CRITICAL)
HOST = "127.0.0.1"
N = 5
TIMEOUT = 40                         # seconds, given to send_request()

srv = socket.socket()
srv.setsockopt(socket.SOL_SOCKET, socket.SO_REUSEADDR, 1)
srv.bind((HOST, 0))
srv.listen(5)
PORT = srv.getsockname()[1]

received = []
close_now = threading.Event()
closed = threading.Event()


def read_messages(s, buf):
    msgs = []
    while len(buf) >= 20:
        ln = struct.unpack("!I", buf[:4])[0] & 0xffffff
        if len(buf) < ln:
            break
        msgs.append(Message.from_bytes(buf[:ln]))
        buf = buf[ln:]
    return msgs, buf


def server():
    c, _ = srv.accept()
    c.settimeout(0.2)
    buf = b""
    while not close_now.is_set():
        try:
            d = c.recv(65536)
        except socket.timeout:
            continue
        if not d:
            break
        buf += d
        msgs, buf = read_messages(c, buf)
        for m in msgs:
            if m.header.command_code == 257:
                cea = m.to_answer()
                cea.origin_host = b"srv.example.net"
                cea.origin_realm = b"example.net"
                cea.result_code = 2001
                cea.host_ip_address = [HOST]
                cea.vendor_id = 1
                cea.product_name = "srv"
                cea.auth_application_id = [4]
                c.sendall(cea.as_bytes())
            else:
                received.append(m)   # a CCR: never answered
    c.close()                        # the peer goes away
    closed.set()


threading.Thread(target=server, daemon=True).start()

node = Node("client.example.net", "example.net")
node.wakeup_interval = 0.2
peer = node.add_peer(f"aaa://srv.example.net:{PORT}", "example.net",
                     ip_addresses=[HOST], is_persistent=True)
peer.reconnect_wait = 3600
app = SimpleThreadingApplication(4, is_auth_application=True)
node.add_application(app, [peer])
node.start()
app.wait_for_ready(10)

outcome = {}


def caller(i):
    ccr = CreditControlRequest()
    ccr.session_id = node.session_generator.next_id()
    ccr.origin_host = b"client.example.net"
    ccr.origin_realm = b"example.net"
    ccr.destination_realm = b"example.net"
    ccr.auth_application_id = 4
    ccr.service_context_id = "demo@example.net"
    ccr.cc_request_type = 1
    ccr.cc_request_number = 0
    t0 = time.time()
    try:
        app.send_request(ccr, timeout=TIMEOUT)
        outcome[i] = ("answer", time.time() - t0)
    except BaseException as e:
        outcome[i] = (type(e).__name__, time.time() - t0)


callers = [threading.Thread(target=caller, args=(i,), daemon=True)
           for i in range(N)]
for t in callers:
    t.start()

t0 = time.time()
while len(received) < N and time.time() - t0 < 10:
    time.sleep(0.05)
assert len(received) == N, f"peer received {len(received)} requests"
print(f"{N} requests sent with send_request(timeout={TIMEOUT}) and received "
      f"by the peer; node._app_waiting_answer: "
      f"{len(node._app_waiting_answer)}, app._answer_waiting: "
      f"{len(app._answer_waiting)}")

close_now.set()                      # the peer closes the connection
closed.wait(5)
t0 = time.time()
while peer.connection is not None and time.time() - t0 < 5:
    time.sleep(0.05)
assert peer.connection is None, "node did not notice the closed connection"
time.sleep(3)

node_left = len(node._app_waiting_answer)
app_left = len(app._answer_waiting)
blocked = sum(t.is_alive() for t in callers)
print(f"3 s after the connection has been closed and removed "
      f"(Node.connections: {len(node.connections)}): "
      f"node._app_waiting_answer: {node_left}, app._answer_waiting: "
      f"{app_left}, callers still blocked in send_request(): {blocked}")
print("property: the per-transaction state (... requests awaiting a peer's "
      "answer ...) is released when the transaction completes, respectively "
      "when the connection closes")
sys.stdout.flush()

code = 1 if (app_left or blocked or node_left) else 0
if code:
    print(f"VIOLATION: {app_left} waiting records and {blocked} blocked "
          f"callers outlive the connection (they stay for the rest of the "
          f"{TIMEOUT} s timeout although no answer can be delivered any "
          f"more: the node has forgotten the requests)")
else:
    print("OK: nothing is retained for the closed connection")
sys.stdout.flush()
os._exit(code)
