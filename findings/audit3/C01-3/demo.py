"""C01 / finding 3: 3GPP-Session-Stop-Indicator (AVP 11, vendor 10415) is typed UTF8String.

3GPP TS 29.061 (16.4.7.2 and the Gi/SGi AVP table 9a): 3GPP-Session-Stop-Indicator,
code 11, is of type OctetString and its only defined value is one octet with all
bits set (0xFF).  0xFF is not valid UTF-8, and the dictionary types the AVP
UTF8String: the one value the specification defines can neither be set nor read,
and a typed CCR that carries it loses the AVP when it is re-encoded.
Exit 1 = violation present, 0 = behaves as the property requires.
"""
import struct
import sys

from diameter.message import Message, constants as C
from diameter.message.avp import Avp
from diameter.message.avp.grouped import PsInformation, ServiceInformation
from diameter.message.commands import CreditControlRequest


def reference(code, vendor, flags, data):
    flags |= 0x80
    return (struct.pack("!IB", code, flags) + struct.pack("!I", 12 + len(data))[1:]
            + struct.pack("!I", vendor) + data + b"\0" * (-len(data) % 4))


bad = []
wire = reference(11, 10415, 0x40, b"\xff")
print("TS 29.061 wire form of 3GPP-Session-Stop-Indicator:", wire.hex())

produced = []
for candidate in (b"\xff", "\xff"):
    try:
        got = Avp.new(C.AVP_TGPP_3GPP_SESSION_STOP_INDICATOR, C.VENDOR_TGPP,
                      value=candidate).as_bytes()
        print(f"  Avp.new(..., value={candidate!r}) -> {got.hex()}")
        produced.append(got)
    except Exception as e:
        print(f"  Avp.new(..., value={candidate!r}) -> {type(e).__name__}: {e}")
if wire not in produced:
    bad.append("the value 0xFF cannot be encoded (bytes are rejected, the str "
               "'\\xff' becomes the two octets c3 bf)")

dec = Avp.from_bytes(wire)
try:
    val = dec.value
    print("  decoding the wire form ->", type(dec).__name__, repr(val))
except Exception as e:
    val = None
    print(f"  decoding the wire form -> {type(dec).__name__}, reading .value raises "
          f"{type(e).__name__}: {e}")
if val not in (b"\xff",):
    bad.append("the conformant AVP cannot be read: .value raises AvpDecodeError")

# consequence in a typed message (a Gy CCR-Terminate as a GGSN sends it)
ccr = CreditControlRequest()
ccr.session_id = "ggsn;1;1"
ccr.origin_host = b"ggsn.example"
ccr.origin_realm = b"example"
ccr.destination_realm = b"ocs.example"
ccr.service_context_id = "32251@3gpp.org"
ccr.cc_request_type = C.E_CC_REQUEST_TYPE_TERMINATION_REQUEST
ccr.cc_request_number = 1
ccr.service_information = ServiceInformation(
    ps_information=PsInformation(tgpp_session_stop_indicator="x"))
try:
    placeholder = ccr.as_bytes()
except Exception:
    # a library that types the AVP OctetString wants bytes
    ccr.service_information.ps_information.tgpp_session_stop_indicator = b"x"
    placeholder = ccr.as_bytes()
received = placeholder.replace(b"x\x00\x00\x00", b"\xff\x00\x00\x00")
assert received != placeholder
msg = Message.from_bytes(received)
again = msg.as_bytes()
print(f"  CCR with the indicator: {len(received)} bytes received, attribute = "
      f"{msg.service_information.ps_information.tgpp_session_stop_indicator!r}, "
      f"{len(again)} bytes when re-encoded")
if len(again) != len(received):
    bad.append(f"a CCR carrying the indicator shrinks from {len(received)} to "
               f"{len(again)} bytes when re-encoded: the AVP is dropped")

print()
print("property requires: 'decoding those bytes yields an AVP of the dictionary's "
      "type with equal code, vendor, flags and value' for every value of the "
      "domain; only 'a value outside the type's domain is rejected'")
if bad:
    print("VIOLATION:")
    for b in bad:
        print("  -", b)
    sys.exit(1)
print("ok")
sys.exit(0)
