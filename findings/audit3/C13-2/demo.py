"""
C13 / finding 2

CER/CEA outcome "no common application" (5010) on an accepted connection of a
CONFIGURED peer: receive_cer names the connection after the peer
(conn.node_name = Origin-Host), answers 5010 and returns - without closing
the connection the way the two other refusals (3010 unknown peer, 4003
election lost) do.  The refused connection stays registered, open and
attributed to the peer, in state CONNECTED, until the *CER* timeout happens to
expire, while Peer.connection is None.

exit 1: violation observed, exit 0: library behaves as the property says.
"""
import socket
import sys
import time

from diameter.message import Message
from diameter.message.commands import CapabilitiesExchangeRequest
from diameter.node import Node
from diameter.node.application import Application
from diameter.node.node import state_names


def free_port():
    s = socket.socket()
    s.bind(("127.0.0.1", 0))
    p = s.getsockname()[1]
    s.close()
    return p


def read_msg(s):
    s.settimeout(5)
    buf = b""
    while len(buf) < 20 or len(buf) < int.from_bytes(buf[1:4], "big"):
        d = s.recv(4096)
        if not d:
            return None
        buf += d
    return Message.from_bytes(buf)


port = free_port()
node = Node("node.realm.net", "realm.net",
            ip_addresses=["127.0.0.1"], tcp_port=port)
# all timers as shipped: cer_timeout 4 s, wakeup_interval 6 s
peer_a = node.add_peer("aaa://a.realm.net", "realm.net")
app = Application(4, is_auth_application=True)
node.add_application(app, [peer_a])
node.start()

violation = False
try:
    s = socket.create_connection(("127.0.0.1", port))
    cer = CapabilitiesExchangeRequest()
    cer.header.hop_by_hop_identifier = 1
    cer.header.end_to_end_identifier = 1
    cer.origin_host = b"a.realm.net"
    cer.origin_realm = b"realm.net"
    cer.host_ip_address = "127.0.0.1"
    cer.vendor_id = 1
    cer.product_name = "peer"
    cer.auth_application_id = [16777238]        # Gx only; the node has 4
    t0 = time.time()
    s.sendall(cer.as_bytes())
    cea = read_msg(s)
    print(f"CEA result code: {cea.result_code} (5010 = no common application)")

    # quiescent point: the CEA has been written, every queue is empty,
    # no timer is due
    time.sleep(2.0)
    mine = [c for c in node.connections.values()
            if c.node_name == peer_a.node_name]
    s.settimeout(0.2)
    try:
        closed_by_node = s.recv(10) == b""
    except socket.timeout:
        closed_by_node = False
    except OSError:
        closed_by_node = True
    print(f"2 s after the refusal: Peer('a.realm.net').connection = "
          f"{peer_a.connection}")
    for c in mine:
        print(f"  Node.connections[{c.ident}]: node_name={c.node_name!r} "
              f"state={state_names[c.state]} "
              f"in peer_sockets={c.ident in node.peer_sockets} "
              f"in socket_peers={node.socket_peers.get(c.socket_fileno) is c} "
              f"in _half_ready_connections="
              f"{c.ident in node._half_ready_connections}")
    print(f"  transport closed by the node: {closed_by_node}")
    if mine and peer_a.connection is None:
        violation = True
        # for information: how long does it stay?
        while mine[0].ident in node.connections and time.time() - t0 < 20:
            time.sleep(0.2)
        print(f"  the refused connection was finally removed after "
              f"{time.time() - t0:.1f} s (by the CER timeout: 'exceeded CER "
              f"timeout')")
finally:
    node.stop(force=True)

print()
print("property requires: a peer's connection attribute references a live "
      "connection of that peer exactly when one exists - a refused "
      "connection must either be the peer's connection or be gone (closed, "
      "in none of the tables), as after the refusals 3010 and 4003")
if violation:
    print("VIOLATION: a live, registered connection named after the "
          "configured peer exists while Peer.connection is None")
    sys.exit(1)
print("no violation observed")
sys.exit(0)
