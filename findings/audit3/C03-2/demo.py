"""
C03 / finding 2: the Cx authentication attributes denote RFC 4740 AVPs instead
of the 3GPP TS 29.229 AVPs the classes are documented to represent.

`SipAuthDataItem` documents itself as '"SIP-Auth-Data-Item" (612) grouped AVP,
3GPP TS 29.229'. In TS 29.229 the Cx commands MAR/MAA (303) carry
    SIP-Number-Auth-Items   607 / 10415  Unsigned32
    SIP-Auth-Data-Item      612 / 10415  Grouped
      SIP-Item-Number         613 / 10415  Unsigned32
      SIP-Authentication-Scheme 608 / 10415 UTF8String
      SIP-Authenticate        609 / 10415
      SIP-Authorization       610 / 10415
      Confidentiality-Key 625, Integrity-Key 626 ...
and the dictionary knows every one of them (607, 608, 612, 613 under the
names "3GPP-SIP-..."). The typed classes use 609/610/611/625/626/635 of vendor
10415 for the other members, but define
    sip_number_auth_items     -> 382 / 0   (RFC 4740)
    sip_auth_data_item        -> 376 / 0   (RFC 4740)
    sip_item_number           -> 378 / 0   (RFC 4740)
    sip_authentication_scheme -> 377 / 0   (RFC 4740, Enumerated)

Exit 1 when the defect is present, 0 otherwise.
"""
import sys

from diameter.message import Message, Avp
from diameter.message.constants import *
from diameter.message.commands import MultimediaAuthAnswer, MultimediaAuthRequest
from diameter.message.commands.multimedia_auth import SipAuthDataItem
from diameter.message.avp.grouped import VendorSpecificApplicationId

failed = []

# --- A: an MAA the way an HSS sends it (TS 29.229 6.1.8) --------------------
wire = MultimediaAuthAnswer()
wire.header.application_id = APP_3GPP_CX
wire.session_id = "scscf.ims.example;1;1"
wire.vendor_specific_application_id = VendorSpecificApplicationId(
    vendor_id=VENDOR_TGPP, auth_application_id=APP_3GPP_CX)
wire.result_code = E_RESULT_CODE_DIAMETER_SUCCESS
wire.auth_session_state = E_AUTH_SESSION_STATE_NO_STATE_MAINTAINED
wire.origin_host = b"hss.ims.example"
wire.origin_realm = b"ims.example"
wire.public_identity = "sip:user@ims.example"
wire.append_avp(Avp.new(AVP_TGPP_3GPP_SIP_NUMBER_AUTH_ITEMS, VENDOR_TGPP, value=1))
wire.append_avp(Avp.new(AVP_TGPP_3GPP_SIP_AUTH_DATA_ITEM, VENDOR_TGPP, value=[
    Avp.new(AVP_TGPP_3GPP_SIP_ITEM_NUMBER, VENDOR_TGPP, value=1),
    Avp.new(AVP_TGPP_3GPP_SIP_AUTHENTICATION_SCHEME, VENDOR_TGPP, value="Digest-AKAv1-MD5"),
    Avp.new(AVP_TGPP_3GPP_SIP_AUTHENTICATE, VENDOR_TGPP, value=b"R" * 16 + b"A" * 16),
    Avp.new(AVP_TGPP_3GPP_SIP_AUTHORIZATION, VENDOR_TGPP, value=b"X" * 8),
    Avp.new(AVP_TGPP_CONFIDENTIALITY_KEY, VENDOR_TGPP, value=b"C" * 16),
    Avp.new(AVP_TGPP_INTEGRITY_KEY, VENDOR_TGPP, value=b"I" * 16),
]))
maa = Message.from_bytes(wire.as_bytes())
assert isinstance(maa, MultimediaAuthAnswer)
print("A: received MAA with SIP-Number-Auth-Items(607/10415)=1 and one "
      "SIP-Auth-Data-Item(612/10415)")
print("   maa.sip_number_auth_items =", maa.sip_number_auth_items)
print("   maa.sip_auth_data_item    =", maa.sip_auth_data_item)
if maa.sip_number_auth_items != 1:
    failed.append("decode sip_number_auth_items")
if not (len(maa.sip_auth_data_item) == 1
        and maa.sip_auth_data_item[0].sip_authenticate == b"R" * 16 + b"A" * 16
        and maa.sip_auth_data_item[0].sip_item_number == 1):
    failed.append("decode sip_auth_data_item")
if failed:
    print("   VIOLATION: the attributes that denote SIP-Number-Auth-Items and "
          "SIP-Auth-Data-Item of the Cx MAA stay unset; the property requires "
          "1 and one SipAuthDataItem with the authentication vector")

# --- B: an MAR built from attributes ---------------------------------------
mar = MultimediaAuthRequest()
mar.sip_number_auth_items = 1
mar.sip_auth_data_item = SipAuthDataItem(sip_item_number=1,
                                         sip_authenticate=b"\x00")
got = []
for a in Message.from_bytes(mar.as_bytes(), plain_msg=True).avps:
    if a.name.endswith("SIP-Number-Auth-Items") or a.name.endswith("SIP-Auth-Data-Item"):
        got.append((a.code, a.vendor_id))
        if a.name.endswith("SIP-Auth-Data-Item"):
            got += [("member", m.code, m.vendor_id) for m in a.value]
print("B: MAR(sip_number_auth_items=1, sip_auth_data_item=SipAuthDataItem("
      "sip_item_number=1, sip_authenticate=..)) is encoded with:", got)
want = [(612, 10415), ("member", 613, 10415), ("member", 609, 10415), (607, 10415)]
if sorted(map(str, got)) != sorted(map(str, want)):
    failed.append("encode")
    print("   VIOLATION: the property requires each AVP to bear the code and "
          "vendor of the AVP its attribute denotes, i.e.", want)

if failed:
    print("RESULT: violated:", failed)
    sys.exit(1)
print("RESULT: ok")
sys.exit(0)
