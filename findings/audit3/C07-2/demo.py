"""
C07 / finding 2: an answer is transmitted on a connection that never sent the
request.

Application.send_request documents what it does with a message that is not a
request ("If the sent message was not a request, returns `None` immediately
without waiting"), i.e. answers may be handed to it.  The code has no such
branch: the answer is routed like a request - by realm, application and load
balancing (route_request) - instead of to the connection its request arrived
on, and it is written to whatever connection that selects.

Two configured peers complete their capabilities exchange.  peer0 sends a CCR;
the request handler builds the answer with generate_answer() and submits it
with send_request().  The CCA is written to peer1's connection, which never
sent a request with these identifiers; peer0 gets nothing.
"""
import logging
import sys
import threading
import time

from diameter.message import Message
from diameter.message.commands import (CapabilitiesExchangeRequest,
                                       CreditControlRequest)
from diameter.message.constants import *
from diameter.node import Node
from diameter.node.application import SimpleThreadingApplication
from diameter.node.peer import (PeerConnection, PEER_RECV, PEER_CONNECTED,
                                PEER_TRANSPORT_TCP, PEER_READY)

logging.disable(logging.CRITICAL)


class FakeSocket:
    _n = 4000

    def __init__(self):
        FakeSocket._n += 1
        self.n = FakeSocket._n

    def fileno(self): return self.n
    def close(self): pass
    def setsockopt(self, *a): pass


handler_result = {}
handler_done = threading.Event()


def handle_request(app, message):
    answer = app.generate_answer(
        message, result_code=E_RESULT_CODE_DIAMETER_SUCCESS)
    answer.cc_request_type = message.cc_request_type
    answer.cc_request_number = message.cc_request_number
    started = time.time()
    try:
        # documented: "If the sent message was not a request, returns `None`
        # immediately without waiting."
        handler_result["returned"] = app.send_request(answer, timeout=2)
    except Exception as e:
        handler_result["raised"] = repr(e)
    handler_result["took"] = time.time() - started
    handler_done.set()
    return None


node = Node("node.local.realm", "local.realm")
peers = [node.add_peer(f"aaa://peer{i}.local.realm", "local.realm")
         for i in range(2)]
app = SimpleThreadingApplication(APP_DIAMETER_CREDIT_CONTROL_APPLICATION,
                                 is_auth_application=True,
                                 request_handler=handle_request)
node.add_application(app, peers)


class Link:
    """one inbound connection with what was read from / written to it"""
    def __init__(self, host):
        self.host = host
        self.read = []
        self.written = []
        self.lock = threading.Lock()
        self.conn = PeerConnection("127.0.0.1", 3868, PEER_RECV,
                                   node.interrupt_write)
        self.conn.state = PEER_CONNECTED
        self.conn.add_out_msg = self.transmit
        node._add_peer_connection(self.conn, FakeSocket(), PEER_TRANSPORT_TCP)

    def transmit(self, msg):
        data = msg.as_bytes()
        with self.lock:
            self.written.append(Message.from_bytes(data, plain_msg=True))

    def send(self, msg):
        self.read.append(msg)
        self.conn.add_in_bytes(msg.as_bytes())

    def cer(self, hbh):
        cer = CapabilitiesExchangeRequest()
        cer.header.hop_by_hop_identifier = hbh
        cer.header.end_to_end_identifier = 1000 + hbh
        cer.origin_host = self.host.encode()
        cer.origin_realm = b"local.realm"
        cer.host_ip_address = ["127.0.0.1"]
        cer.vendor_id = 1
        cer.product_name = "peer"
        cer.auth_application_id = [APP_DIAMETER_CREDIT_CONTROL_APPLICATION]
        self.send(cer)
        deadline = time.time() + 10
        while self.conn.state != PEER_READY and time.time() < deadline:
            time.sleep(0.01)
        assert self.conn.state == PEER_READY


links = [Link("peer0.local.realm"), Link("peer1.local.realm")]
links[0].cer(1)
links[1].cer(2)

ccr = CreditControlRequest()
ccr.header.application_id = APP_DIAMETER_CREDIT_CONTROL_APPLICATION
ccr.header.hop_by_hop_identifier = 7
ccr.header.end_to_end_identifier = 5005
ccr.session_id = "peer0.local.realm;1;1"
ccr.origin_host = b"peer0.local.realm"
ccr.origin_realm = b"local.realm"
ccr.destination_realm = b"local.realm"
ccr.auth_application_id = APP_DIAMETER_CREDIT_CONTROL_APPLICATION
ccr.service_context_id = "demo@local.realm"
ccr.cc_request_type = E_CC_REQUEST_TYPE_EVENT_REQUEST
ccr.cc_request_number = 0
links[0].send(ccr)

handler_done.wait(20)
time.sleep(0.3)

violation = False
for i, link in enumerate(links):
    requests = [(m.header.command_code, m.header.application_id,
                 m.header.hop_by_hop_identifier,
                 m.header.end_to_end_identifier) for m in link.read]
    print(f"connection {i} ({link.host}): requests read from it: {requests}")
    unanswered = list(requests)
    with link.lock:
        out = list(link.written)
    for m in out:
        if m.header.is_request:
            continue
        key = (m.header.command_code, m.header.application_id,
               m.header.hop_by_hop_identifier, m.header.end_to_end_identifier)
        if key in unanswered:
            unanswered.remove(key)
            print(f"   answer {key} written: answers a request of this "
                  f"connection")
        else:
            violation = True
            print(f"   answer {key} written: NO request with these "
                  f"identifiers was ever received on this connection")
    for key in unanswered:
        print(f"   request {key} was never answered on this connection")

print(f"send_request(answer): {handler_result}")
print("required: 'Every answer the node transmits ... answers exactly one "
      "request previously received on that same connection'")

for link in links:
    link.conn.close(signal_node=False)
app._recv_queue_consumer.stop()
app._resp_queue_consumer.stop()
sys.exit(1 if violation else 0)
