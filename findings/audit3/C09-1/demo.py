"""C09 / finding 1

An application's answer is refused with NotRoutable because the requester's
connection is no longer ready (DISCONNECTING) - and then an answer for that
very request (5012, built by the error handler of Node._receive_message) is
transmitted on that connection all the same.

Scenario A: the node is being stopped (our DPR is out) while the handler of a
            plain Application is still working on the peer's request.
Scenario B: the peer sends DPR and, in the same segment, one more request.

In both the handler does what the documentation of Application.handle_request
describes: it builds the answer and calls self.send_answer(); the NotRoutable
error is not swallowed by the handler.

exit 1 = an answer for the request was transmitted after NotRoutable
exit 0 = nothing was transmitted for the request
"""
import socket
import sys
import threading
import time
import logging

from diameter.message import Message
from diameter.message.commands import (
    CapabilitiesExchangeRequest, CreditControlRequest, DisconnectPeerRequest,
    DisconnectPeerAnswer)
from diameter.node import Node, NotRoutable
from diameter.node.application import Application
from diameter.node.peer import PEER_DISCONNECTING

logging.disable(logging.CRITICAL)


def free_port():
    s = socket.socket()
    s.bind(("127.0.0.1", 0))
    p = s.getsockname()[1]
    s.close()
    return p


def cer(host):
    m = CapabilitiesExchangeRequest()
    m.header.hop_by_hop_identifier = 1
    m.header.end_to_end_identifier = 1
    m.origin_host = host.encode()
    m.origin_realm = b"realm"
    m.host_ip_address = ["127.0.0.1"]
    m.vendor_id = 1
    m.product_name = "peer"
    m.auth_application_id = [4]
    return m.as_bytes()


def ccr(host, hbh, e2e):
    m = CreditControlRequest()
    m.header.application_id = 4
    m.header.hop_by_hop_identifier = hbh
    m.header.end_to_end_identifier = e2e
    m.session_id = "sess;1"
    m.origin_host = host.encode()
    m.origin_realm = b"realm"
    m.destination_realm = b"realm"
    m.auth_application_id = 4
    m.service_context_id = "ctx"
    m.cc_request_type = 1
    m.cc_request_number = 0
    return m.as_bytes()


def dpr(host, hbh, e2e):
    m = DisconnectPeerRequest()
    m.header.hop_by_hop_identifier = hbh
    m.header.end_to_end_identifier = e2e
    m.origin_host = host.encode()
    m.origin_realm = b"realm"
    m.disconnect_cause = 0
    return m.as_bytes()


class FakePeer:
    """A peer made of a plain TCP socket; records every message it is sent."""
    def __init__(self, port, host):
        self.host = host
        self.s = socket.create_connection(("127.0.0.1", port))
        self.s.settimeout(0.1)
        self.buf = b""
        self.msgs = []

    def send(self, b):
        self.s.sendall(b)

    def pump(self, dur, until=None):
        end = time.time() + dur
        while time.time() < end:
            try:
                d = self.s.recv(65536)
                if not d:
                    break
                self.buf += d
            except socket.timeout:
                pass
            except OSError:
                break
            while len(self.buf) >= 20:
                ln = int.from_bytes(self.buf[1:4], "big")
                if len(self.buf) < ln:
                    break
                self.msgs.append(Message.from_bytes(self.buf[:ln]))
                self.buf = self.buf[ln:]
            if until and any(until(m) for m in self.msgs):
                return True
        return False

    def handshake(self):
        self.send(cer(self.host))
        ok = self.pump(3, lambda m: m.header.command_code == 257)
        assert ok and self.msgs[-1].result_code == 2001, "no CEA"
        self.msgs.clear()


def describe(m):
    return (f"{'request' if m.header.is_request else 'answer'} "
            f"cmd={m.header.command_code} "
            f"hbh={m.header.hop_by_hop_identifier} "
            f"e2e={m.header.end_to_end_identifier} "
            f"result_code={getattr(m, 'result_code', None)}")


class App(Application):
    def __init__(self):
        super().__init__(4, is_auth_application=True)
        self.entered = threading.Event()
        self.go = threading.Event()
        self.go.set()
        self.submission_errors = []

    def handle_request(self, message):
        self.entered.set()
        self.go.wait(20)
        answer = self.generate_answer(message, result_code=2001)
        answer.cc_request_type = message.cc_request_type
        answer.cc_request_number = message.cc_request_number
        try:
            self.send_answer(answer)
        except Exception as e:
            self.submission_errors.append(e)
            raise          # not swallowed: the handler simply does not catch it


def make_node():
    port = free_port()
    node = Node("srv.realm", "realm", ip_addresses=["127.0.0.1"],
                tcp_port=port)
    node.wakeup_interval = 1
    peer = node.add_peer("aaa://p1.realm", "realm")
    app = App()
    node.add_application(app, [peer])
    node.start()
    return node, peer, app, port


violations = []

# ------------------------------------------------------------------ A
print("Scenario A: node.stop() while the handler is working on request "
      "hbh=7 e2e=77")
node, peer, app, port = make_node()
fp = FakePeer(port, "p1.realm")
fp.handshake()
app.go.clear()
fp.send(ccr("p1.realm", 7, 77))
assert app.entered.wait(5), "request not delivered"
stopper = threading.Thread(target=node.stop, kwargs={"wait_timeout": 6})
stopper.start()
got_dpr = fp.pump(5, lambda m: m.header.command_code == 282 and
                  m.header.is_request)
assert got_dpr, "node did not send its DPR"
conn = peer.connection
print(f"  peer received the node's DPR; connection state = {hex(conn.state)} "
      f"(DISCONNECTING = {hex(PEER_DISCONNECTING)})")
the_dpr = [m for m in fp.msgs if m.header.command_code == 282][0]
fp.msgs.clear()
app.go.set()                         # the handler now submits its answer
fp.pump(1.5)
print(f"  Application.send_answer raised: "
      f"{[type(e).__name__ for e in app.submission_errors]}")
sent_a = [m for m in fp.msgs if m.header.command_code == 272]
for m in fp.msgs:
    print(f"  transmitted to the peer after the DPR: {describe(m)}")
if not fp.msgs:
    print("  nothing transmitted to the peer after the DPR")
if (app.submission_errors and
        isinstance(app.submission_errors[0], NotRoutable) and sent_a):
    violations.append("A")
# let the node finish: answer the DPR and hang up
dpa = DisconnectPeerAnswer()
dpa.header.hop_by_hop_identifier = the_dpr.header.hop_by_hop_identifier
dpa.header.end_to_end_identifier = the_dpr.header.end_to_end_identifier
dpa.origin_host = b"p1.realm"
dpa.origin_realm = b"realm"
dpa.result_code = 2001
try:
    fp.send(dpa.as_bytes())
except OSError:
    pass
fp.pump(0.5)
fp.s.close()
stopper.join(20)

# ------------------------------------------------------------------ B
print("Scenario B: the peer sends DPR and request hbh=9 e2e=99 in one segment")
node, peer, app, port = make_node()
fp = FakePeer(port, "p1.realm")
fp.handshake()
fp.send(dpr("p1.realm", 8, 88) + ccr("p1.realm", 9, 99))
fp.pump(1.5)
print(f"  Application.send_answer raised: "
      f"{[type(e).__name__ for e in app.submission_errors]}")
for m in fp.msgs:
    print(f"  transmitted to the peer: {describe(m)}")
sent_b = [m for m in fp.msgs if m.header.command_code == 272]
if (app.submission_errors and
        isinstance(app.submission_errors[0], NotRoutable) and sent_b):
    violations.append("B")
fp.s.close()
node.stop(wait_timeout=5)

print()
print("REQUIRED (C09): 'if that connection has closed or is no longer ready "
      "the submission fails with the not-routable error and nothing is "
      "transmitted to any peer'")
if violations:
    print(f"OBSERVED: scenario(s) {violations}: the submission failed with "
          f"NotRoutable, and an answer for the same request (Credit-Control, "
          f"same hop-by-hop/end-to-end identifiers, Result-Code 5012) was "
          f"transmitted on the connection that is no longer ready")
    sys.exit(1)
print("OBSERVED: nothing was transmitted for the refused answer")
sys.exit(0)
