import logging
import socket
import sys
import time

from diameter.message import Message, MessageHeader
from diameter.message.commands import CreditControlRequest
from diameter.node import Node
from diameter.node.application import Application
from diameter.node.peer import (PeerConnection, PEER_RECV, PEER_READY,
                                PEER_TRANSPORT_TCP)

logging.disable(logging.CRITICAL)


class App(Application):
    """Answers every request 2001 and remembers what it was given."""
    def __init__(self):
        super().__init__(4, is_auth_application=True)
        self.seen = []

    def handle_request(self, message):
        self.seen.append(message)
        self.send_answer(self.generate_answer(message, result_code=2001))


def make_node(window):
    node = Node("server.example", "example")
    node.retransmit_queue_size = window
    peer = node.add_peer("aaa://relay.example", "example")
    app = App()
    node.add_application(app, [peer])
    return node, app


def make_conn(node):
    """A READY inbound connection of the configured peer, on a socketpair;
    the node's I/O thread is not started, the connection's own reader and
    writer threads do the work."""
    a, b = socket.socketpair()
    conn = PeerConnection("127.0.0.1", 3868, PEER_RECV, node.interrupt_write)
    conn.node_name = "relay.example"
    conn.host_identity = "relay.example"
    conn.state = PEER_READY
    node._add_peer_connection(conn, a, PEER_TRANSPORT_TCP)
    conn._keep = (a, b)
    return conn


def ccr(e2e, hbh, origin, t=False, sid="s;1"):
    m = CreditControlRequest()
    m.header.application_id = 4
    m.header.hop_by_hop_identifier = hbh
    m.header.end_to_end_identifier = e2e
    m.header.is_retransmit = t
    m.session_id = sid
    m.origin_host = origin
    m.origin_realm = b"example"
    m.destination_realm = b"example"
    m.auth_application_id = 4
    m.service_context_id = "ctx"
    m.cc_request_type = 1
    m.cc_request_number = 0
    return m


def exchange(conn, data, timeout=30.0, settle=0.5):
    """Feed bytes as if read from the socket, wait until the connection has
    nothing left to read or write, return the messages it put on the wire."""
    for i in range(0, len(data), 1 << 20):
        conn.add_in_bytes(data[i:i + (1 << 20)])
    end = time.time() + timeout
    quiet = 0
    while time.time() < end and quiet * 0.03 < settle:
        idle = (conn._read_buffer_queue.empty() and
                conn._write_msg_queue.unfinished_tasks == 0)
        quiet = quiet + 1 if idle else 0
        time.sleep(0.03)
    with conn.write_lock:
        buf = conn._write_buffer
        conn._write_buffer = b""
    out = []
    while buf:
        hdr = MessageHeader.from_bytes(buf)
        out.append(Message.from_bytes(buf[:hdr.length]))
        buf = buf[hdr.length:]
    return out


def result_codes(msgs):
    return [a.value for m in msgs for a in m.avps
            if a.code == 268 and not a.vendor_id]


def main():
    node, app = make_node(window=4)
    conn = make_conn(node)
    try:
        first = result_codes(exchange(
            conn, ccr(5, 101, b"client.example").as_bytes()))
        print(f"request e2e 5 of Origin-Host client.example: answers {first}, "
              f"delivered {len(app.seen)} time(s)")

        # control: the byte-identical spelling is recognised
        before = len(app.seen)
        same = result_codes(exchange(
            conn, ccr(5, 102, b"client.example", t=True).as_bytes()))
        same_delivered = len(app.seen) - before

        # the same host, spelled the way its own configuration may spell it
        before = len(app.seen)
        other = result_codes(exchange(
            conn, ccr(5, 103, b"Client.Example", t=True).as_bytes()))
        other_delivered = len(app.seen) - before

        print(f"T-flagged repeat, Origin-Host client.example: answers {same}, "
              f"delivered {same_delivered} time(s)")
        print(f"T-flagged repeat, Origin-Host Client.Example: answers {other}, "
              f"delivered {other_delivered} time(s)")
        print(f"windows kept by the node: {dict(node._sent_answers)}")
        print("required: Diameter identities are host names and compare "
              "case-insensitively (the node itself accepts a CER of "
              "Client.Example as its configured peer client.example): the "
              "origin host and end-to-end identifier equal those of an "
              "answered request, so the repeat is answered 5012 and not "
              "delivered again")
        ok = (same == [5012] and same_delivered == 0 and
              other == [5012] and other_delivered == 0)
        print("PROPERTY HOLDS" if ok else "PROPERTY VIOLATED")
        return 0 if ok else 1
    finally:
        conn.close(signal_node=False)


if __name__ == "__main__":
    sys.exit(main())
