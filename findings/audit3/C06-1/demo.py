"""C06 / finding 1: a CER that carries the T flag and an end-to-end identifier
the node has answered before (for that Origin-Host) is not handled as a CER at
all: Node._receive_message rejects it as a "duplicate" with a bare 5012 answer
before receive_cer runs.  A known peer that shares an application therefore
does not get its 2001 CEA and the connection never becomes ready; an unknown
peer does not get 3010 and the connection is not closed.

Run:  PYTHONPATH=/repo/src /venv/bin/python demo.py
exit 1 = violation observed (current code), exit 0 = behaves as the property says
"""
import logging
import sys
import time

from diameter.message import Message
from diameter.message.commands import CapabilitiesExchangeRequest
from diameter.node import Node
from diameter.node.application import Application
from diameter.node.peer import (PeerConnection, PEER_RECV, PEER_CONNECTED,
                                PEER_READY, PEER_CLOSING, PEER_CLOSED,
                                PEER_TRANSPORT_TCP,
                                DISCONNECT_REASON_GONE_AWAY)
from diameter.node.node import state_names

logging.disable(logging.CRITICAL)


class FakeSock:
    n = 1000

    def __init__(self):
        FakeSock.n += 1
        self._fd = FakeSock.n

    def fileno(self): return self._fd
    def close(self): pass
    def setsockopt(self, *a): pass


class App(Application):
    def handle_request(self, message): pass


def inbound(node):
    """what Node._handle_connections does for an accepted TCP connection"""
    conn = PeerConnection("127.0.0.9", 5555, PEER_RECV,
                          interrupt_fileno=node.interrupt_write)
    conn.state = PEER_CONNECTED
    node._add_peer_connection(conn, FakeSock(), PEER_TRANSPORT_TCP)
    return conn


def cer(origin_host, e2e, retransmit):
    m = CapabilitiesExchangeRequest()
    m.header.hop_by_hop_identifier = 11
    m.header.end_to_end_identifier = e2e
    m.header.is_retransmit = retransmit
    m.origin_host = origin_host
    m.origin_realm = b"local.realm"
    m.host_ip_address = ["127.0.0.9"]
    m.vendor_id = 1
    m.product_name = "peer"
    m.auth_application_id = [4]
    return m.as_bytes()


def written(conn):
    """wait for reader + writer thread, return what the node put on the wire"""
    deadline = time.time() + 5
    while time.time() < deadline:
        if (conn._read_buffer_queue.empty() and
                conn._write_msg_queue.unfinished_tasks == 0):
            time.sleep(0.2)
            if (conn._read_buffer_queue.empty() and
                    conn._write_msg_queue.unfinished_tasks == 0):
                break
        time.sleep(0.02)
    out, buf = [], conn.write_buffer
    while buf:
        ln = int.from_bytes(buf[1:4], "big")
        out.append(Message.from_bytes(buf[:ln]))
        buf = buf[ln:]
    return out


def describe(msgs):
    return [(m.name, "R" if m.header.is_request else "A", m.result_code,
             m.host_ip_address, m.vendor_id, m.product_name,
             m.auth_application_id) for m in msgs]


node = Node("node.local.realm", "local.realm",
            ip_addresses=["127.0.0.1"], tcp_port=3868)
peer = node.add_peer("aaa://peer1.local.realm")
app = App(4, is_auth_application=True)
node.add_application(app, [peer])

conns = []
violations = []
try:
    # --- known peer -------------------------------------------------------
    c1 = inbound(node); conns.append(c1)
    c1.add_in_bytes(cer(b"peer1.local.realm", e2e=77, retransmit=False))
    out = written(c1)
    print("1st connection, CER e2e=77:", describe(out), state_names[c1.state])
    assert out and out[0].result_code == 2001 and c1.state == PEER_READY

    # the transport connection is lost (e.g. before the CEA reached the peer)
    node.close_connection_socket(c1, DISCONNECT_REASON_GONE_AWAY)

    # the peer reconnects and repeats its CER, flagged as a possible
    # retransmission (T) under the same end-to-end identifier
    c2 = inbound(node); conns.append(c2)
    c2.add_in_bytes(cer(b"peer1.local.realm", e2e=77, retransmit=True))
    out = written(c2)
    print("2nd connection, CER e2e=77 with T flag:", describe(out),
          state_names[c2.state], "Peer.connection is c2:", peer.connection is c2,
          "app ready:", app.is_ready.is_set())
    ok = (len(out) == 1 and out[0].result_code == 2001 and
          out[0].host_ip_address and out[0].vendor_id == node.vendor_id and
          out[0].product_name == node.product_name and
          out[0].auth_application_id == [4] and
          c2.state == PEER_READY and peer.connection is c2)
    if not ok:
        violations.append(
            "known peer sharing application 4: expected a CEA 2001 carrying "
            "addresses/vendor/product/application ids and a READY connection")

    # --- unknown peer -----------------------------------------------------
    c3 = inbound(node); conns.append(c3)
    c3.add_in_bytes(cer(b"stranger.local.realm", e2e=500, retransmit=False))
    out = written(c3)
    print("3rd connection, unknown peer, CER e2e=500:", describe(out),
          state_names[c3.state])
    assert out[0].result_code == 3010 and c3.state == PEER_CLOSING
    node.close_connection_socket(c3)

    c4 = inbound(node); conns.append(c4)
    c4.add_in_bytes(cer(b"stranger.local.realm", e2e=500, retransmit=True))
    out = written(c4)
    print("4th connection, unknown peer, CER e2e=500 with T flag:",
          describe(out), state_names[c4.state])
    if not (len(out) == 1 and out[0].result_code == 3010 and
            c4.state in (PEER_CLOSING, PEER_CLOSED)):
        violations.append(
            "unknown peer: expected a CEA 3010 followed by closing")
finally:
    for c in conns:
        c.close(signal_node=False)

print()
print("property: 'An inbound CER is answered by a CEA carrying the node's "
      "identity, addresses, vendor, product and application ids with result "
      "2001 and the connection becomes ready when the peer is known and "
      "shares an application ..., with 3010 followed by closing when the "
      "peer is unknown'")
if violations:
    for v in violations:
        print("VIOLATION:", v)
    sys.exit(1)
print("no violation")
sys.exit(0)
