"""C01 / finding 4: unsigned 32-bit counters are typed (signed) Integer32.

Acct-Input-Packets (47), Acct-Output-Packets (48), Acct-Input-Gigawords (52) and
Acct-Output-Gigawords (53) are RADIUS attributes carried in Diameter under their
RADIUS code (RFC 6733 4.1: codes 1-255); RFC 2866 5.8/5.9 and RFC 2869 5.1/5.2
define them as four-octet counters, RFC 2865 5 "integer: 32 bit unsigned value",
and the sibling counters of the same dictionary (Acct-Input-Octets 42,
Acct-Session-Time 46, Acct-Link-Count 51) are Unsigned32.  MIP-Feature-Vector (337)
"is of type Unsigned32" (RFC 4004 7.5).  The dictionary types all five Integer32:
the upper half of the domain is rejected on encoding and decoded as a negative
number, and negative numbers - outside the domain - are accepted.
(Same kind of slip as the one repaired in ff25ec5 for Result-Code & co.)
Exit 1 = violation present, 0 = behaves as the property requires.
"""
import struct
import sys

from diameter.message import constants as C
from diameter.message.avp import Avp


def reference(code, flags, data):
    return (struct.pack("!IB", code, flags) + struct.pack("!I", 8 + len(data))[1:]
            + data + b"\0" * (-len(data) % 4))


bad = []
value = 3_000_000_000          # e.g. packets of a long-lived high-rate session
for const in ("AVP_ACCT_INPUT_PACKETS", "AVP_ACCT_OUTPUT_PACKETS",
              "AVP_ACCT_INPUT_GIGAWORDS", "AVP_ACCT_OUTPUT_GIGAWORDS",
              "AVP_MIP_FEATURE_VECTOR"):
    code = getattr(C, const)
    wire = reference(code, 0x40, struct.pack("!I", value))
    try:
        got = Avp.new(code, value=value).as_bytes()
        enc = got.hex()
        if got != wire:
            bad.append(f"{const}: {value} encoded as {enc}")
    except Exception as e:
        enc = f"{type(e).__name__}"
        bad.append(f"{const}: {value} (within 0..2^32-1) is rejected with {enc}")
    dec = Avp.from_bytes(wire)
    val = dec.value
    if val != value:
        bad.append(f"{const}: wire value {value} decodes as {val} ({type(dec).__name__})")
    try:
        neg = Avp.new(code, value=-1).as_bytes()[-4:].hex()
        bad.append(f"{const}: -1, outside the unsigned domain, is accepted and "
                   f"emitted as {neg}")
    except Exception as e:
        neg = type(e).__name__
    print(f"{const:28s} code {code:3d}: encode {value} -> {enc}; "
          f"decode {wire[-4:].hex()} -> {val}; encode -1 -> {neg}")

print()
print("property requires: 'For every AVP data type and every value in that type's "
      "domain, encoding produces exactly the RFC 6733 wire form ... decoding those "
      "bytes yields ... equal ... value ... a value outside the type's domain is "
      "rejected with an error instead of being truncated or wrapped'")
if bad:
    print("VIOLATION:")
    for b in bad:
        print("  -", b)
    sys.exit(1)
print("ok")
sys.exit(0)
