import logging
import socket
import sys
import time

from diameter.message import Message, MessageHeader
from diameter.message.commands import CreditControlRequest
from diameter.node import Node
from diameter.node.application import Application
from diameter.node.peer import (PeerConnection, PEER_RECV, PEER_READY,
                                PEER_TRANSPORT_TCP)

logging.disable(logging.CRITICAL)


class App(Application):
    """Answers every request 2001 and remembers what it was given."""
    def __init__(self):
        super().__init__(4, is_auth_application=True)
        self.seen = []

    def handle_request(self, message):
        self.seen.append(message)
        self.send_answer(self.generate_answer(message, result_code=2001))


def make_node(window):
    node = Node("server.example", "example")
    node.retransmit_queue_size = window
    peer = node.add_peer("aaa://relay.example", "example")
    app = App()
    node.add_application(app, [peer])
    return node, app


def make_conn(node):
    """A READY inbound connection of the configured peer, on a socketpair;
    the node's I/O thread is not started, the connection's own reader and
    writer threads do the work."""
    a, b = socket.socketpair()
    conn = PeerConnection("127.0.0.1", 3868, PEER_RECV, node.interrupt_write)
    conn.node_name = "relay.example"
    conn.host_identity = "relay.example"
    conn.state = PEER_READY
    node._add_peer_connection(conn, a, PEER_TRANSPORT_TCP)
    conn._keep = (a, b)
    return conn


def ccr(e2e, hbh, origin, t=False, sid="s;1"):
    m = CreditControlRequest()
    m.header.application_id = 4
    m.header.hop_by_hop_identifier = hbh
    m.header.end_to_end_identifier = e2e
    m.header.is_retransmit = t
    m.session_id = sid
    m.origin_host = origin
    m.origin_realm = b"example"
    m.destination_realm = b"example"
    m.auth_application_id = 4
    m.service_context_id = "ctx"
    m.cc_request_type = 1
    m.cc_request_number = 0
    return m


def exchange(conn, data, timeout=30.0, settle=0.5):
    """Feed bytes as if read from the socket, wait until the connection has
    nothing left to read or write, return the messages it put on the wire."""
    for i in range(0, len(data), 1 << 20):
        conn.add_in_bytes(data[i:i + (1 << 20)])
    end = time.time() + timeout
    quiet = 0
    while time.time() < end and quiet * 0.03 < settle:
        idle = (conn._read_buffer_queue.empty() and
                conn._write_msg_queue.unfinished_tasks == 0)
        quiet = quiet + 1 if idle else 0
        time.sleep(0.03)
    with conn.write_lock:
        buf = conn._write_buffer
        conn._write_buffer = b""
    out = []
    while buf:
        hdr = MessageHeader.from_bytes(buf)
        out.append(Message.from_bytes(buf[:hdr.length]))
        buf = buf[hdr.length:]
    return out


def result_codes(msgs):
    return [a.value for m in msgs for a in m.avps
            if a.code == 268 and not a.vendor_id]


def main():
    # the node starts with a window of 1 remembered answer per origin ...
    node, app = make_node(window=1)
    conn = make_conn(node)
    try:
        a, b = b"client-a.example", b"client-b.example"
        # the first answer to A creates A's window
        codes = result_codes(exchange(conn, ccr(1, 101, a).as_bytes()))
        # ... and the operator raises it to 4 while the node is running
        node.retransmit_queue_size = 4
        for e2e, hbh in ((2, 102), (3, 103)):
            codes += result_codes(exchange(conn, ccr(e2e, hbh, a).as_bytes()))
        for e2e, hbh in ((1, 201), (2, 202), (3, 203)):
            codes += result_codes(exchange(conn, ccr(e2e, hbh, b).as_bytes()))
        print("answers to the six first transmissions:", codes)

        seen_before = len(app.seen)
        rep_a = result_codes(exchange(conn, ccr(2, 104, a, t=True).as_bytes()))
        delivered_a = len(app.seen) - seen_before
        seen_before = len(app.seen)
        rep_b = result_codes(exchange(conn, ccr(2, 204, b, t=True).as_bytes()))
        delivered_b = len(app.seen) - seen_before

        print(f"configured retransmit_queue_size: {node.retransmit_queue_size}")
        print(f"origin A (first answered before the change): answers to it "
              f"were e2e 1, 2, 3; T-flagged repeat of e2e 2 -> result codes "
              f"{rep_a}, delivered to the application {delivered_a} time(s); "
              f"its window is {node._sent_answers[a]!r}")
        print(f"origin B (first answered after the change): same history; "
              f"T-flagged repeat of e2e 2 -> result codes {rep_b}, delivered "
              f"{delivered_b} time(s); its window is {node._sent_answers[b]!r}")
        print("required: e2e 2 is among the 4 (the configured number) most "
              "recent answers to either origin, so both repeats are answered "
              "5012 by the node and delivered to no application")
        ok = (rep_a == [5012] and delivered_a == 0 and
              rep_b == [5012] and delivered_b == 0)
        print("PROPERTY HOLDS" if ok else "PROPERTY VIOLATED")
        return 0 if ok else 1
    finally:
        conn.close(signal_node=False)


if __name__ == "__main__":
    sys.exit(main())
