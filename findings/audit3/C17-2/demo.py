import logging
import socket
import sys
import time

from diameter.message import Message, MessageHeader
from diameter.message.commands import CreditControlRequest
from diameter.node import Node
from diameter.node.application import Application
from diameter.node.peer import (PeerConnection, PEER_RECV, PEER_READY,
                                PEER_TRANSPORT_TCP)

logging.disable(logging.CRITICAL)


class App(Application):
    """Answers every request 2001 and remembers what it was given."""
    def __init__(self):
        super().__init__(4, is_auth_application=True)
        self.seen = []

    def handle_request(self, message):
        self.seen.append(message)
        self.send_answer(self.generate_answer(message, result_code=2001))


def make_node(window):
    node = Node("server.example", "example")
    node.retransmit_queue_size = window
    peer = node.add_peer("aaa://relay.example", "example")
    app = App()
    node.add_application(app, [peer])
    return node, app


def make_conn(node):
    """A READY inbound connection of the configured peer, on a socketpair;
    the node's I/O thread is not started, the connection's own reader and
    writer threads do the work."""
    a, b = socket.socketpair()
    conn = PeerConnection("127.0.0.1", 3868, PEER_RECV, node.interrupt_write)
    conn.node_name = "relay.example"
    conn.host_identity = "relay.example"
    conn.state = PEER_READY
    node._add_peer_connection(conn, a, PEER_TRANSPORT_TCP)
    conn._keep = (a, b)
    return conn


def ccr(e2e, hbh, origin, t=False, sid="s;1"):
    m = CreditControlRequest()
    m.header.application_id = 4
    m.header.hop_by_hop_identifier = hbh
    m.header.end_to_end_identifier = e2e
    m.header.is_retransmit = t
    m.session_id = sid
    m.origin_host = origin
    m.origin_realm = b"example"
    m.destination_realm = b"example"
    m.auth_application_id = 4
    m.service_context_id = "ctx"
    m.cc_request_type = 1
    m.cc_request_number = 0
    return m


def exchange(conn, data, timeout=30.0, settle=0.5):
    """Feed bytes as if read from the socket, wait until the connection has
    nothing left to read or write, return the messages it put on the wire."""
    for i in range(0, len(data), 1 << 20):
        conn.add_in_bytes(data[i:i + (1 << 20)])
    end = time.time() + timeout
    quiet = 0
    while time.time() < end and quiet * 0.03 < settle:
        idle = (conn._read_buffer_queue.empty() and
                conn._write_msg_queue.unfinished_tasks == 0)
        quiet = quiet + 1 if idle else 0
        time.sleep(0.03)
    with conn.write_lock:
        buf = conn._write_buffer
        conn._write_buffer = b""
    out = []
    while buf:
        hdr = MessageHeader.from_bytes(buf)
        out.append(Message.from_bytes(buf[:hdr.length]))
        buf = buf[hdr.length:]
    return out


def result_codes(msgs):
    return [a.value for m in msgs for a in m.avps
            if a.code == 268 and not a.vendor_id]


from diameter.message.commands.credit_control import (
    MultipleServicesCreditControl, GrantedServiceUnit)


class CreditApp(App):
    """A credit-control server: echoes CC-Request-Type/-Number and grants
    units, as RFC 4006 requires of a CCA."""
    def handle_request(self, message):
        self.seen.append(message)
        cca = self.generate_answer(message, result_code=2001)
        cca.cc_request_type = message.cc_request_type
        cca.cc_request_number = message.cc_request_number
        cca.multiple_services_credit_control = [MultipleServicesCreditControl(
            granted_service_unit=GrantedServiceUnit(cc_total_octets=1000000),
            rating_group=1, validity_time=3600, result_code=2001)]
        self.send_answer(cca)


def big_ccr(t):
    """A well-formed CCR of (almost) the largest size a Diameter message can
    have: its Session-Id fills it up to 8 bytes below 2^24."""
    m = ccr(5, 77, b"c.example", t=t, sid="s" * 8)
    pad = (1 << 24) - 8 - len(m.as_bytes())
    m.session_id = "s" * (8 + pad)
    return m.as_bytes()


class Capture(logging.Handler):
    def __init__(self):
        super().__init__(logging.WARNING)
        self.lines = []

    def emit(self, record):
        self.lines.append(record.getMessage()[:160])


SERVER = "ocs-charging-frontend-01.datacenter-north.core.operator-network.example"


def main():
    logging.disable(logging.NOTSET)
    capture = Capture()
    for name in ("diameter.node", "diameter.peer"):
        logging.getLogger(name).addHandler(capture)
        logging.getLogger(name).propagate = False
    # like make_node(), with a server whose host name is 73 characters long
    node = Node(SERVER, "example")
    node.retransmit_queue_size = 4
    peer = node.add_peer("aaa://relay.example", "example")
    app = CreditApp()
    node.add_application(app, [peer])
    conn = make_conn(node)
    try:
        data = big_ccr(False)
        print(f"request: {len(data)} bytes (limit {(1 << 24) - 1})")
        first = exchange(conn, data, settle=3.0)
        delivered_first = len(app.seen)
        print(f"first transmission (T=0, e2e 5): delivered to the application "
              f"{delivered_first} time(s); answers on the wire: "
              f"{result_codes(first)}")
        print(f"  window of the origin afterwards: "
              f"{dict(node._sent_answers)}")

        repeat = exchange(conn, big_ccr(True), settle=3.0)
        delivered_repeat = len(app.seen) - delivered_first
        print(f"T-flagged repeat (same origin, e2e 5): delivered to the "
              f"application {delivered_repeat} time(s); answers on the wire: "
              f"{result_codes(repeat)}")

        print("what the library logged:")
        for line in capture.lines:
            print("   ", line)
        print("required: if the first transmission counts as answered, the "
              "repeat is answered 5012 by the node (an answer with "
              "Result-Code 5012 on the wire); if it does not (no answer ever "
              "left the node), the repeat is not rejected as a duplicate, "
              "i.e. it reaches the application again")
        ok = ((result_codes(repeat) == [5012] and delivered_repeat == 0) or
              delivered_repeat == 1)
        print("PROPERTY HOLDS" if ok else
              "PROPERTY VIOLATED: the repeat was swallowed as a duplicate of "
              "a request that was never answered, and not even told so")
        return 0 if ok else 1
    finally:
        conn.close(signal_node=False)


if __name__ == "__main__":
    sys.exit(main())
