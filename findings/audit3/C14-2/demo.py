"""
C14 / finding 2

The connection is lost "with answers still queued": the handler has returned
its answers, they sit in the connection's write buffer (the peer is slow to
read), not one byte of the last answer has been handed to the kernel, and the
peer resets the connection.  The peer then does what RFC 6733 5.5.4 tells it
to do: it reconnects, completes CER/CEA and sends the unanswered request again
with the T flag and the same End-to-End identifier.

`Node.send_message` calls `_record_answer` at the moment the answer is put
into the connection's *queue*, so the request counts as "answered" in
`Node._sent_answers` although the answer never left the node.  The
retransmission is rejected as a duplicate (Result-Code 5012), it is not
delivered to the handler, and the peer can never obtain an answer for it.
On a fresh node the same request is delivered to the handler and answered
2001 (shown with a control request that differs in its End-to-End id only).

Real TCP over loopback, nothing of the library is replaced.

exit 1: retransmission after the loss is refused (current code)
exit 0: it is delivered to the handler and answered like on a fresh node
"""
import logging
import socket
import struct
import sys
import threading
import time

from diameter.message import Message, Avp
from diameter.message import constants
from diameter.message.commands import (CapabilitiesExchangeRequest,
                                       CreditControlRequest)
from diameter.node import Node
from diameter.node.application import SimpleThreadingApplication

logging.basicConfig(level=logging.CRITICAL)

N_REQ = 8
BIG = 2 * 1024 * 1024


def free_port():
    s = socket.socket()
    s.bind(("127.0.0.1", 0))
    p = s.getsockname()[1]
    s.close()
    return p


def cer(e2e):
    m = CapabilitiesExchangeRequest()
    m.header.hop_by_hop_identifier = e2e
    m.header.end_to_end_identifier = e2e
    m.origin_host = b"client.example"
    m.origin_realm = b"example"
    m.host_ip_address = ["127.0.0.1"]
    m.vendor_id = 1
    m.product_name = "probe"
    m.auth_application_id = [4]
    return m.as_bytes()


def ccr(n, hbh, e2e, retransmit=False):
    m = CreditControlRequest()
    m.header.application_id = 4
    m.header.hop_by_hop_identifier = hbh
    m.header.end_to_end_identifier = e2e
    m.header.is_retransmit = retransmit
    m.session_id = "probe;1"
    m.origin_host = b"client.example"
    m.origin_realm = b"example"
    m.destination_realm = b"example"
    m.auth_application_id = 4
    m.service_context_id = "ctx"
    m.cc_request_type = 2
    m.cc_request_number = n
    return m.as_bytes()


def read_msgs(sock, n, timeout):
    sock.settimeout(0.2)
    buf, out, end = b"", [], time.time() + timeout
    while len(out) < n and time.time() < end:
        try:
            d = sock.recv(1 << 20)
        except socket.timeout:
            continue
        except OSError:
            break
        if not d:
            break
        buf += d
        while len(buf) >= 20 and len(buf) >= int.from_bytes(buf[1:4], "big"):
            ln = int.from_bytes(buf[1:4], "big")
            out.append(Message.from_bytes(buf[:ln]))
            buf = buf[ln:]
    return out


port = free_port()
node = Node("server.example", "example",
            ip_addresses=["127.0.0.1"], tcp_port=port)
node.wakeup_interval = 1
peer = node.add_peer("aaa://client.example", "example")

delivered = []          # (cc_request_number, end-to-end id, T flag)
big_answers = {"on": True}


def handler(app, msg):
    delivered.append((msg.cc_request_number,
                      msg.header.end_to_end_identifier,
                      msg.header.is_retransmit))
    ans = app.generate_answer(msg, result_code=2001)
    ans.cc_request_type = msg.cc_request_type
    ans.cc_request_number = msg.cc_request_number
    if big_answers["on"]:
        # a large answer, so that the peer's slowness shows in the node's
        # write buffer instead of disappearing in the kernel's buffers
        ans.append_avp(Avp.new(constants.AVP_CLASS, value=b"x" * BIG))
    return ans


app = SimpleThreadingApplication(4, is_auth_application=True,
                                 request_handler=handler)
node.add_application(app, [peer])
node.start()
rc = 0
try:
    # ---- first life of the peer: slow reader ------------------------------
    c1 = socket.socket()
    c1.setsockopt(socket.SOL_SOCKET, socket.SO_RCVBUF, 4096)
    c1.connect(("127.0.0.1", port))
    c1.sendall(cer(1))
    r = read_msgs(c1, 1, 3)
    assert r and r[0].result_code == 2001, "handshake failed"
    for n in range(N_REQ):
        c1.sendall(ccr(n, hbh=100 + n, e2e=500 + n))
        # one at a time, so that the answers are queued in request order
        end = time.time() + 5
        while len(delivered) < n + 1 and time.time() < end:
            time.sleep(0.01)
        time.sleep(0.1)
    assert len(delivered) == N_REQ, "requests were not all delivered"
    # wait for the writer thread to have encoded everything
    conn = peer.connection
    end = time.time() + 10
    while conn.has_queued_messages and time.time() < end:
        time.sleep(0.05)
    time.sleep(1.0)             # let the kernel take what it can take
    unflushed = len(conn.write_buffer)
    print(f"answers submitted by the handler: {len(delivered)}; bytes still "
          f"in the node's write buffer when the connection is lost: "
          f"{unflushed}")
    last_answer_untouched = unflushed >= BIG + 20
    print("the whole answer to the last request (End-to-End 0x%x) is still "
          "unsent: %s" % (500 + N_REQ - 1, last_answer_untouched))
    if not last_answer_untouched:
        print("set-up failed: could not keep the last answer queued")
        rc = 2
        raise SystemExit(2)

    # the fault: reset, with answers still queued
    c1.setsockopt(socket.SOL_SOCKET, socket.SO_LINGER, struct.pack("ii", 1, 0))
    c1.close()
    end = time.time() + 5
    while node.connections and time.time() < end:
        time.sleep(0.05)
    assert not node.connections, "node did not notice the loss"

    # ---- the peer comes back ---------------------------------------------
    big_answers["on"] = False
    before = len(delivered)
    c2 = socket.create_connection(("127.0.0.1", port))
    c2.sendall(cer(2))
    r = read_msgs(c2, 1, 3)
    cea_ok = bool(r) and r[0].result_code == 2001
    print("reconnect: CER/CEA completed:", cea_ok)

    last = N_REQ - 1
    # control: what a node that has never seen the request does with it
    c2.sendall(ccr(last, hbh=900, e2e=9000, retransmit=True))
    ctrl = read_msgs(c2, 1, 4)
    ctrl_code = ctrl[0].result_code if ctrl else None
    ctrl_delivered = len(delivered) - before
    print(f"control (same request, End-to-End id never seen, T flag): "
          f"delivered to handler {ctrl_delivered}x, Result-Code {ctrl_code}")

    before = len(delivered)
    c2.sendall(ccr(last, hbh=901, e2e=500 + last, retransmit=True))
    ans = read_msgs(c2, 1, 4)
    code = ans[0].result_code if ans else None
    redelivered = len(delivered) - before
    print(f"retransmission of the request whose answer never left the node: "
          f"delivered to handler {redelivered}x, Result-Code {code}")
    c2.close()

    print("property requires: after a connection lost 'with answers still "
          "queued', 'A peer that connects afterwards completes its "
          "capabilities exchange and has its requests delivered to the "
          "handler and answered exactly as on a fresh node'")
    if not cea_ok or redelivered != ctrl_delivered or code != ctrl_code:
        rc = 1
finally:
    node.stop(force=True)

sys.exit(rc)
