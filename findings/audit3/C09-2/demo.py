"""C09 / finding 2

The requester's connection is lost while an application's answer is being
submitted: the two sibling windows of this kind were closed in route_answer
(f25d799) and in send_message (b903871) - the third one, in the bookkeeping
that send_message runs after queueing (Node._record_answer), is still open:
it tests `message_id in self._origin_waiting_answer` and then reads
`self._origin_waiting_answer[message_id]`; Node.remove_peer_connection (node
thread, the peer has hung up) sweeps the table in between, and
Application.send_answer fails with a bare KeyError instead of NotRoutable.

The interleaving is produced deterministically: a line tracer installed on the
application thread only pauses it on the line that reads the table until the
node's own thread has removed the connection (the fake peer closes its real TCP
socket). Nothing of the library is patched or modified.

exit 1 = send_answer raised something else than NotRoutable (KeyError)
exit 0 = send_answer raised NotRoutable
"""
import inspect
import socket
import sys
import threading
import time
import logging

from diameter.message import Message
from diameter.message.commands import (
    CapabilitiesExchangeRequest, CreditControlRequest)
from diameter.node import Node, NotRoutable
from diameter.node.application import Application

logging.disable(logging.CRITICAL)


def free_port():
    s = socket.socket()
    s.bind(("127.0.0.1", 0))
    p = s.getsockname()[1]
    s.close()
    return p


def cer(host):
    m = CapabilitiesExchangeRequest()
    m.header.hop_by_hop_identifier = 1
    m.header.end_to_end_identifier = 1
    m.origin_host = host.encode()
    m.origin_realm = b"realm"
    m.host_ip_address = ["127.0.0.1"]
    m.vendor_id = 1
    m.product_name = "peer"
    m.auth_application_id = [4]
    return m.as_bytes()


def ccr(host, hbh, e2e):
    m = CreditControlRequest()
    m.header.application_id = 4
    m.header.hop_by_hop_identifier = hbh
    m.header.end_to_end_identifier = e2e
    m.session_id = "sess;1"
    m.origin_host = host.encode()
    m.origin_realm = b"realm"
    m.destination_realm = b"realm"
    m.auth_application_id = 4
    m.service_context_id = "ctx"
    m.cc_request_type = 1
    m.cc_request_number = 0
    return m.as_bytes()


def recv_msgs(sock, dur):
    sock.settimeout(0.1)
    buf = b""
    out = []
    end = time.time() + dur
    while time.time() < end:
        try:
            d = sock.recv(65536)
            if not d:
                break
            buf += d
        except socket.timeout:
            pass
        while len(buf) >= 20:
            ln = int.from_bytes(buf[1:4], "big")
            if len(buf) < ln:
                break
            out.append(Message.from_bytes(buf[:ln]))
            buf = buf[ln:]
        if out:
            break
    return out


class App(Application):
    """Hands the request to a worker thread, as the docs of handle_request
    recommend for a plain Application."""
    def __init__(self):
        super().__init__(4, is_auth_application=True)
        self.requests = []
        self.got = threading.Event()

    def handle_request(self, message):
        self.requests.append(message)
        self.got.set()


port = free_port()
node = Node("srv.realm", "realm", ip_addresses=["127.0.0.1"], tcp_port=port)
node.wakeup_interval = 1
peer = node.add_peer("aaa://p1.realm", "realm")
app = App()
node.add_application(app, [peer])
node.start()

sock = socket.create_connection(("127.0.0.1", port))
sock.sendall(cer("p1.realm"))
cea = recv_msgs(sock, 3)
assert cea and cea[0].result_code == 2001, "no CEA"
sock.sendall(ccr("p1.realm", 7, 77))
assert app.got.wait(5), "request not delivered"
request = app.requests[0]
conn = peer.connection
ident = conn.ident

# the line of Node._record_answer that reads the table after the `in` test
src, first = inspect.getsourcelines(Node._record_answer)
read_line = None
for i, text in enumerate(src):
    if "= self._origin_waiting_answer[message_id]" in text:
        read_line = first + i
    # (adapted after the repair: the table is read once; the pause now sits right after that
    # read, which is where the removal used to hurt)
    if read_line is None and "if record is None" in text:
        read_line = first + i
assert read_line, "source of _record_answer not as expected"
code = Node._record_answer.__code__
paused = []


def tracer(frame, event, arg):
    if frame.f_code is not code:
        return None

    def local(frame, event, arg):
        if event == "line" and frame.f_lineno == read_line and not paused:
            paused.append(True)
            # the peer hangs up now; wait until the node's own thread has
            # noticed and removed the connection
            sock.close()
            end = time.time() + 10
            while ident in node.connections and time.time() < end:
                time.sleep(0.01)
        return local
    return local


result = {}


def worker():
    answer = app.generate_answer(request, result_code=2001)
    answer.cc_request_type = request.cc_request_type
    answer.cc_request_number = request.cc_request_number
    sys.settrace(tracer)
    try:
        app.send_answer(answer)
        result["raised"] = None
    except BaseException as e:
        result["raised"] = e
    finally:
        sys.settrace(None)


t = threading.Thread(target=worker)
t.start()
t.join(30)

raised = result.get("raised")
print(f"application thread was paused between the membership test and the "
      f"read in Node._record_answer: {bool(paused)}")
print(f"connection removed by the node thread meanwhile: "
      f"{ident not in node.connections}")
print(f"Application.send_answer raised: {raised!r}")
node.stop(wait_timeout=3)

print()
print("REQUIRED (C09): 'if that connection has closed or is no longer ready "
      "the submission fails with the not-routable error'")
if raised is not None and not isinstance(raised, NotRoutable):
    print(f"OBSERVED: the connection was lost during the submission and "
          f"send_answer failed with {type(raised).__name__} instead of "
          f"NotRoutable")
    sys.exit(1)
print("OBSERVED: no foreign exception")
sys.exit(0)
