"""C12 / finding 1

The node dials a persistent peer although the peer already has a connection,
and ends up holding two self-initiated connections to the same peer.

`Node._add_peer_connection` tests "the peer is already connected" under
`_busy_lock`, but stores `peer.connection` after the lock has been released;
`Node._assign_peer_connection` (run by the reader thread of an inbound
connection when the peer's CER is accepted) takes no lock at all.  When the
peer reconnects to us at the moment our own reconnect wait elapses (the
"simultaneous open" that happens when both sides re-dial after an outage), the
inbound CER is accepted and attached to the peer between the test and the
store.  The outgoing connection is then dialled anyway, becomes READY, but is
not the peer's connection - so when the inbound connection is lost later, the
peer is dialled *again* while the first self-initiated connection still lives.

The interleaving is forced with two events (no timing luck involved):
  reader thread : ... receive_cer -> [wait] _assign_peer_connection
  node thread   : _reconnect_peers -> _connect_to_peer -> _add_peer_connection
                  (guard passed, connection registered) -> [signal, wait]
"""
import logging
import socket
import sys
import threading
import time

from diameter.message import Message, constants
from diameter.message.commands import CapabilitiesExchangeRequest
from diameter.node import Node
from diameter.node.application import SimpleThreadingApplication
from diameter.node.peer import (PEER_CONNECTING, PEER_READY_STATES,
                                PEER_CLOSED)

logging.basicConfig(level=logging.WARNING)
PEER = "peer.example"


def free_port():
    s = socket.socket()
    s.bind(("127.0.0.1", 0))
    p = s.getsockname()[1]
    s.close()
    return p


def read_msg(sock, timeout=8):
    sock.settimeout(timeout)
    buf = b""
    while len(buf) < 20 or len(buf) < int.from_bytes(buf[1:4], "big"):
        d = sock.recv(4096)
        if not d:
            return None
        buf += d
    return Message.from_bytes(buf[:int.from_bytes(buf[1:4], "big")])


def cea_for(cer):
    a = cer.to_answer()
    a.result_code = constants.E_RESULT_CODE_DIAMETER_SUCCESS
    a.origin_host = PEER.encode()
    a.origin_realm = b"example"
    a.host_ip_address = ["127.0.0.1"]
    a.vendor_id = 1
    a.product_name = "fake"
    a.auth_application_id = [4]
    return a


def mk_cer():
    c = CapabilitiesExchangeRequest()
    c.header.hop_by_hop_identifier = 1
    c.header.end_to_end_identifier = 1
    c.origin_host = PEER.encode()
    c.origin_realm = b"example"
    c.host_ip_address = ["127.0.0.1"]
    c.vendor_id = 1
    c.product_name = "fake"
    c.auth_application_id = [4]
    return c


def wait_for(cond, timeout=10):
    end = time.time() + timeout
    while time.time() < end:
        if cond():
            return True
        time.sleep(0.02)
    return False


peer_port = free_port()
node_port = free_port()
peer_listener = socket.socket()
peer_listener.setsockopt(socket.SOL_SOCKET, socket.SO_REUSEADDR, 1)
peer_listener.bind(("127.0.0.1", peer_port))
peer_listener.listen(8)
peer_listener.settimeout(8)

node = Node("node.example", "example", ip_addresses=["127.0.0.1"],
            tcp_port=node_port)
node.wakeup_interval = 0.2
peer = node.add_peer(f"aaa://{PEER}:{peer_port}", "example", ["127.0.0.1"],
                     is_persistent=True)
peer.reconnect_wait = 1
app = SimpleThreadingApplication(4, is_auth_application=True)
node.add_application(app, [peer])

socks = []
result = 2
try:
    node.start()

    # 1. first connection, dialled at start-up, completes and is then lost
    s0, _ = peer_listener.accept()
    s0.sendall(cea_for(read_msg(s0)).as_bytes())
    assert wait_for(lambda: peer.connection is not None and
                    peer.connection.state in PEER_READY_STATES)
    s0.close()
    assert wait_for(lambda: peer.connection is None)
    print("first connection lost, reason", hex(peer.disconnect_reason),
          "- the node will re-dial after reconnect_wait = 1 s")

    # 2. the peer re-dials us as well; connection accepted, CER not yet sent
    c_in = socket.create_connection(("127.0.0.1", node_port))
    socks.append(c_in)
    assert wait_for(lambda: any(c.is_receiver
                                for c in list(node.connections.values())))

    # 3. force the interleaving
    guard_passed = threading.Event()
    attached = threading.Event()
    orig_assign = node._assign_peer_connection
    orig_find = node._find_connection_peer
    armed = [True]

    def assign(conn):
        if conn.is_receiver and armed[0]:
            # the reader thread of the inbound connection is "slow" here
            guard_passed.wait(5)
            orig_assign(conn)
            attached.set()
            return
        orig_assign(conn)

    def find(conn):
        if (armed[0] and conn.is_sender and conn.state == PEER_CONNECTING and
                threading.current_thread() is node._connection_thread and
                conn.ident in node.connections):
            # first statement of _add_peer_connection after `_busy_lock` has
            # been released: the duplicate guard has been passed
            armed[0] = False
            guard_passed.set()
            attached.wait(5)
        return orig_find(conn)

    node._assign_peer_connection = assign
    node._find_connection_peer = find

    c_in.sendall(mk_cer().as_bytes())
    cea = read_msg(c_in)
    print("inbound CER answered with", cea.result_code)

    # 4. the outgoing connection is made nevertheless
    s1, _ = peer_listener.accept()
    socks.append(s1)
    dial_time_conn = peer.connection
    print("node dialled the peer while Peer.connection was",
          "the (ready) inbound connection" if dial_time_conn is not None and
          dial_time_conn.is_receiver else "the dialled connection itself / "
          "nothing else")
    s1.sendall(cea_for(read_msg(s1)).as_bytes())
    wait_for(lambda: len([c for c in list(node.connections.values())
                          if c.state in PEER_READY_STATES]) == 2, 3)
    print("connections held:", [
        ("self-initiated" if c.is_sender else "inbound", hex(c.state),
         "Peer.connection" if c is peer.connection else "unattached")
        for c in list(node.connections.values())])
    dialled_with_connection = (dial_time_conn is not None and
                               dial_time_conn.is_receiver)

    # 5. the inbound connection is lost; the node dials once more
    c_in.close()
    peer_listener.settimeout(4)
    try:
        s2, _ = peer_listener.accept()
        socks.append(s2)
        s2.sendall(cea_for(read_msg(s2)).as_bytes())
        time.sleep(0.5)
    except (socket.timeout, OSError, AttributeError):
        s2 = None

    own = [c for c in list(node.connections.values())
           if c.is_sender and c.node_name == PEER and c.state != PEER_CLOSED]
    print("self-initiated connections to", PEER, "held by the node now:",
          len(own), [(c.ident, hex(c.state)) for c in own])
    print("property: a peer is dialled again ... unless it already has a "
          "connection; at no time does the node hold two self-initiated "
          "connections to the same peer")
    if dialled_with_connection or len(own) > 1:
        print("VIOLATION")
        result = 1
    else:
        print("ok")
        result = 0
finally:
    for s in socks:
        try:
            s.close()
        except OSError:
            pass
    peer_listener.close()
    try:
        node.stop(wait_timeout=2, force=True)
    except Exception as e:
        print("stop:", e)
    for c in list(node.connections.values()):
        c.close(signal_node=False)

sys.exit(result)
