"""C01 / finding 2: From-Address (AVP 2708, vendor 10415) is typed Address.

3GPP TS 32.299 (7.2.77A, AVP table 7.2): From-Address, code 2708, is of type
UTF8String and "holds the address of the From header" of the SIP request
(IMS-Information).  The dictionary entry says AvpAddress: a SIP From value
cannot be encoded at all, a number is emitted with a 2-octet address-family
prefix (0x0008) that the specification does not have, and a conformant AVP
decodes into a (family, hex) pair made of the first two characters.
Exit 1 = violation present, 0 = behaves as the property requires.
"""
import struct
import sys

from diameter.message import constants as C
from diameter.message.avp import Avp


def reference(code, vendor, flags, data):
    flags |= 0x80
    return (struct.pack("!IB", code, flags) + struct.pack("!I", 12 + len(data))[1:]
            + struct.pack("!I", vendor) + data + b"\0" * (-len(data) % 4))


bad = []
for text in ("sip:alice@example.com", "41780000003"):
    wire = reference(2708, 10415, 0x40, text.encode("utf8"))
    print(f"From-Address {text!r}")
    print("  TS 32.299 (UTF8String) wire form:", wire.hex())
    try:
        got = Avp.new(C.AVP_TGPP_FROM_ADDRESS, C.VENDOR_TGPP, value=text).as_bytes()
        print("  library encodes               :", got.hex())
        if got != wire:
            bad.append(f"{text!r} is encoded as {got.hex()} (address-family prefix "
                       f"inserted), not {wire.hex()}")
    except Exception as e:
        print(f"  library encodes               : {type(e).__name__}: {e}")
        bad.append(f"{text!r}, a value of the AVP's domain, is rejected: {type(e).__name__}")
    dec = Avp.from_bytes(wire)
    try:
        val = dec.value
    except Exception as e:
        val = f"{type(e).__name__}: {e}"
    print("  library decodes the wire form :", type(dec).__name__, val)
    if val != text:
        bad.append(f"conformant From-Address {text!r} decodes as {val!r}")

print()
print("property requires: 'encoding produces exactly the RFC 6733 wire form', "
      "'decoding those bytes yields an AVP ... with equal ... value'; only 'a value "
      "outside the type's domain is rejected'")
if bad:
    print("VIOLATION:")
    for b in bad:
        print("  -", b)
    sys.exit(1)
print("ok")
sys.exit(0)
