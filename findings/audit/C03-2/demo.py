"""C03 finding 2: AVPs that a grouped container class does not declare are silently DROPPED
when they sit inside one of the 120 (of 256) container classes that have no
`additional_avps` field (PsInformation, ImsInformation, SmsInformation, MmtelInformation, ...).
"""
import dataclasses, inspect, sys
from diameter.message import Message, Avp
from diameter.message.avp import AvpOctetString
from diameter.message.avp import grouped as G
from diameter.message.avp.generator import generate_avps_from_defs
from diameter.message.commands import CreditControlRequest
from diameter.message.commands._attributes import assign_attr_from_defs
from diameter.message.constants import *

failed = False

def extra_avp():
    # an AVP no class declares: private vendor extension, carried as opaque bytes
    return Avp(code=4242, vendor_id=99999, payload=b"opaque-extension")

# --- a peer sends a Gy CCR whose PS-Information carries one AVP the class does not declare
ps = Avp.new(AVP_TGPP_PS_INFORMATION, VENDOR_TGPP, value=[
    Avp.new(AVP_TGPP_3GPP_CHARGING_ID, VENDOR_TGPP, value=b"\x00\x00\x00\x01"),
    extra_avp(),
])
si = Avp.new(AVP_TGPP_SERVICE_INFORMATION, VENDOR_TGPP, value=[ps])
raw = Message()
raw.header.command_code = 272
raw.header.application_id = 4
raw.header.is_request = True
raw.avps = [Avp.new(AVP_SESSION_ID, value="peer;1;1"),
            Avp.new(AVP_AUTH_APPLICATION_ID, value=4), si]
received = raw.as_bytes()

ccr = Message.from_bytes(received)
assert isinstance(ccr, CreditControlRequest), type(ccr)
assert ccr.service_information.ps_information.tgpp_charging_id == b"\x00\x00\x00\x01"
again = ccr.as_bytes()

def find_extra(data):
    m = Message.from_bytes(data, plain_msg=True)
    return m.find_avps((AVP_TGPP_SERVICE_INFORMATION, VENDOR_TGPP),
                       (AVP_TGPP_PS_INFORMATION, VENDOR_TGPP), (4242, 99999))

print("undeclared AVP inside PS-Information, as received :", [a.as_bytes().hex() for a in find_extra(received)])
print("undeclared AVP inside PS-Information, re-encoded  :", [a.as_bytes().hex() for a in find_extra(again)])
print("received %d bytes, re-encoded %d bytes" % (len(received), len(again)))
if [a.as_bytes() for a in find_extra(again)] != [extra_avp().as_bytes()]:
    failed = True
    print("OBSERVED: the AVP that PsInformation does not declare has vanished (it is reachable neither "
          "as an attribute nor through find_avps of the typed message, and is not re-encoded)")
print("REQUIRED: 'AVPs the class does not declare being ... carried over unchanged'")

# --- sweep over every container class --------------------------------------------------
classes = []
for n, c in vars(G).items():      # de-duplicated: a few classes are exported under two names
    if inspect.isclass(c) and c.__module__ == G.__name__ and hasattr(c, "avp_def") and c not in classes:
        classes.append(c)
lost = []
for cls in classes:
    obj = cls()
    assign_attr_from_defs(obj, [extra_avp()])
    out = [a.as_bytes() for a in generate_avps_from_defs(obj)]
    if extra_avp().as_bytes() not in out:
        lost.append(cls.__name__)
print("container classes that drop an undeclared member AVP: %d of %d" % (len(lost), len(classes)))
print("   e.g.", ", ".join(lost[:12]), "...")
if lost:
    failed = True

if failed:
    print("VIOLATION")
    sys.exit(1)
print("no violation")
sys.exit(0)
