"""
C15 / finding 1 -- a queued message is never handed to the transport when the
connection is in PEER_CLOSING and the writer thread has not yet appended the
message to the write buffer.

The I/O loop (Node._handle_connections) decides "nothing more to send, close
the socket" by looking ONLY at `len(conn.write_buffer) == 0`; it ignores
messages that are still in `conn._write_msg_queue` or already taken out of the
queue by the writer thread but not yet appended to the buffer.

Scenario (all legitimate network input, one single preemption of the writer
thread, no private state touched):

    1. a peer connects over real TCP (loopback) and completes CER/CEA
    2. the peer sends  DWR + DPA  back to back in one segment
    3. the connection's reader thread queues the DWA (answer to the DWR) and
       then handles the DPA:  state = PEER_CLOSING, demand_attention()
    4. the writer thread is preempted on the line `with self.write_lock:`
       (it holds the dequeued DWA, the buffer is still empty) -- forced here
       with a line tracer, which is exactly a preemption at source-line
       granularity
    5. the I/O loop sees CLOSING + empty buffer -> resets the socket

Observation point: byte log of the server side socket's send() calls
(accepted bytes only), compared with the concatenation of the encodings of
all messages queued with PeerConnection.add_out_msg for that connection.

exit 1 = violation observed, exit 0 = library behaved as the property says.
"""
import linecache
import socket
import sys
import threading
import time

from diameter.message import Message
from diameter.message.commands import (CapabilitiesExchangeRequest,
                                       DeviceWatchdogRequest,
                                       DisconnectPeerAnswer)
from diameter.message.constants import (APP_RELAY,
                                        E_RESULT_CODE_DIAMETER_SUCCESS)
from diameter.node import Node
import diameter.node.peer as peer_mod
from diameter.node.peer import PeerConnection

# --------------------------------------------------------------------------
# observation: bytes accepted by send() per socket object, messages queued
# --------------------------------------------------------------------------
send_log: dict[int, bytearray] = {}
_orig_send = socket.socket.send


def _logging_send(self, data, *args):
    n = _orig_send(self, data, *args)
    send_log.setdefault(id(self), bytearray()).extend(bytes(data)[:n])
    return n


socket.socket.send = _logging_send

queued: dict[int, list[Message]] = {}
_orig_add_out_msg = PeerConnection.add_out_msg


def _recording_add_out_msg(self, out_msg):
    queued.setdefault(id(self), []).append(out_msg)
    return _orig_add_out_msg(self, out_msg)


PeerConnection.add_out_msg = _recording_add_out_msg

# --------------------------------------------------------------------------
# schedule control: preempt the writer thread once, on `with self.write_lock`
# --------------------------------------------------------------------------
writer_code = PeerConnection.work_write_queue.__code__
target_line = None
for ln in range(writer_code.co_firstlineno, writer_code.co_firstlineno + 60):
    text = linecache.getline(peer_mod.__file__, ln).strip()
    if text.startswith("with self.write_lock"):
        target_line = ln
        break
if target_line is None:
    for ln in range(writer_code.co_firstlineno, writer_code.co_firstlineno + 60):
        if "as_bytes()" in linecache.getline(peer_mod.__file__, ln):
            target_line = ln
            break

armed = threading.Event()
reached = threading.Event()
gate = threading.Event()


def _local_trace(frame, event, arg):
    if event == "line" and frame.f_lineno == target_line and armed.is_set():
        armed.clear()
        reached.set()
        gate.wait(20)
    return _local_trace


def _tracer(frame, event, arg):
    if frame.f_code is writer_code:
        return _local_trace
    return None


threading.settrace(_tracer)


# --------------------------------------------------------------------------
def read_msg(sock: socket.socket) -> bytes:
    buf = b""
    while len(buf) < 20:
        chunk = sock.recv(20 - len(buf))
        if not chunk:
            raise EOFError
        buf += chunk
    length = int.from_bytes(buf[1:4], "big")
    while len(buf) < length:
        chunk = sock.recv(length - len(buf))
        if not chunk:
            raise EOFError
        buf += chunk
    return buf


def split_messages(data: bytes) -> list[Message]:
    out = []
    while len(data) >= 20:
        length = int.from_bytes(data[1:4], "big")
        if length < 20 or length > len(data):
            break
        out.append(Message.from_bytes(data[:length]))
        data = data[length:]
    return out


def free_port() -> int:
    s = socket.socket()
    s.bind(("127.0.0.1", 0))
    p = s.getsockname()[1]
    s.close()
    return p


def run_trial(node: Node, port: int, trial: int, forced: bool):
    """One connection: CER/CEA, then DWR+DPA in one segment. Returns
    (queued messages, bytes handed to the transport, closed-while-pending)."""
    send_log.clear()
    queued.clear()
    reached.clear()
    gate.clear()
    client = socket.create_connection(("127.0.0.1", port), timeout=5)
    conn = None
    try:
        base = trial * 10
        cer = CapabilitiesExchangeRequest()
        cer.header.hop_by_hop_identifier = base + 1
        cer.header.end_to_end_identifier = base + 1
        cer.origin_host = b"client.example.com"
        cer.origin_realm = b"example.com"
        cer.host_ip_address = "127.0.0.1"
        cer.vendor_id = 99999
        cer.product_name = "demo-peer"
        cer.auth_application_id = [APP_RELAY]
        client.sendall(cer.as_bytes())
        cea = Message.from_bytes(read_msg(client))
        assert cea.result_code == E_RESULT_CODE_DIAMETER_SUCCESS, cea.result_code

        conn = list(node.connections.values())[0]
        sock_key = id(node.peer_sockets[conn.ident])

        dwr = DeviceWatchdogRequest()
        dwr.header.hop_by_hop_identifier = base + 2
        dwr.header.end_to_end_identifier = base + 2
        dwr.origin_host = b"client.example.com"
        dwr.origin_realm = b"example.com"

        dpa = DisconnectPeerAnswer()
        dpa.header.hop_by_hop_identifier = base + 3
        dpa.header.end_to_end_identifier = base + 3
        dpa.result_code = E_RESULT_CODE_DIAMETER_SUCCESS
        dpa.origin_host = b"client.example.com"
        dpa.origin_realm = b"example.com"

        closed_while_msg_pending = None
        if forced:
            armed.set()
        client.sendall(dwr.as_bytes() + dpa.as_bytes())

        if forced:
            if not reached.wait(10):
                print("INCONCLUSIVE: writer thread never reached the append line")
                return None
            # the writer is now preempted holding the dequeued DWA. Give the
            # I/O loop ample time (3 wakeup intervals) to act on the DPA.
            deadline = time.time() + 3
            while conn.ident in node.connections and time.time() < deadline:
                time.sleep(0.01)
            closed_while_msg_pending = conn.ident not in node.connections
            gate.set()  # resume the writer

        # the DPA makes the node close the connection in every case
        deadline = time.time() + 5
        while conn.ident in node.connections and time.time() < deadline:
            time.sleep(0.002)
        time.sleep(0.05 if not forced else 0.3)

        handed = bytes(send_log.get(sock_key, b""))
        q_msgs = list(queued.get(id(conn), []))
        return q_msgs, handed, closed_while_msg_pending
    finally:
        gate.set()
        armed.clear()
        try:
            client.close()
        except OSError:
            pass
        if conn is not None:
            conn.close(signal_node=False)


def describe(m: Message) -> str:
    return (f"{m.name}{'-Request' if m.header.is_request else '-Answer'} "
            f"hbh={m.header.hop_by_hop_identifier}")


def main() -> int:
    port = free_port()
    node = Node("srv.example.com", "example.com",
                ip_addresses=["127.0.0.1"], tcp_port=port)
    node.wakeup_interval = 1
    node.idle_timeout = 600
    node.add_peer("aaa://client.example.com", "example.com")
    node.start()
    try:
        # ---- phase 1: deterministic, one forced preemption of the writer ----
        print("== phase 1: forced schedule (writer preempted once on "
              "`with self.write_lock:`) ==")
        res = run_trial(node, port, 0, forced=True)
        if res is None:
            return 0
        q_msgs, handed, closed_while_pending = res
        expected = b"".join(m.as_bytes() for m in q_msgs)
        print("messages queued for the connection (add_out_msg order):")
        for m in q_msgs:
            print(f"    {describe(m)} ({len(m.as_bytes())} bytes)")
        print("messages handed to the transport (server socket send() log):")
        for m in split_messages(handed):
            print(f"    {describe(m)} ({m.header.length} bytes)")
        print(f"socket closed by the node while a dequeued message was still "
              f"waiting to be appended: {closed_while_pending}")
        print(f"bytes queued={len(expected)}  bytes handed to transport={len(handed)}")
        forced_violation = handed != expected

        # ---- phase 2: informational, NO schedule control at all -------------
        threading.settrace(None)
        trials = 100
        lost = 0
        for i in range(1, trials + 1):
            res = run_trial(node, port, i, forced=False)
            q_msgs, handed, _ = res
            if handed != b"".join(m.as_bytes() for m in q_msgs):
                lost += 1
        print(f"== phase 2: natural scheduling, no hooks: the queued DWA was "
              f"never handed to the transport in {lost} of {trials} "
              f"connections ==")

        if not forced_violation and lost == 0:
            print("OK: transport bytes == concatenation of the queued messages")
            return 0

        print("VIOLATION OBSERVED: the bytes handed to the transport are NOT "
              "the concatenation of the encodings of the queued messages: the "
              "Device-Watchdog-Answer queued before the connection went to "
              "CLOSING is present zero times (the node reset the socket "
              "because write_buffer was momentarily empty while the message "
              "was still on its way from the message queue to the buffer).")
        print("REQUIRED (C15): 'exactly the concatenation of the encodings of "
              "the messages queued for it, in queueing order, each message "
              "contiguous and present exactly once ... for every interleaving "
              "of the queueing threads, the connection's writer and the I/O "
              "loop'.")
        return 1
    finally:
        gate.set()
        threading.settrace(None)
        try:
            node.stop(wait_timeout=2, force=True)
        except Exception as e:  # noqa
            print(f"(node.stop: {e})")
        for c in list(node.connections.values()):
            c.close(signal_node=False)


if __name__ == "__main__":
    rc = main()
    sys.stdout.flush()
    sys.exit(rc)
