"""
C10 finding 2: Application._answer_waiting is keyed by the hop-by-hop id only,
but hop-by-hop ids are generated PER CONNECTION (PeerConnection.hop_by_hop_seq,
each with its own random start).  When two requests of one application are
outstanding on two different connections with the same hop-by-hop id, the
second registration overwrites the first one: the answer to request 1 is
handed to the sender of request 2 (wrong end-to-end id, wrong connection) and
the sender of request 1 ends with a KeyError.

The coincidence "both per-connection generators are at the same value" is
modelled by pinning random.randint while the two connections are created (the
two independent 32-bit sequences advance at different speeds on a busy node
and therefore cross each other sooner or later; nothing prevents the overlap).
Everything else is the public API: two ready peers, a round-robin
peer_route_select_func, two threads calling send_request.
"""
import itertools
import sys
import threading
import time

from diameter.message import constants
from diameter.message.commands import (CapabilitiesExchangeAnswer,
                                       CreditControlRequest)
from diameter.node import Node
from diameter.node import _helpers
from diameter.node.application import Application
from diameter.node.peer import (PeerConnection, PEER_SEND, PEER_CONNECTED,
                                PEER_TRANSPORT_TCP, PEER_READY)


class FakeSocket:
    _n = 1000

    def __init__(self):
        FakeSocket._n += 1
        self._fileno = FakeSocket._n

    def fileno(self):
        return self._fileno

    def close(self):
        pass

    def setsockopt(self, *a):
        pass


def connect_ready(node, peer, sent):
    conn = PeerConnection(peer.ip_addresses, peer.port, PEER_SEND,
                          node.interrupt_write)
    conn.state = PEER_CONNECTED
    conn.node_name = peer.node_name
    conn.origin_host = node.origin_host
    conn.host_ip_address = ["127.0.0.1"]
    real_add = conn.add_out_msg

    def recorder(msg):
        sent.append((conn, msg))
        real_add(msg)
    conn.add_out_msg = recorder
    node._add_peer_connection(conn, FakeSocket(), PEER_TRANSPORT_TCP)
    node.send_cer(conn)
    cer = [m for c, m in sent if c is conn][-1]
    cea = CapabilitiesExchangeAnswer()
    cea.header.hop_by_hop_identifier = cer.header.hop_by_hop_identifier
    cea.header.end_to_end_identifier = cer.header.end_to_end_identifier
    cea.result_code = constants.E_RESULT_CODE_DIAMETER_SUCCESS
    cea.origin_host = peer.node_name.encode()
    cea.origin_realm = peer.realm_name.encode()
    cea.host_ip_address = "10.0.0.1"
    cea.vendor_id = 99999
    cea.product_name = "fake"
    cea.auth_application_id = [constants.APP_DIAMETER_CREDIT_CONTROL_APPLICATION]
    conn.add_in_bytes(cea.as_bytes())
    deadline = time.time() + 10
    while conn.state != PEER_READY and time.time() < deadline:
        time.sleep(0.01)
    assert conn.state == PEER_READY
    return conn


class RecordingApp(Application):
    def __init__(self, *a, **kw):
        super().__init__(*a, **kw)
        self.unexpected = []

    def handle_request(self, message):
        pass

    def handle_answer(self, message):
        self.unexpected.append(message)


def new_ccr(node):
    ccr = CreditControlRequest()
    ccr.session_id = node.session_generator.next_id()
    ccr.origin_host = b"client.realm.net"
    ccr.origin_realm = b"realm.net"
    ccr.destination_realm = b"realm.net"
    ccr.auth_application_id = constants.APP_DIAMETER_CREDIT_CONTROL_APPLICATION
    ccr.service_context_id = "x@y"
    ccr.cc_request_type = constants.E_CC_REQUEST_TYPE_EVENT_REQUEST
    ccr.cc_request_number = 0
    return ccr


def answer_for(req, origin):
    ans = req.to_answer()
    ans.session_id = req.session_id
    ans.origin_host = origin
    ans.origin_realm = b"realm.net"
    ans.result_code = constants.E_RESULT_CODE_DIAMETER_SUCCESS
    ans.auth_application_id = req.auth_application_id
    ans.cc_request_type = req.cc_request_type
    ans.cc_request_number = req.cc_request_number
    return ans


node = Node("client.realm.net", "realm.net")
peer_a = node.add_peer("aaa://a.realm.net", "realm.net", ["10.0.0.1"])
peer_b = node.add_peer("aaa://b.realm.net", "realm.net", ["10.0.0.2"])
app = RecordingApp(constants.APP_DIAMETER_CREDIT_CONTROL_APPLICATION,
                   is_auth_application=True)
node.add_application(app, [peer_a, peer_b])

# the two per-connection generators happen to start at the same value
real_randint = _helpers.random.randint
_helpers.random.randint = lambda lo, hi: 0x1000
sent = []
conn_a = connect_ready(node, peer_a, sent)
conn_b = connect_ready(node, peer_b, sent)
_helpers.random.randint = real_randint

# custom selection callback: plain round robin over the offered peers
rr = itertools.count()
offered = []


def round_robin(node_, app_, message, peers):
    offered.append([p.node_name for p in peers])
    return peers[next(rr) % len(peers)]


node.peer_route_select_func = round_robin

req1, req2 = new_ccr(node), new_ccr(node)
results = {}


def sender(name, req):
    try:
        r = app.send_request(req, timeout=4)
        results[name] = ("answer", r.header.hop_by_hop_identifier,
                         r.header.end_to_end_identifier)
    except TimeoutError:
        results[name] = ("timeout",)
    except Exception as e:
        results[name] = ("exception", repr(e))


def wait_sent(req):
    deadline = time.time() + 10
    while time.time() < deadline:
        for c, m in sent:
            if m is req:
                return c
        time.sleep(0.01)
    raise AssertionError("request never written")


t1 = threading.Thread(target=sender, args=("sender1", req1))
t1.start()
c1 = wait_sent(req1)
t2 = threading.Thread(target=sender, args=("sender2", req2))
t2.start()
c2 = wait_sent(req2)

ids1 = (req1.header.hop_by_hop_identifier, req1.header.end_to_end_identifier)
ids2 = (req2.header.hop_by_hop_identifier, req2.header.end_to_end_identifier)
print(f"request 1 -> {c1.node_name}  ids (hbh, e2e) = {ids1}")
print(f"request 2 -> {c2.node_name}  ids (hbh, e2e) = {ids2}")
assert c1 is not c2, "round robin should have used both connections"

# only peer A answers (request 1); peer B stays silent
c1.add_in_bytes(answer_for(req1, c1.node_name.encode()).as_bytes())
t1.join(20)
t2.join(20)
conn_a.close(signal_node=False)
conn_b.close(signal_node=False)

print(f"sender1 outcome: {results.get('sender1')}")
print(f"sender2 outcome: {results.get('sender2')}")
print(f"handle_answer invocations: {len(app.unexpected)}")
print("property requires: each blocked sender receives exactly the answer "
      "bearing ITS identifiers or times out (sender1 -> answer "
      f"{ids1}, sender2 -> timeout)")

ok1 = results.get("sender1") == ("answer",) + ids1
ok2 = results.get("sender2") == ("timeout",)
if ok1 and ok2:
    print("OK")
    sys.exit(0)
if results.get("sender2", ("",))[0] == "answer" and results["sender2"][1:] != ids2:
    print("VIOLATION: sender2 was handed the answer to request 1 "
          f"(e2e {results['sender2'][2]} != its own {ids2[1]}), sent to a "
          "different peer")
if not ok1:
    print("VIOLATION: sender1 neither got its answer nor a timeout: "
          f"{results.get('sender1')}")
sys.exit(1)
