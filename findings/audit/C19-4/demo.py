"""C19 finding 4: PeerConnection.__init__ starts its read worker, then its
write worker.  If the second Thread.start() fails ("RuntimeError: can't start
new thread" - the very fault ThreadingApplication._wait_for_recv_msg already
guards against), the constructor raises, nobody holds the half-built
connection object, and its already running read worker is never stopped.
Node._reconnect_peers swallows the exception and tries again, so every
connection attempt that fails this way leaves one more worker thread alive
for the rest of the process life - Node.stop() does not know about it either.

History per run: a started client node with one persistent peer whose port
refuses connections; K connection attempts fail to be established because
the OS refuses the second worker thread; afterwards the fault is gone, a few
ordinary (refused) attempts follow, the node is stopped, and we wait longer
than the 5 s the workers need to notice a stop flag.

exit 1 = number of live worker threads depends on K (violation), else 0.
"""
import logging
import socket
import sys
import threading
import time

from diameter.message import constants
from diameter.node import Node
from diameter.node.application import SimpleThreadingApplication

logging.disable(logging.CRITICAL)

_orig_start = threading.Thread.start
_budget = {"n": 0, "hit": 0}


def _faulty_start(self):
    """The OS refuses to create a thread while the budget lasts; only the
    start of a connection's write worker is hit, i.e. the 2nd start inside
    PeerConnection.__init__."""
    target = getattr(self, "_target", None)
    if _budget["n"] > 0 and getattr(target, "__name__", "") == "work_write_queue":
        _budget["n"] -= 1
        _budget["hit"] += 1
        raise RuntimeError("can't start new thread")
    return _orig_start(self)


def free_port() -> int:
    s = socket.socket()
    s.bind(("127.0.0.1", 0))
    port = s.getsockname()[1]
    s.close()
    return port


def wait_for(cond, timeout=20.0):
    end = time.time() + timeout
    while time.time() < end:
        if cond():
            return True
        time.sleep(0.02)
    return False


def workers():
    return [t for t in threading.enumerate()
            if getattr(getattr(t, "_target", None), "__name__", "")
            in ("work_read_queue", "work_write_queue")]


def run(k: int) -> dict:
    before = threading.active_count()
    port = free_port()                     # nobody listens here
    node = Node("cli.example.net", "example.net")
    node.wakeup_interval = 0.2
    app = SimpleThreadingApplication(
        constants.APP_DIAMETER_BASE_ACCOUNTING, is_acct_application=True)
    peer = node.add_peer(f"aaa://srv.example.net:{port}", "example.net",
                         ip_addresses=["127.0.0.1"], is_persistent=True)
    peer.reconnect_wait = 1
    node.add_application(app, [peer])
    node.start()
    # the first attempt is refused asynchronously and cleaned up
    assert wait_for(lambda: peer.last_disconnect is not None and
                    not node.connections), "first attempt not finished"

    threading.Thread.start = _faulty_start
    _budget["hit"] = 0
    _budget["n"] = k
    try:
        assert wait_for(lambda: _budget["n"] == 0), "fault not consumed"
    finally:
        threading.Thread.start = _orig_start
    failed_attempts = _budget["hit"]
    time.sleep(2.5)                        # some ordinary refused attempts
    node.stop(force=True)
    time.sleep(6.5)                        # > 5 s: stop flags are noticed
    leaked = workers()
    res = {"attempts_failed_in_constructor": failed_attempts,
           "node.connections": len(node.connections),
           "node.peer_sockets": len(node.peer_sockets),
           "live worker threads": len(leaked),
           "threads before/after": (before, threading.active_count())}
    return res


base = len(workers())
r1 = run(1)
n1 = r1["live worker threads"] - base
r3 = run(3)
n3 = r3["live worker threads"] - base - n1
print("K=1:", r1, "-> new live workers:", n1)
print("K=3:", r3, "-> new live workers:", n3)
print("required : worker threads are released when the connection ... fails "
      "to be established; after every connection has ended the number of live "
      "worker threads is independent of the number of connection attempts")

# let the process terminate: the orphans are StoppableThreads
for t in workers():
    t.stop()

if n1 != 0 or n3 != 0:
    print(f"OBSERVED VIOLATION: {n1} orphaned read worker after 1 failed "
          f"attempt, {n3} more after 3 failed attempts; they outlive "
          f"Node.stop() and would run forever")
    sys.exit(1)
print("OK: no worker thread survives")
sys.exit(0)
