"""C08 / finding 2: a request that matches a registered application and carries
every required AVP, but contains one OPTIONAL grouped AVP with malformed
contents, is silently discarded: the application never sees it and the node
sends no answer at all.

Run: PYTHONPATH=/repo/src /venv/bin/python /repo/_audit/2/demo.py
exit 1 = violation observed, exit 0 = behaves as the property says.
"""
import logging
import socket
import sys
import time

from diameter.message import Message, constants
from diameter.message.avp import Avp
from diameter.message.commands import (CapabilitiesExchangeRequest,
                                       CreditControlRequest,
                                       DeviceWatchdogRequest)
from diameter.node import Node
from diameter.node.application import Application
from diameter.node.peer import (PeerConnection, PEER_RECV, PEER_CONNECTED,
                                PEER_READY_STATES, PEER_TRANSPORT_TCP)

logging.disable(logging.CRITICAL)

OWN_REALM = "own.realm"
PEER_HOST = "peer1.own.realm"


class RecApp(Application):
    def __init__(self, *a, **k):
        super().__init__(*a, **k)
        self.got = []

    def handle_request(self, message):
        self.got.append(message)


def take_answers(conn):
    out = []
    with conn.write_lock:
        buf = conn.write_buffer
        pos = 0
        while len(buf) - pos >= 20:
            ln = int.from_bytes(buf[pos + 1:pos + 4], "big")
            if len(buf) - pos < ln:
                break
            out.append(Message.from_bytes(buf[pos:pos + ln]))
            pos += ln
        conn.remove_out_bytes(pos)
    return out


def exchange(conn, wire, sentinel_id, timeout=10.0):
    """Feed bytes followed by a DWR sentinel. The read thread handles messages
    sequentially, so once the DWA of the sentinel is visible the request in
    front of it has been fully dealt with."""
    dwr = DeviceWatchdogRequest()
    dwr.header.hop_by_hop_identifier = sentinel_id
    dwr.header.end_to_end_identifier = sentinel_id
    dwr.origin_host = PEER_HOST.encode()
    dwr.origin_realm = OWN_REALM.encode()
    conn.add_in_bytes(wire + dwr.as_bytes())
    got = []
    deadline = time.time() + timeout
    while time.time() < deadline:
        got += take_answers(conn)
        if any(m.header.command_code == 280 and
               m.header.hop_by_hop_identifier == sentinel_id for m in got):
            return [m for m in got if m.header.command_code != 280], True
        time.sleep(0.02)
    return [m for m in got if m.header.command_code != 280], False


def ccr(ident):
    m = CreditControlRequest()
    m.header.application_id = 4
    m.header.hop_by_hop_identifier = ident
    m.header.end_to_end_identifier = ident
    m.session_id = f"{PEER_HOST};1;{ident}"
    m.origin_host = PEER_HOST.encode()
    m.origin_realm = OWN_REALM.encode()
    m.destination_realm = OWN_REALM.encode()
    m.auth_application_id = 4
    m.service_context_id = "32251@3gpp.org"
    m.cc_request_type = constants.E_CC_REQUEST_TYPE_INITIAL_REQUEST
    m.cc_request_number = 0
    return m


def main():
    node = Node("node.own.realm", OWN_REALM)
    peer = node.add_peer(f"aaa://{PEER_HOST}", OWN_REALM)
    app = RecApp(constants.APP_DIAMETER_CREDIT_CONTROL_APPLICATION,
                 is_auth_application=True)
    node.add_application(app, [peer])

    sock_a, sock_b = socket.socketpair()
    conn = PeerConnection("10.0.0.9", 3868, PEER_RECV,
                          interrupt_fileno=node.interrupt_write)
    conn.state = PEER_CONNECTED
    node._add_peer_connection(conn, sock_a, PEER_TRANSPORT_TCP)

    violations = []
    try:
        cer = CapabilitiesExchangeRequest()
        cer.header.hop_by_hop_identifier = 1
        cer.header.end_to_end_identifier = 1
        cer.origin_host = PEER_HOST.encode()
        cer.origin_realm = OWN_REALM.encode()
        cer.host_ip_address = ["10.0.0.9"]
        cer.vendor_id = 99999
        cer.product_name = "demo"
        cer.auth_application_id = [4]
        conn.add_in_bytes(cer.as_bytes())
        deadline = time.time() + 10
        cea = []
        while time.time() < deadline and not cea:
            cea = take_answers(conn)
            time.sleep(0.02)
        assert cea and cea[0].result_code == 2001, "CER/CEA failed"
        assert conn.state in PEER_READY_STATES
        print(f"connection of {PEER_HOST} is ready (CEA 2001)")

        # control: the well-formed CCR is delivered
        answers, ok = exchange(conn, ccr(100).as_bytes(), 5000)
        print(f"control CCR: application saw {len(app.got)} request(s), node "
              f"wrote {len(answers)} answer(s), connection responsive={ok}")
        assert ok and len(app.got) == 1 and not answers, "control failed"

        # the inner AVP header of the grouped AVP is truncated after 5 bytes;
        # the outer AVP (code, flags, length, padding) is perfectly framed
        for label, code in (("Subscription-Id", constants.AVP_SUBSCRIPTION_ID),
                            ("Proxy-Info", constants.AVP_PROXY_INFO)):
            app.got.clear()
            m = ccr(200 + code)
            bad = Avp.new(code)
            bad.payload = b"\x00\x00\x01\xc2\x40"
            m.append_avp(bad)
            wire = m.as_bytes()
            answers, ok = exchange(conn, wire, 6000 + code)
            rcs = [getattr(a, "result_code", None) for a in answers]
            print(f"\nCCR with every required AVP plus one optional {label} "
                  f"AVP whose grouped payload is truncated "
                  f"({len(wire)} bytes, well framed):")
            print(f"  application saw {len(app.got)} request(s); node wrote "
                  f"{len(answers)} answer(s) {rcs}; connection still "
                  f"responsive={ok}")
            delivered = len(app.got) == 1 and not answers
            rejected = (not app.got and len(answers) == 1
                        and rcs[0] is not None)
            if not (delivered or rejected):
                violations.append(
                    f"{label}: request neither handed to the application nor "
                    f"answered by the node (app saw {len(app.got)}, answers "
                    f"{rcs})")
    finally:
        conn.close(signal_node=False)
        sock_a.close()
        sock_b.close()

    print()
    if violations:
        print("VIOLATION of C08: 'a request whose application id, destination "
              "realm and originating peer match a registered application and "
              "which carries every AVP its command requires is handed to that "
              "application exactly once ... Otherwise the node answers "
              "itself':")
        for v in violations:
            print("  -", v)
        return 1
    print("OK: the request was either handed to the application exactly once "
          "or answered by the node")
    return 0


if __name__ == "__main__":
    sys.exit(main())
