"""C19 finding 2: the duplicate-detection table Node._sent_answers gets one
deque per Origin-Host ever seen in an answered request and no entry is ever
removed - not when the request is answered, not when the connection of that
host closes or is refused.

Part A: N connection attempts by UNKNOWN peers (each with its own Origin-Host,
        each rejected with DIAMETER_UNKNOWN_PEER and closed by the node).
Part B: N completed request/answer transactions over ONE configured peer that
        relays for N different originating hosts (Origin-Host AVP differs per
        request, as it does behind any relay/proxy agent).

Both are run for N=5 and N=40 on a started node with real loopback TCP; the
retained state at quiescence is compared.

exit 1 = retained state depends on N (violation), exit 0 = independent of N.
"""
import collections
import logging
import socket
import sys
import threading
import time

from diameter.message import Message, constants
from diameter.message.commands import (AccountingRequest,
                                       CapabilitiesExchangeRequest)
from diameter.node import Node
from diameter.node.application import SimpleThreadingApplication

logging.disable(logging.CRITICAL)


def free_port() -> int:
    s = socket.socket()
    s.bind(("127.0.0.1", 0))
    port = s.getsockname()[1]
    s.close()
    return port


def wait_for(cond, timeout=15.0):
    end = time.time() + timeout
    while time.time() < end:
        if cond():
            return True
        time.sleep(0.02)
    return False


class MsgReader:
    def __init__(self, sock):
        self.sock = sock
        self.buf = b""

    def next(self) -> Message | None:
        while len(self.buf) < 20 or len(self.buf) < int.from_bytes(self.buf[1:4], "big"):
            try:
                d = self.sock.recv(4096)
            except ConnectionResetError:
                return None
            if not d:
                return None
            self.buf += d
        ln = int.from_bytes(self.buf[1:4], "big")
        msg, self.buf = Message.from_bytes(self.buf[:ln]), self.buf[ln:]
        return msg


def make_cer(origin_host: str, e2e: int) -> CapabilitiesExchangeRequest:
    cer = CapabilitiesExchangeRequest()
    cer.header.hop_by_hop_identifier = 1
    cer.header.end_to_end_identifier = e2e
    cer.origin_host = origin_host.encode()
    cer.origin_realm = b"example.net"
    cer.host_ip_address = "127.0.0.1"
    cer.vendor_id = 1
    cer.product_name = "demo"
    cer.acct_application_id = [constants.APP_DIAMETER_BASE_ACCOUNTING]
    return cer


def total_entries(table: dict) -> int:
    return sum(len(v) for v in table.values())


def run(n: int) -> dict:
    port = free_port()
    node = Node("srv.example.net", "example.net",
                ip_addresses=["127.0.0.1"], tcp_port=port)
    node.wakeup_interval = 0.2

    def handler(app, msg):
        return app.generate_answer(
            msg, result_code=constants.E_RESULT_CODE_DIAMETER_SUCCESS)

    app = SimpleThreadingApplication(
        constants.APP_DIAMETER_BASE_ACCOUNTING, is_acct_application=True,
        request_handler=handler)
    peer = node.add_peer("aaa://relay.example.net", "example.net")
    node.add_application(app, [peer])
    node.start()
    res = {}
    try:
        # ---- part A: N unknown peers, each refused and closed ------------
        refused = 0
        for i in range(n):
            s = socket.create_connection(("127.0.0.1", port))
            s.settimeout(10)
            s.sendall(make_cer(f"stranger-{i}.example.org", i + 1).as_bytes())
            rd = MsgReader(s)
            cea = rd.next()
            if cea is not None and cea.result_code == constants.E_RESULT_CODE_DIAMETER_UNKNOWN_PEER:
                refused += 1
            while cea is not None:      # wait for the node to close
                cea = rd.next()
            s.close()
        assert wait_for(lambda: len(node.connections) == 0)
        res["A_attempts"] = n
        res["A_refused_with_UNKNOWN_PEER_seen"] = refused
        res["A_connections"] = len(node.connections)
        res["A_sent_answers_keys"] = len(node._sent_answers)
        res["A_origin_waiting"] = len(node._origin_waiting_answer)
        keys_after_a = len(node._sent_answers)

        # ---- part B: one configured peer relaying for N origin hosts -----
        s = socket.create_connection(("127.0.0.1", port))
        s.settimeout(10)
        rd = MsgReader(s)
        s.sendall(make_cer("relay.example.net", 1).as_bytes())
        assert rd.next().result_code == 2001
        ok = 0
        for i in range(n):
            acr = AccountingRequest()
            acr.header.application_id = constants.APP_DIAMETER_BASE_ACCOUNTING
            acr.header.hop_by_hop_identifier = 100 + i
            acr.header.end_to_end_identifier = 7000 + i
            acr.session_id = f"client-{i}.example.net;1;{i}"
            acr.origin_host = f"client-{i}.example.net".encode()
            acr.origin_realm = b"example.net"
            acr.destination_realm = b"example.net"
            acr.accounting_record_type = constants.E_ACCOUNTING_RECORD_TYPE_EVENT_RECORD
            acr.accounting_record_number = i
            acr.acct_application_id = constants.APP_DIAMETER_BASE_ACCOUNTING
            s.sendall(acr.as_bytes())
            aca = rd.next()
            if aca is not None and aca.result_code == 2001 and \
                    aca.header.hop_by_hop_identifier == 100 + i:
                ok += 1
        s.close()
        assert wait_for(lambda: len(node.connections) == 0)
        res["B_transactions"] = n
        res["B_answered_2001"] = ok
        res["B_sent_answers_keys_added"] = len(node._sent_answers) - keys_after_a
    finally:
        node.stop(force=True)
    time.sleep(0.5)
    res["final_connections"] = len(node.connections)
    res["final_origin_waiting"] = len(node._origin_waiting_answer)
    res["final_peer_waiting"] = len(node._peer_waiting_answer)
    res["final_app_waiting"] = len(node._app_waiting_answer)
    res["final_sent_answers_keys"] = len(node._sent_answers)
    res["final_sent_answers_ids"] = total_entries(node._sent_answers)
    return res


small, large = run(5), run(40)
print("N=5 :", small)
print("N=40:", large)
print("property requires : duplicate-detection records are released when the "
      "transaction completes / the connection closes or is refused; retained "
      "state independent of the number of transactions and connection "
      "attempts, apart from the documented fixed-size retransmission window "
      "(Node.retransmit_queue_size identifiers)")
bad = False
if small["A_sent_answers_keys"] != large["A_sent_answers_keys"]:
    print(f"OBSERVED VIOLATION (A): after N refused unknown-peer connection "
          f"attempts (all closed) Node._sent_answers holds "
          f"{small['A_sent_answers_keys']} deques for N=5 and "
          f"{large['A_sent_answers_keys']} for N=40")
    bad = True
if small["B_sent_answers_keys_added"] != large["B_sent_answers_keys_added"]:
    print(f"OBSERVED VIOLATION (B): after N answered requests of N origin "
          f"hosts over one peer (connection closed) Node._sent_answers grew "
          f"by {small['B_sent_answers_keys_added']} deques for N=5 and "
          f"{large['B_sent_answers_keys_added']} for N=40")
    bad = True
if bad:
    sys.exit(1)
print("OK: retained state independent of N")
sys.exit(0)
