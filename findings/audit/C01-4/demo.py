"""C01 / finding 4: an AVP definition registered at run time with vendor=0
("no vendor" everywhere else in the API) lands in a table the codec never
consults, so the definition is ignored by both encoder and decoder.

Property clause: "... decoding those bytes yields an AVP of the dictionary's
type with equal code, vendor, flags and value" - quantified over "every
(code, vendor) entry of the AVP dictionary, definitions registered at run
time and unknown codes".
"""
import struct
import sys

import diameter
from diameter.message.avp import Avp, AvpUnsigned32, AvpUtf8String
from diameter.message.avp import avp as avp_module
from diameter.message.avp.dictionary import AVP_DICTIONARY, AVP_VENDOR_DICTIONARY

print("library under test:", diameter.__file__)

violations = 0
NO_VENDOR = 0                       # Avp(vendor_id=0), Avp.new(vendor_id=0) ...

# control: the same registration with vendor omitted / with a real vendor works
avp_module.register(avp=90000001, name="X-Control-Base", type_cls=AvpUnsigned32,
                    mandatory=True)
avp_module.register(avp=90000002, name="X-Control-Vendor", type_cls=AvpUnsigned32,
                    vendor=99999, mandatory=True)
c1 = Avp.new(90000001, value=7)
c2 = Avp.new(90000002, 99999, value=7)
assert type(Avp.from_bytes(c1.as_bytes())) is AvpUnsigned32
assert type(Avp.from_bytes(c2.as_bytes())) is AvpUnsigned32
print("control: register() without vendor and with vendor=99999 work")

# the case under test
CODE = 90000003
avp_module.register(avp=CODE, name="X-Subscriber-Level", type_cls=AvpUnsigned32,
                    vendor=NO_VENDOR, mandatory=True)
where = ("AVP_DICTIONARY" if CODE in AVP_DICTIONARY else
         "AVP_VENDOR_DICTIONARY[0]" if CODE in AVP_VENDOR_DICTIONARY.get(0, {})
         else "nowhere")
print(f"register(avp={CODE}, type_cls=AvpUnsigned32, vendor=0) stored the "
      f"definition in {where}")

# encoder
try:
    a = Avp.new(CODE, NO_VENDOR, value=5)
    wire = a.as_bytes()
    print("Avp.new ->", type(a).__name__, wire.hex())
except ValueError as e:
    print(f"VIOLATION (encode): Avp.new({CODE}, 0, value=5) -> ValueError: {e}; "
          f"the property requires the registered definition (Unsigned32, M) "
          f"to be used")
    violations += 1

# decoder: RFC 6733 wire form of that AVP (no V flag because vendor id is 0)
wire = struct.pack(">IB", CODE, 0x40) + (12).to_bytes(3, "big") + struct.pack(">I", 5)
d = Avp.from_bytes(wire)
print(f"decoding {wire.hex()} -> {type(d).__name__}, name {d.name!r}, "
      f"value {d.value!r}")
if type(d) is not AvpUnsigned32 or d.value != 5:
    print("VIOLATION (decode): the dictionary's type for this (code, vendor) is "
          "AvpUnsigned32 with value 5; the library returned an untyped Avp "
          "with the raw payload")
    violations += 1

# overriding an existing base definition the same way is silently ignored too
avp_module.register(avp=1, name="User-Name", type_cls=AvpUnsigned32, vendor=NO_VENDOR)
t = type(Avp.new(1))
print("after register(avp=1, type_cls=AvpUnsigned32, vendor=0): Avp.new(1) is",
      t.__name__)
if t is not AvpUnsigned32:
    print("VIOLATION (override): the run-time definition is not the one used")
    violations += 1

if violations:
    print(f"\n{violations} violation(s): definitions registered with vendor=0 "
          "are not honoured by the codec")
    sys.exit(1)
print("no violation")
sys.exit(0)
