"""
C14 finding 4: DPR/DPA exchange, then the connection is lost without the node
seeing a FIN/RST (peer host crashed / cable cut right after it got the DPA).
A connection in PEER_DISCONNECTING state has no timer at all
(Node._check_timers returns for every state but CONNECTED/READY*), so it stays
in the node's tables for good together with its socket and its two worker
threads.  When the peer connects again, its capabilities exchange succeeds and
its requests reach the handler, but every answer is routed to the stale
DISCONNECTING connection (first connection with that host identity) and
dropped as "not routable".

Exit 1 = violation observed, exit 0 = library behaves as the property says.
"""
import logging
import socket
import sys
import time

from diameter.message import Message, constants
from diameter.message.commands import (AccountingRequest,
                                       CapabilitiesExchangeRequest,
                                       DisconnectPeerRequest)
from diameter.node import Node
from diameter.node.application import SimpleThreadingApplication
from diameter.node.node import state_names

logging.basicConfig(level=logging.CRITICAL)

PEER_HOST = "client.example.net"
REALM = "example.net"


def free_port():
    s = socket.socket()
    s.bind(("127.0.0.1", 0))
    p = s.getsockname()[1]
    s.close()
    return p


class Client:
    """A minimal remote Diameter peer on a real TCP socket."""
    def __init__(self, port):
        self.sock = socket.create_connection(("127.0.0.1", port), timeout=5)
        self.buf = b""

    def send(self, msg):
        self.sock.sendall(msg.as_bytes())

    def recv_msg(self, timeout):
        deadline = time.time() + timeout
        while True:
            if len(self.buf) >= 20:
                length = int.from_bytes(self.buf[1:4], "big")
                if len(self.buf) >= length:
                    raw, self.buf = self.buf[:length], self.buf[length:]
                    return Message.from_bytes(raw)
            left = deadline - time.time()
            if left <= 0:
                return None
            self.sock.settimeout(left)
            try:
                data = self.sock.recv(65535)
            except (socket.timeout, TimeoutError):
                return None
            if not data:
                return None
            self.buf += data

    def recv_answer(self, timeout):
        """Next answer; watchdog requests of the node are answered."""
        deadline = time.time() + timeout
        while True:
            m = self.recv_msg(max(0.0, deadline - time.time()))
            if m is None:
                return None
            if not m.header.is_request:
                return m
            if m.header.command_code == constants.CMD_DEVICE_WATCHDOG:
                dwa = m.to_answer()
                dwa.result_code = 2001
                dwa.origin_host = PEER_HOST.encode()
                dwa.origin_realm = REALM.encode()
                self.send(dwa)

    def handshake(self):
        cer = CapabilitiesExchangeRequest()
        cer.header.hop_by_hop_identifier = 1000
        cer.header.end_to_end_identifier = 1000
        cer.origin_host = PEER_HOST.encode()
        cer.origin_realm = REALM.encode()
        cer.host_ip_address = ["127.0.0.1"]
        cer.vendor_id = 99999
        cer.product_name = "demo"
        cer.acct_application_id = [constants.APP_DIAMETER_BASE_ACCOUNTING]
        self.send(cer)
        cea = self.recv_msg(5)
        return None if cea is None else cea.result_code

    def close(self):
        self.sock.close()


def acr(hbh, e2e, session):
    r = AccountingRequest()
    r.header.hop_by_hop_identifier = hbh
    r.header.end_to_end_identifier = e2e
    r.header.application_id = constants.APP_DIAMETER_BASE_ACCOUNTING
    r.acct_application_id = constants.APP_DIAMETER_BASE_ACCOUNTING
    r.session_id = session
    r.origin_host = PEER_HOST.encode()
    r.origin_realm = REALM.encode()
    r.destination_realm = REALM.encode()
    r.accounting_record_type = constants.E_ACCOUNTING_RECORD_TYPE_EVENT_RECORD
    r.accounting_record_number = 1
    return r


def dpr():
    r = DisconnectPeerRequest()
    r.header.hop_by_hop_identifier = 2000
    r.header.end_to_end_identifier = 2000
    r.origin_host = PEER_HOST.encode()
    r.origin_realm = REALM.encode()
    r.disconnect_cause = constants.E_DISCONNECT_CAUSE_REBOOTING
    return r


handled = []


def handler(app, msg):
    handled.append(msg.session_id)
    return app.generate_answer(msg, result_code=2001)


def main():
    port = free_port()
    node = Node("server.example.net", REALM, ip_addresses=["127.0.0.1"],
                tcp_port=port)
    # short timers: anything the node is ever going to clean up by itself
    # happens within a few seconds
    node.wakeup_interval = 1
    node.idle_timeout = 2
    node.dwa_timeout = 1
    node.cer_timeout = 2
    peer = node.add_peer(f"aaa://{PEER_HOST}", REALM)
    app = SimpleThreadingApplication(constants.APP_DIAMETER_BASE_ACCOUNTING,
                                     is_acct_application=True,
                                     request_handler=handler)
    node.add_application(app, [peer])
    node.start()
    verdict = 0
    c1 = c2 = None
    try:
        # --- earlier transaction: a complete DPR/DPA exchange ...
        c1 = Client(port)
        assert c1.handshake() == 2001
        c1.send(acr(1, 1, "before"))
        a = c1.recv_msg(3)
        assert a is not None and a.result_code == 2001, "warm-up failed"
        c1.send(dpr())
        dpa = c1.recv_msg(3)
        assert dpa is not None and dpa.result_code == 2001, "no DPA"
        # ... and then the connection is lost without FIN/RST reaching the
        # node (peer host died): nothing is ever sent on c1 again and the
        # node's socket stays ESTABLISHED.
        old_conn = list(node.connections.values())[0]
        time.sleep(8)

        still_there = old_conn.ident in node.connections
        print(f"8 s after the DPA (idle_timeout=2, dwa_timeout=1): old "
              f"connection still in node.connections: {still_there}, state "
              f"{state_names.get(old_conn.state)}, worker threads alive: "
              f"read={old_conn._read_thread.is_alive()} "
              f"write={old_conn._write_thread.is_alive()}, "
              f"peer.connection is old connection: "
              f"{peer.connection is old_conn}")

        # --- the peer comes back: reconnect-and-serve probe
        c2 = Client(port)
        rc = c2.handshake()
        print(f"reconnect: CEA result code {rc}")
        results = []
        for i in range(2):
            c2.send(acr(100 + i, 100 + i, f"probe-{i}"))
            ans = c2.recv_answer(3)
            results.append(None if ans is None else ans.result_code)
        delivered = [s for s in handled if s.startswith("probe")]
        print(f"probe requests delivered to handler: {delivered}")
        print(f"answers received by the peer       : {results}")
        print("property requires: the lost connection consumes nothing for "
              "good, and the peer that connects afterwards has its requests "
              "answered exactly as on a fresh node (2001, 2001)")
        if still_there or rc != 2001 or results != [2001, 2001]:
            print("VIOLATION: the DISCONNECTING connection is never released "
                  "and swallows the answers of the re-connected peer")
            verdict = 1
        else:
            print("OK")
    finally:
        for c in (c1, c2):
            if c is not None:
                c.close()
        node.stop(wait_timeout=3, force=True)
    return verdict


if __name__ == "__main__":
    rc = main()
    sys.stdout.flush()
    sys.exit(rc)
