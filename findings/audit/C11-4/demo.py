"""C11 finding 4: the watchdog-timeout close of a peer's connection is recorded
as "disconnected by DPR" when the same peer had earlier closed a second
(duplicate) connection with DPR; a persistent peer is then never reconnected.

Run:  PYTHONPATH=/repo/src /venv/bin/python /repo/_audit/4/demo.py
Exit 1 = violation observed (current code), exit 0 = behaves as the property says.
"""
import socket
import sys
import time

_real_monotonic = time.monotonic
CLOCK = [1_700_000_000]
time.time = lambda: float(CLOCK[0])

from diameter.message import constants
from diameter.message.commands import (
    CapabilitiesExchangeRequest, DisconnectPeerRequest)
from diameter.node import Node
from diameter.node.peer import (
    PeerConnection, PEER_RECV, PEER_CONNECTED, PEER_READY,
    PEER_READY_WAITING_DWA, PEER_CLOSED, PEER_TRANSPORT_TCP,
    DISCONNECT_REASON_DWA_TIMEOUT, DISCONNECT_REASON_GONE_AWAY,
    DISCONNECT_REASON_DPR)

IDLE, DWA_T = 30, 4
REASONS = {DISCONNECT_REASON_DWA_TIMEOUT: "DWA_TIMEOUT",
           DISCONNECT_REASON_DPR: "DPR",
           DISCONNECT_REASON_GONE_AWAY: "GONE_AWAY", None: "None"}


def wait_for(cond, real_seconds=3.0):
    end = _real_monotonic() + real_seconds
    while _real_monotonic() < end:
        if cond():
            return True
        time.sleep(0.01)
    return cond()


node = Node("node.example.org", "example.org")
node.idle_timeout = IDLE
node.dwa_timeout = DWA_T
peer = node.add_peer("aaa://peer.example.org", "example.org",
                     ip_addresses=["127.0.0.1"], is_persistent=True)
peer.reconnect_wait = 10

reconnects = []
node._connect_to_peer = lambda p: reconnects.append((CLOCK[0], p.node_name))

socks = []


def inbound(port):
    ours, theirs = socket.socketpair()
    socks.extend((ours, theirs))
    c = PeerConnection("127.0.0.1", port, PEER_RECV, node.interrupt_write)
    c.state = PEER_CONNECTED
    node._add_peer_connection(c, ours, PEER_TRANSPORT_TCP)
    c.sent = []
    orig = c.add_out_msg
    c.add_out_msg = lambda m: (c.sent.append(m), orig(m))
    cer = CapabilitiesExchangeRequest()
    cer.header.hop_by_hop_identifier = port
    cer.header.end_to_end_identifier = port
    cer.origin_host = b"peer.example.org"
    cer.origin_realm = b"example.org"
    cer.host_ip_address = ["127.0.0.1"]
    cer.vendor_id = 1
    cer.product_name = "peer"
    cer.auth_application_id = [constants.APP_RELAY]
    c.add_in_bytes(cer.as_bytes())
    wait_for(lambda: len(c.sent) >= 1)
    return c


T0 = CLOCK[0]
conn_a = inbound(40001)
print(f"t=+0   connection A: state {conn_a.state:#x}, CEA {conn_a.sent[0].result_code}, "
      f"peer.connection is A: {peer.connection is conn_a}")
assert conn_a.state == PEER_READY

# the same peer opens a second transport connection and completes CER/CEA on it
CLOCK[0] = T0 + 1
conn_b = inbound(40002)
print(f"t=+1   connection B (same Origin-Host): state {conn_b.state:#x}, "
      f"CEA {conn_b.sent[0].result_code}")

if conn_b.state == PEER_READY:
    # ... and then gives the duplicate up again, cleanly, with DPR
    CLOCK[0] = T0 + 2
    dpr = DisconnectPeerRequest()
    dpr.header.hop_by_hop_identifier = 7
    dpr.header.end_to_end_identifier = 7
    dpr.origin_host = b"peer.example.org"
    dpr.origin_realm = b"example.org"
    dpr.disconnect_cause = constants.E_DISCONNECT_CAUSE_DO_NOT_WANT_TO_TALK_TO_YOU
    conn_b.add_in_bytes(dpr.as_bytes())
    wait_for(lambda: len(conn_b.sent) >= 2)
    print(f"t=+2   peer sent DPR on B: DPA result {conn_b.sent[1].result_code}, "
          f"B state {conn_b.state:#x}")
    # peer closes B's socket: the node main loop reads 0 bytes and does this
    node.close_connection_socket(conn_b, DISCONNECT_REASON_GONE_AWAY)
    conn_b.close(signal_node=False)
    print(f"t=+2   B's socket closed by the peer; A state {conn_a.state:#x}, "
          f"peer.connection is A: {peer.connection is conn_a}, "
          f"peer.disconnect_reason={REASONS.get(peer.disconnect_reason)}")
else:
    node.close_connection_socket(conn_b, DISCONNECT_REASON_GONE_AWAY)
    conn_b.close(signal_node=False)

# connection A now goes silent
CLOCK[0] = T0 + IDLE + 1
node._check_timers(conn_a)
n_dwr = len([m for m in conn_a.sent
             if m.header.command_code == 280 and m.header.is_request])
print(f"t=+{IDLE + 1}  A idle: DWRs sent={n_dwr}, A state {conn_a.state:#x}")
assert conn_a.state == PEER_READY_WAITING_DWA and n_dwr == 1
CLOCK[0] = T0 + IDLE + 1 + DWA_T + 1
node._check_timers(conn_a)
print(f"t=+{IDLE + DWA_T + 2}  no DWA: A state {conn_a.state:#x} (0x1c = CLOSED), "
      f"peer.connection={peer.connection}, "
      f"peer.disconnect_reason={REASONS.get(peer.disconnect_reason, peer.disconnect_reason)}")
assert conn_a.state == PEER_CLOSED

# persistent peer: the main loop calls _reconnect_peers() on every wakeup
for dt in range(1, 61):
    CLOCK[0] = T0 + IDLE + DWA_T + 2 + dt
    node._reconnect_peers()
print(f"t=+{CLOCK[0] - T0}  reconnect attempts to the persistent peer within 60 s "
      f"(reconnect_wait=10): {len(reconnects)}")

reason = peer.disconnect_reason
for c in (conn_a, conn_b):
    c.close(signal_node=False)
for s in socks:
    try:
        s.close()
    except OSError:
        pass

print()
if reason != DISCONNECT_REASON_DWA_TIMEOUT:
    print(f"OBSERVED: after the watchdog timeout Peer.disconnect_reason is "
          f"{REASONS.get(reason, reason)} ({reason!r}), not DWA_TIMEOUT "
          f"({DISCONNECT_REASON_DWA_TIMEOUT}); reconnect attempts: "
          f"{len(reconnects)}.")
    print("REQUIRED (C11): 'if none [DWA] arrives within the DWA timeout the "
          "connection is closed with the watchdog-timeout reason' "
          "(observed at Peer.disconnect_reason).")
    sys.exit(1)
print("OK: Peer.disconnect_reason is DWA_TIMEOUT")
sys.exit(0)
