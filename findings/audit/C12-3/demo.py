"""C12 / finding 3: a connection is attached to a Peer by TWO different keys
(Node._add_peer_connection uses conn.node_name, Node._assign_peer_connection uses
the Origin-Host of the CEA/CER) but detached by ONE (remove_peer_connection ->
_find_connection_peer, node_name first).  If the host dialled as peer P answers
its CEA with the identity of another configured peer Q, the connection becomes
Q.connection as well; when it is lost only P.connection is cleared.  Q keeps a
dead PeerConnection forever, so the persistent peer Q is never dialled again.

Real node, two fake peers on 127.0.0.1, real time (about 12 s).
Run: PYTHONPATH=/repo/src /venv/bin/python /repo/_audit/3/demo.py
"""
import socket
import sys
import threading
import time

from diameter.message import Message, constants
from diameter.message.commands import CapabilitiesExchangeAnswer
from diameter.node import Node
from diameter.node.peer import PEER_CLOSED

P = "p.remote.realm"
Q = "q.remote.realm"
stop = threading.Event()
dials = {P: [], Q: []}
q_first_closed = threading.Event()


def listener():
    s = socket.socket(socket.AF_INET, socket.SOCK_STREAM)
    s.setsockopt(socket.SOL_SOCKET, socket.SO_REUSEADDR, 1)
    s.bind(("127.0.0.1", 0))
    s.listen(5)
    s.settimeout(0.2)
    return s


def serve_q(lsock):
    """Q is 'down': it accepts and immediately drops every connection."""
    while not stop.is_set():
        try:
            c, _ = lsock.accept()
        except socket.timeout:
            continue
        except OSError:
            return
        dials[Q].append(time.time())
        c.close()
        q_first_closed.set()


def serve_p(lsock):
    """The host behind P's address identifies itself as Q in its CEA, keeps the
    connection for 1.5 s and then goes away."""
    while not stop.is_set():
        try:
            c, _ = lsock.accept()
        except socket.timeout:
            continue
        except OSError:
            return
        dials[P].append(time.time())
        try:
            c.settimeout(3)
            cer = Message.from_bytes(c.recv(4096))
            q_first_closed.wait(5)
            time.sleep(0.5)        # Q's first connection is certainly gone now
            cea = CapabilitiesExchangeAnswer()
            cea.header.hop_by_hop_identifier = cer.header.hop_by_hop_identifier
            cea.header.end_to_end_identifier = cer.header.end_to_end_identifier
            cea.result_code = constants.E_RESULT_CODE_DIAMETER_SUCCESS
            cea.origin_host = Q.encode()          # <- the other peer's identity
            cea.origin_realm = b"remote.realm"
            cea.host_ip_address = "127.0.0.1"
            cea.vendor_id = 99999
            cea.product_name = "fake peer"
            cea.auth_application_id = [constants.APP_RELAY]
            c.sendall(cea.as_bytes())
            time.sleep(1.5)
        except Exception as e:
            print("fake P:", e)
        finally:
            c.close()


def main():
    lp, lq = listener(), listener()
    threading.Thread(target=serve_p, args=(lp,), daemon=True).start()
    threading.Thread(target=serve_q, args=(lq,), daemon=True).start()

    node = Node("node.local.realm", "local.realm")
    node.wakeup_interval = 1
    node.cea_timeout = 10
    p = node.add_peer(f"aaa://{P}:{lp.getsockname()[1]}", "remote.realm",
                      ["127.0.0.1"], is_persistent=True)
    q = node.add_peer(f"aaa://{Q}:{lq.getsockname()[1]}", "remote.realm",
                      ["127.0.0.1"], is_persistent=True)
    p.reconnect_wait = 3
    q.reconnect_wait = 3

    node.start()
    t0 = time.time()
    try:
        time.sleep(12)          # four reconnect cycles
        q_conn = q.connection
        q_conn_state = q_conn.state if q_conn else None
        q_conn_tracked = bool(q_conn and q_conn.ident in node.connections)
    finally:
        conns = list(node.connections.values())
        try:
            node.stop(force=True)
        except Exception as e:
            print("stop:", e)
        for c in conns:
            c.close(signal_node=False)
        stop.set()
        lp.close()
        lq.close()

    print(f"dials of P (s): {[round(d - t0, 1) for d in dials[P]]}")
    print(f"dials of Q (s): {[round(d - t0, 1) for d in dials[Q]]}")
    print(f"after 12 s: Q.persistent={q.persistent} Q.reconnect_wait={q.reconnect_wait} "
          f"Q.connection={q_conn} state={q_conn_state:#x} (CLOSED={PEER_CLOSED:#x}) "
          f"still handled by the node={q_conn_tracked}")
    print("REQUIRED: persistent peer Q has no live connection, is not after a DPR "
          "and the node is not stopping -> it is dialled again every "
          "reconnect_wait (3 s), i.e. about 4 dials in 12 s.")
    if len(dials[Q]) < 2:
        print("OBSERVED: Q was dialled once at start-up and never again, because "
              "Q.connection still points at P's dead connection -> VIOLATION")
        return 1
    print("OBSERVED: Q was re-dialled, property holds")
    return 0


if __name__ == "__main__":
    sys.exit(main())
