"""C08 / finding 4: the Destination-Realm of a request is compared byte-for-byte
(case-sensitively) with the configured realm names.  A request of the configured
peer for the registered application whose Destination-Realm differs from the
node's own realm only in letter case (realms are DiameterIdentity / DNS names,
compared case-insensitively - the node itself already lower-cases peer host
names for that reason) is answered 3003 DIAMETER_REALM_NOT_SERVED and the
application never sees it.

Run: PYTHONPATH=/repo/src /venv/bin/python /repo/_audit/4/demo.py
exit 1 = violation observed, exit 0 = behaves as the property says.
"""
import logging
import socket
import sys
import time

from diameter.message import Message, constants
from diameter.message.commands import (CapabilitiesExchangeRequest,
                                       CreditControlRequest,
                                       DeviceWatchdogRequest)
from diameter.node import Node
from diameter.node.application import Application
from diameter.node.peer import (PeerConnection, PEER_RECV, PEER_CONNECTED,
                                PEER_READY_STATES, PEER_TRANSPORT_TCP)

logging.disable(logging.CRITICAL)

PEER_HOST = "peer1.own.realm"


class RecApp(Application):
    def __init__(self, *a, **k):
        super().__init__(*a, **k)
        self.got = []

    def handle_request(self, message):
        self.got.append(message)


def take_answers(conn):
    out = []
    with conn.write_lock:
        buf = conn.write_buffer
        pos = 0
        while len(buf) - pos >= 20:
            ln = int.from_bytes(buf[pos + 1:pos + 4], "big")
            if len(buf) - pos < ln:
                break
            out.append(Message.from_bytes(buf[pos:pos + ln]))
            pos += ln
        conn.remove_out_bytes(pos)
    return out


def exchange(conn, wire, sentinel_id, timeout=10.0):
    dwr = DeviceWatchdogRequest()
    dwr.header.hop_by_hop_identifier = sentinel_id
    dwr.header.end_to_end_identifier = sentinel_id
    dwr.origin_host = PEER_HOST.encode()
    dwr.origin_realm = b"own.realm"
    conn.add_in_bytes(wire + dwr.as_bytes())
    got = []
    deadline = time.time() + timeout
    while time.time() < deadline:
        got += take_answers(conn)
        if any(m.header.command_code == 280 and
               m.header.hop_by_hop_identifier == sentinel_id for m in got):
            return [m for m in got if m.header.command_code != 280], True
        time.sleep(0.02)
    return [m for m in got if m.header.command_code != 280], False


def ccr(ident, realm):
    m = CreditControlRequest()
    m.header.application_id = 4
    m.header.hop_by_hop_identifier = ident
    m.header.end_to_end_identifier = ident
    m.session_id = f"{PEER_HOST};1;{ident}"
    m.origin_host = PEER_HOST.encode()
    m.origin_realm = b"own.realm"
    m.destination_realm = realm.encode()
    m.auth_application_id = 4
    m.service_context_id = "32251@3gpp.org"
    m.cc_request_type = constants.E_CC_REQUEST_TYPE_INITIAL_REQUEST
    m.cc_request_number = 0
    return m


def scenario(configured_realm, requested_realms):
    """Returns a list of violation strings."""
    node = Node("node.own.realm", configured_realm)
    peer = node.add_peer(f"aaa://{PEER_HOST}", configured_realm)
    app = RecApp(constants.APP_DIAMETER_CREDIT_CONTROL_APPLICATION,
                 is_auth_application=True)
    node.add_application(app, [peer])

    sock_a, sock_b = socket.socketpair()
    conn = PeerConnection("10.0.0.9", 3868, PEER_RECV,
                          interrupt_fileno=node.interrupt_write)
    conn.state = PEER_CONNECTED
    node._add_peer_connection(conn, sock_a, PEER_TRANSPORT_TCP)
    violations = []
    try:
        cer = CapabilitiesExchangeRequest()
        cer.header.hop_by_hop_identifier = 1
        cer.header.end_to_end_identifier = 1
        cer.origin_host = PEER_HOST.encode()
        cer.origin_realm = b"own.realm"
        cer.host_ip_address = ["10.0.0.9"]
        cer.vendor_id = 99999
        cer.product_name = "demo"
        cer.auth_application_id = [4]
        conn.add_in_bytes(cer.as_bytes())
        deadline = time.time() + 10
        cea = []
        while time.time() < deadline and not cea:
            cea = take_answers(conn)
            time.sleep(0.02)
        assert cea and cea[0].result_code == 2001, "CER/CEA failed"
        assert conn.state in PEER_READY_STATES
        print(f"\nnode realm configured as {configured_realm!r}; connection "
              f"of {PEER_HOST} is ready")
        ident = 100
        for realm in requested_realms:
            ident += 1
            app.got.clear()
            answers, ok = exchange(conn, ccr(ident, realm).as_bytes(),
                                   5000 + ident)
            rcs = [getattr(a, "result_code", None) for a in answers]
            print(f"  CCR with Destination-Realm {realm!r}: application saw "
                  f"{len(app.got)} request(s), node answered {rcs}")
            if realm.lower() == configured_realm.lower():
                if len(app.got) != 1 or answers:
                    violations.append(
                        f"realm configured {configured_realm!r}, request for "
                        f"{realm!r}: required delivery to the application "
                        f"exactly once, observed {len(app.got)} deliveries "
                        f"and node answers {rcs}")
            else:
                if app.got or rcs != [3003]:
                    violations.append(
                        f"foreign realm {realm!r}: required 3003, observed "
                        f"{rcs}, app saw {len(app.got)}")
    finally:
        conn.close(signal_node=False)
        sock_a.close()
        sock_b.close()
    return violations


def main():
    violations = []
    violations += scenario("own.realm",
                           ["own.realm", "Own.Realm", "OWN.REALM",
                            "foreign.realm"])
    violations += scenario("Own.Realm", ["Own.Realm", "own.realm"])
    print()
    if violations:
        print("VIOLATION of C08: 'a request whose application id, destination "
              "realm and originating peer match a registered application ... "
              "is handed to that application exactly once' / '3003 for a "
              "realm it does not serve' (the realm IS served; it only differs "
              "in letter case):")
        for v in violations:
            print("  -", v)
        return 1
    print("OK: realm names are matched case-insensitively")
    return 0


if __name__ == "__main__":
    sys.exit(main())
