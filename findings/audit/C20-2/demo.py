"""C20 finding 2: the answer generated for a User-Authorization-Request (Cx
UAR, command 300) does not copy the request's Session-Id.

UserAuthorizationRequest.avp_def has no `session_id` entry (3GPP TS 29.229
6.1.1 lists < Session-Id > as the first, fixed AVP of the UAR, and the paired
UserAuthorizationAnswer does define it as required).  A received Session-Id
therefore ends up in the anonymous additional AVPs, hasattr(request,
"session_id") is False, and Node._generate_answer / Application.generate_answer
skip the copy.
"""
import sys

from diameter.message import Message, Avp
from diameter.message.packer import Unpacker
from diameter.message.constants import *
from diameter.message.commands import (UserAuthorizationRequest,
                                       UserAuthorizationAnswer,
                                       ServerAssignmentRequest)
from diameter.node import Node
from diameter.node.application import Application

SESSION_ID = "scscf.example;1876543210;523"


def build_request(code: int) -> bytes:
    m = Message()
    m.header.command_code = code
    m.header.command_flags = 0xc0
    m.header.application_id = 16777216  # 3GPP Cx
    m.header.hop_by_hop_identifier = 0x1111
    m.header.end_to_end_identifier = 0x2222
    m.append_avp(Avp.new(AVP_SESSION_ID, value=SESSION_ID))
    m.append_avp(Avp.new(AVP_AUTH_SESSION_STATE, value=1))
    m.append_avp(Avp.new(AVP_ORIGIN_HOST, value=b"icscf.example"))
    m.append_avp(Avp.new(AVP_ORIGIN_REALM, value=b"example"))
    m.append_avp(Avp.new(AVP_DESTINATION_REALM, value=b"local.realm.example"))
    m.append_avp(Avp.new(AVP_USER_NAME, value="user@example"))
    return m.as_bytes()


def wire_session_ids(data: bytes) -> list[str]:
    u = Unpacker(data)
    u.set_position(20)
    out = []
    while not u.is_done():
        a = Avp.from_unpacker(u)
        if a.code == AVP_SESSION_ID and a.vendor_id == 0:
            out.append(a.value)
    return out


class App(Application):
    def handle_request(self, message):
        pass


node = Node("hss.local.example", "local.realm.example")
app = App(application_id=16777216, is_auth_application=True)
app._node = node

bad = []
# 300 = User-Authorization; 301 = Server-Assignment (same application, shown
# as the control that behaves correctly)
for code in (300, 301):
    data = build_request(code)
    assert wire_session_ids(data) == [SESSION_ID]
    req = Message.from_bytes(data)
    for label, ans in (
            ("Application.generate_answer", app.generate_answer(req, 2001)),
            ("Node._generate_answer", node._generate_answer(None, req))):
        got = wire_session_ids(ans.as_bytes())
        print(f"{type(req).__name__:<26} -> {type(ans).__name__:<24} via "
              f"{label:<28} Session-Id on the wire: {got}")
        if got != [SESSION_ID]:
            bad.append((type(req).__name__, label, got))

print()
print(f"request carried Session-Id {SESSION_ID!r}")
print("property requires: answers generated through a node or application "
      "'copy Session-Id and Proxy-Info from the request' for every typed "
      "request class")
if bad:
    for b in bad:
        print("VIOLATION:", b)
    sys.exit(1)
print("OK")
sys.exit(0)
