"""C11 finding 2: a received DWR carrying the T (retransmit) flag and an
End-to-End Identifier the node has answered before is rejected with 5012
(no Origin-State-Id) instead of being answered 2001.

Run:  PYTHONPATH=/repo/src /venv/bin/python /repo/_audit/2/demo.py
Exit 1 = violation observed (current code), exit 0 = behaves as the property says.
"""
import socket
import sys
import time

_real_monotonic = time.monotonic
CLOCK = [1_700_000_000]
time.time = lambda: float(CLOCK[0])

from diameter.message import constants
from diameter.message.commands import (
    CapabilitiesExchangeRequest, DeviceWatchdogRequest)
from diameter.node import Node
from diameter.node.peer import (
    PeerConnection, PEER_RECV, PEER_CONNECTED, PEER_READY,
    PEER_READY_WAITING_DWA, PEER_TRANSPORT_TCP)


def wait_for(cond, real_seconds=3.0):
    end = _real_monotonic() + real_seconds
    while _real_monotonic() < end:
        if cond():
            return True
        time.sleep(0.01)
    return cond()


node = Node("node.example.org", "example.org")
node.idle_timeout = 30
node.dwa_timeout = 10
peer = node.add_peer("aaa://peer.example.org", "example.org")

ours, theirs = socket.socketpair()
conn = PeerConnection("127.0.0.1", 40000, PEER_RECV, node.interrupt_write)
conn.state = PEER_CONNECTED
node._add_peer_connection(conn, ours, PEER_TRANSPORT_TCP)

sent = []
_orig_add_out = conn.add_out_msg
conn.add_out_msg = lambda m: (sent.append(m), _orig_add_out(m))

cer = CapabilitiesExchangeRequest()
cer.header.hop_by_hop_identifier = 1
cer.header.end_to_end_identifier = 1
cer.origin_host = b"peer.example.org"
cer.origin_realm = b"example.org"
cer.host_ip_address = ["127.0.0.1"]
cer.vendor_id = 1
cer.product_name = "peer"
cer.auth_application_id = [constants.APP_RELAY]
conn.add_in_bytes(cer.as_bytes())
assert wait_for(lambda: conn.state == PEER_READY), "setup: CER not accepted"


def peer_dwr(hbh, e2e, retransmit):
    m = DeviceWatchdogRequest()
    m.header.hop_by_hop_identifier = hbh
    m.header.end_to_end_identifier = e2e
    m.header.is_retransmit = retransmit
    m.origin_host = b"peer.example.org"
    m.origin_realm = b"example.org"
    m.origin_state_id = 42
    return m.as_bytes()


def exchange(label, hbh, e2e, retransmit):
    n = len(sent)
    conn.add_in_bytes(peer_dwr(hbh, e2e, retransmit))
    if not wait_for(lambda: len(sent) > n):
        print(f"{label}: no answer at all")
        return None
    a = sent[n]
    print(f"{label}: state {conn.state:#x}; answer cmd={a.header.command_code} "
          f"request={a.header.is_request} Result-Code={a.result_code} "
          f"Origin-State-Id={getattr(a, 'origin_state_id', None)} "
          f"(node.state_id={node.state_id})")
    return a


bad = []

# READY sub-state ------------------------------------------------------------
CLOCK[0] += 5
a1 = exchange("READY, DWR e2e=0x77            ", 10, 0x77, False)
CLOCK[0] += 5
a2 = exchange("READY, DWR e2e=0x77 + T flag   ", 11, 0x77, True)

# READY_WAITING_DWA sub-state -------------------------------------------------
CLOCK[0] += 31
node._check_timers(conn)
assert conn.state == PEER_READY_WAITING_DWA, "setup: no DWR sent by node"
a3 = exchange("WAITING_DWA, DWR e2e=0x77 + T  ", 12, 0x77, True)

for name, a in (("first DWR", a1), ("T-flagged DWR in READY", a2),
                ("T-flagged DWR in READY_WAITING_DWA", a3)):
    if (a is None or a.header.command_code != 280 or a.header.is_request or
            a.result_code != 2001 or
            getattr(a, "origin_state_id", None) != node.state_id):
        bad.append(name)

conn.close(signal_node=False)
theirs.close()
ours.close()

print()
if bad:
    print("OBSERVED: not answered with Result-Code 2001 + the node's "
          "Origin-State-Id:", ", ".join(bad))
    print("REQUIRED (C11): 'a received DWR is answered 2001 with the node's "
          "Origin-State-Id in either ready sub-state'.")
    sys.exit(1)
print("OK: every received DWR was answered 2001 with Origin-State-Id")
sys.exit(0)
