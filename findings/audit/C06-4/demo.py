"""C06 / finding 4: a CER from an unknown peer whose Origin-Host is not valid UTF-8
is answered with 5012 (UNABLE_TO_COMPLY) instead of 3010 (UNKNOWN_PEER) and the
connection is NOT closed; it stays half-open in CONNECTED state.

Run:  PYTHONPATH=/repo/src /venv/bin/python /repo/_audit/4/demo.py
exit 1 = violation observed (current code), exit 0 = behaves as the property says
"""
import logging
import sys
import time

import diameter.node.node as nodemod
from diameter.node import Node
from diameter.node.application import Application
from diameter.node.peer import (PeerConnection, PEER_RECV, PEER_CONNECTED,
                                PEER_CLOSING, PEER_CLOSED, PEER_TRANSPORT_TCP)
from diameter.message.commands import CapabilitiesExchangeRequest

logging.disable(logging.CRITICAL)


class FakeSocket:
    _n = 7000

    def __init__(self):
        FakeSocket._n += 1
        self._fileno = FakeSocket._n
        self.closed = False

    def fileno(self):
        return self._fileno

    def close(self):
        self.closed = True

    def setsockopt(self, *a):
        pass


class App(Application):
    def handle_request(self, message):
        pass


def cer(origin_host) -> bytes:
    m = CapabilitiesExchangeRequest()
    m.header.hop_by_hop_identifier = 1
    m.header.end_to_end_identifier = 2
    if origin_host is not None:
        m.origin_host = origin_host
    m.origin_realm = b"local.realm"
    m.host_ip_address = ["10.0.0.9"]
    m.vendor_id = 10415
    m.product_name = "remote"
    m.auth_application_id = [4]
    return m.as_bytes()


def run(origin_host, label):
    node = Node("node.local.realm", "local.realm",
                ip_addresses=["127.0.0.1"], tcp_port=3868)
    peer = node.add_peer("aaa://peer.local.realm", "local.realm")
    node.add_application(App(4, is_auth_application=True), [peer])

    conn = PeerConnection("10.0.0.9", 5555, PEER_RECV, node.interrupt_write)
    conn.state = PEER_CONNECTED
    sock = FakeSocket()
    node._add_peer_connection(conn, sock, PEER_TRANSPORT_TCP)
    written = []
    conn.add_out_msg = written.append

    conn.add_in_bytes(cer(origin_host))
    end = time.monotonic() + 5
    while time.monotonic() < end and not written:
        time.sleep(0.01)
    time.sleep(0.1)

    codes = [getattr(m, "result_code", None) for m in written
             if m.header.command_code == 257 and not m.header.is_request]
    closing = conn.state in (PEER_CLOSING, PEER_CLOSED)
    print(f"[{label}] CEA result codes={codes}, connection state="
          f"{nodemod.state_names.get(conn.state)} (closing={closing})")
    conn.close(signal_node=False)
    return codes, closing


ctl_codes, ctl_closing = run(b"stranger.other.realm",
                             "control: unknown peer, plain ASCII Origin-Host")
bad_codes, bad_closing = run(b"\xff\xfestranger.other.realm",
                             "unknown peer, Origin-Host is not valid UTF-8")
run(None, "info only: CER without any Origin-Host AVP")

print()
print("property requires: an inbound CER is answered ... with 3010 followed "
      "by closing when the peer is unknown")
if ctl_codes != [3010] or not ctl_closing:
    print("control did not behave as expected, cannot judge")
    sys.exit(1)
if bad_codes == [3010] and bad_closing:
    print("observed: 3010 and closing -> OK")
    sys.exit(0)
print(f"observed: the unknown peer got {bad_codes} and the connection was "
      f"{'closing' if bad_closing else 'left open, still waiting for a CER'} "
      f"-> VIOLATION")
sys.exit(1)
