"""
C10 extra observation (beyond the 4-finding cap): a typed request whose Destination-Realm AVP has not been set
(typed message attributes are None when the AVP is absent) makes
Node.route_request crash with AttributeError ('NoneType' object has no
attribute 'decode') instead of raising NotRoutable - even when no eligible
peer exists at all.  route_request intends to fall back to the node's own
realm for messages without a destination realm (`hasattr` test), but every
python command class HAS the attribute, with value None.
"""
import sys

from diameter.message import constants
from diameter.message.commands import CreditControlRequest
from diameter.node import Node
from diameter.node.node import NotRoutable
from diameter.node.application import Application


class App(Application):
    def handle_request(self, message):
        pass


node = Node("client.realm.net", "realm.net")
# one configured peer, never connected: no eligible (ready) peer exists for
# any realm whatsoever
peer = node.add_peer("aaa://srv.realm.net", "realm.net", ["10.0.0.1"])
app = App(constants.APP_DIAMETER_CREDIT_CONTROL_APPLICATION,
          is_auth_application=True)
node.add_application(app, [peer])

ccr = CreditControlRequest()
ccr.session_id = node.session_generator.next_id()
ccr.origin_host = b"client.realm.net"
ccr.origin_realm = b"realm.net"
# ccr.destination_realm deliberately left unset -> attribute is None
ccr.auth_application_id = constants.APP_DIAMETER_CREDIT_CONTROL_APPLICATION
ccr.service_context_id = "x@y"
ccr.cc_request_type = constants.E_CC_REQUEST_TYPE_EVENT_REQUEST
ccr.cc_request_number = 0

print(f"ccr.destination_realm = {ccr.destination_realm!r}; "
      f"ready peers: none (peer.connection = {peer.connection})")
outcome = None
try:
    app.send_request(ccr, timeout=1)
    outcome = "returned"
except NotRoutable as e:
    outcome = f"NotRoutable({e})"
    ok = True
except Exception as e:
    outcome = f"{type(e).__name__}({e})"

print(f"send_request outcome : {outcome}")
print("property requires    : when no eligible ready peer exists the "
      "not-routable error (NotRoutable) is raised and nothing is sent")
if outcome.startswith("NotRoutable"):
    print("OK")
    sys.exit(0)
print("VIOLATION: an exception other than NotRoutable escaped from "
      "send_request/route_request")
sys.exit(1)
