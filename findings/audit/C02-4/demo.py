"""C02 finding 4: order and flags of the AVPs of a decoded message differ from
the wire when the message is decoded into its registered request/answer class.

Wire: a standards-conformant Credit-Control-Request (RFC 4006/8506).  Every
AVP has the M bit set, as RFC 6733 demands for Origin-Host / Origin-Realm /
Destination-Host.  The optional AVPs follow the fixed ones in an order chosen
by the sender (AVP order is free in Diameter, apart from Session-Id).
The property demands "an AVP sequence (order, codes, vendors, flags, payloads,
recursively through grouped AVPs) identical to the wire".
"""
import logging
import struct
import sys

logging.disable(logging.CRITICAL)

from diameter.message import Message
from diameter.message.avp import AvpGrouped


# --- independent wire builder: a tree is a list of (code, vendor, flags, value)
# --- where value is bytes (leaf) or a list (grouped)
def enc_avp(code, vendor, flags, value):
    payload = enc_tree(value) if isinstance(value, list) else value
    if vendor:
        flags |= 0x80
    length = 8 + (4 if vendor else 0) + len(payload)
    out = struct.pack(">II", code, (flags << 24) | length)
    if vendor:
        out += struct.pack(">I", vendor)
    return out + payload + b"\x00" * ((-len(payload)) % 4)


def enc_tree(tree):
    return b"".join(enc_avp(*node) for node in tree)


def enc_msg(flags, code, app_id, hbh, e2e, tree):
    body = enc_tree(tree)
    return struct.pack(">IIIII", (1 << 24) | (20 + len(body)),
                       (flags << 24) | code, app_id, hbh, e2e) + body


def norm(tree):
    """Wire tree with the V bit made explicit, as the decoder must report it."""
    return [(c, v, f | (0x80 if v else 0), norm(x) if isinstance(x, list) else x)
            for c, v, f, x in tree]


def tree_of(avps):
    """Tree of what the library reports."""
    return [(a.code, a.vendor_id, a.flags,
             tree_of(a.value) if isinstance(a, AvpGrouped) else a.payload)
            for a in avps]


def show(title, tree, indent="  "):
    print(title)
    def rec(t, ind):
        for c, v, f, x in t:
            if isinstance(x, list):
                print(f"{ind}code={c} vendor={v} flags=0x{f:02x} grouped:")
                rec(x, ind + "  ")
            else:
                print(f"{ind}code={c} vendor={v} flags=0x{f:02x} payload={x!r}")
    rec(tree, indent)
    if not tree:
        print(indent + "(no AVPs)")

M = 0x40
wire_tree = [
    (263, 0, M, b"client.example.org;1;1"),       # Session-Id
    (264, 0, M, b"client.example.org"),           # Origin-Host
    (296, 0, M, b"example.org"),                  # Origin-Realm
    (283, 0, M, b"example.net"),                  # Destination-Realm
    (293, 0, M, b"ocs.example.net"),              # Destination-Host
    (258, 0, M, struct.pack(">I", 4)),            # Auth-Application-Id
    (461, 0, M, b"32251@3gpp.org"),               # Service-Context-Id
    (416, 0, M, struct.pack(">i", 1)),            # CC-Request-Type INITIAL
    (415, 0, M, struct.pack(">I", 0)),            # CC-Request-Number
    (455, 0, M, struct.pack(">i", 1)),            # Multiple-Services-Indicator
    (456, 0, M, [                                 # Multiple-Services-Credit-Control
        (432, 0, M, struct.pack(">I", 10)),       #   Rating-Group
        (437, 0, M, [                             #   Requested-Service-Unit
            (421, 0, M, struct.pack(">Q", 1000)), #     CC-Total-Octets
        ]),
    ]),
    (443, 0, M, [                                 # Subscription-Id
        (450, 0, M, struct.pack(">i", 0)),        #   Subscription-Id-Type E164
        (444, 0, M, b"41780000001"),              #   Subscription-Id-Data
    ]),
    (1, 0, M, b"41780000001"),                    # User-Name
]
data = enc_msg(0xc0, 272, 4, 0x11111111, 0x22222222, wire_tree)

generic = Message.from_bytes(data, plain_msg=True)
assert tree_of(generic.avps) == norm(wire_tree), "demo bug: wire tree mismatch"
assert generic.as_bytes() == data

msg = Message.from_bytes(data)
print("decoded as:", type(msg).__name__)
want = norm(wire_tree)
got = tree_of(msg.avps)
show("AVP tree on the wire:", want)
show("AVP tree of the decoded message (msg.avps):", got)

violated = False
if [n[:2] for n in got] != [n[:2] for n in want]:
    print("VIOLATION (order): top-level (code, vendor) sequence decoded",
          [n[0] for n in got], "but the wire has", [n[0] for n in want])
    violated = True
wire_flags = {n[:2]: n[2] for n in want}
for c, v, f, _ in got:
    if (c, v) in wire_flags and wire_flags[(c, v)] != f:
        print(f"VIOLATION (flags): AVP code {c} has flags 0x{wire_flags[(c, v)]:02x} on "
              f"the wire but 0x{f:02x} in the decoded message")
        violated = True
def nested(t):
    return {n[:2]: n[3] for n in t if isinstance(n[3], list)}
for key, sub in nested(want).items():
    gsub = nested(got).get(key)
    if gsub is not None and [n[:2] for n in gsub] != [n[:2] for n in sub]:
        print(f"VIOLATION (nested order): members of grouped AVP {key} decoded as",
              [n[0] for n in gsub], "but the wire has", [n[0] for n in sub])
        violated = True
if got != want and not violated:
    print("VIOLATION: decoded AVP tree differs from the wire")
    violated = True
if violated:
    print("the property requires 'an AVP sequence (order, codes, vendors, flags, "
          "payloads, recursively through grouped AVPs) identical to the wire, "
          "instantiated as the request or answer class registered for its command "
          "code and R bit'")
else:
    print("OK: decoded AVP tree identical to the wire")
sys.exit(1 if violated else 0)
