"""C01 / finding 2: AvpGrouped encodes a stale payload when its child list is
operated "as a regular list" (the way the AvpGrouped.value docstring documents).

Property clause: "For every AVP data type and every value in that type's
domain, encoding produces exactly the RFC 6733 wire form (... 24-bit length
counting header plus unpadded data ... type-specific data layout ...), and
decoding those bytes yields an AVP ... with equal code, vendor, flags and
value."  For Grouped the data layout is the concatenation of the member AVPs.
"""
import struct
import sys

import diameter
from diameter.message import constants
from diameter.message.avp import Avp, AvpGrouped

print("library under test:", diameter.__file__)


def ref(code, vendor, flags, data):
    """Independent RFC 6733 AVP encoder."""
    flags = (flags & 0x7f) | (0x80 if vendor else 0)
    length = 8 + (4 if vendor else 0) + len(data)
    out = struct.pack(">I", code) + bytes([flags]) + length.to_bytes(3, "big")
    if vendor:
        out += struct.pack(">I", vendor)
    return out + data + b"\0" * (-len(data) % 4)


violations = 0

# --- A: documented usage   grp = AvpGrouped(); grp.value.append(child) -------
vendor_id = Avp.new(constants.AVP_VENDOR_ID, value=10415)
auth_app = Avp.new(constants.AVP_AUTH_APPLICATION_ID, value=4)

grp = Avp.new(constants.AVP_VENDOR_SPECIFIC_APPLICATION_ID)
grp.value.append(vendor_id)
grp.value.append(auth_app)

expected = ref(260, 0, 0x40, ref(266, 0, 0x40, struct.pack(">I", 10415))
               + ref(258, 0, 0x40, struct.pack(">I", 4)))
got = grp.as_bytes()
print("A: value of the group   :", [str(a) for a in grp.value])
print("A: as_bytes()           :", got.hex())
print("A: RFC 6733 wire form   :", expected.hex())
decoded = Avp.from_bytes(got)
print("A: members after decode :", len(decoded.value), "(value had",
      len(grp.value), ")")
if got != expected or len(decoded.value) != len(grp.value):
    print("VIOLATION A: the group's value has 2 members, the encoding is an "
          "empty group with length 8; the members are lost")
    violations += 1

# --- B: group built with a list, then extended in place ----------------------
grp = Avp.new(constants.AVP_VENDOR_SPECIFIC_APPLICATION_ID,
              value=[Avp.new(constants.AVP_VENDOR_ID, value=10415)])
grp.value.append(Avp.new(constants.AVP_AUTH_APPLICATION_ID, value=4))
got = grp.as_bytes()
print("B: as_bytes()           :", got.hex())
print("B: RFC 6733 wire form   :", expected.hex())
if got != expected:
    print("VIOLATION B: value has", len(grp.value), "members, wire form has",
          len(Avp.from_bytes(got).value))
    violations += 1

# --- C: decode, change a member through the cached list, re-encode -----------
wire = expected
dec = Avp.from_bytes(wire)
dec.value[1].value = 16777238          # Auth-Application-Id := Gx
want = ref(260, 0, 0x40, ref(266, 0, 0x40, struct.pack(">I", 10415))
           + ref(258, 0, 0x40, struct.pack(">I", 16777238)))
got = dec.as_bytes()
print("C: value[1].value       :", dec.value[1].value)
print("C: as_bytes()           :", got.hex())
print("C: RFC 6733 wire form   :", want.hex())
if got != want:
    print("VIOLATION C: the encoded group still carries the old member value "
          f"{Avp.from_bytes(got).value[1].value}")
    violations += 1

if violations:
    print(f"\n{violations} violation(s): AvpGrouped.as_bytes() does not encode "
          "the group's current value")
    sys.exit(1)
print("no violation")
sys.exit(0)
