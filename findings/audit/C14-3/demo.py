"""
C14 finding 3: outbound handshake, the remote end sends its CEA and then the
connection is lost (orderly close).  If the I/O thread handles the loss while
the connection's read thread is between the "is this connection closing?"
check of PeerConnection.__dispatch_message and Node.receive_cea, receive_cea
re-attaches the already removed connection to the Peer and flags it READY.
Nothing ever removes it again: the persistent peer is never reconnected, the
application stays "ready" and requests are routed into a dead connection.

The schedule is forced without touching any state: the remote end closes the
socket once the node's read thread has picked the CEA up, and the read thread
is delayed on entry of Node._receive_message until the I/O thread has finished
handling the zero-byte read.

Exit 1 = violation observed, exit 0 = library behaves as the property says.
"""
import logging
import socket
import sys
import threading
import time

from diameter.message import Message, constants
from diameter.node import Node
from diameter.node.application import SimpleThreadingApplication
from diameter.node.peer import PEER_READY_STATES

logging.basicConfig(level=logging.CRITICAL)
REALM = "example.net"


class LossyServer(threading.Thread):
    """Remote peer: answers the CER with a successful CEA, then closes."""
    def __init__(self):
        super().__init__(daemon=True)
        self.lsock = socket.socket()
        self.lsock.setsockopt(socket.SOL_SOCKET, socket.SO_REUSEADDR, 1)
        self.lsock.bind(("127.0.0.1", 0))
        self.lsock.listen(8)
        self.lsock.settimeout(0.2)
        self.port = self.lsock.getsockname()[1]
        self.accepted = []          # timestamps of accepted connections
        # set as soon as the node's read thread has started to handle the CEA
        self.cea_being_handled = threading.Event()
        self.stop = False

    def run(self):
        while not self.stop:
            try:
                s, _ = self.lsock.accept()
            except (socket.timeout, TimeoutError):
                continue
            self.accepted.append(time.time())
            try:
                s.settimeout(3)
                buf = b""
                while len(buf) < 20 or len(buf) < int.from_bytes(buf[1:4], "big"):
                    d = s.recv(65535)
                    if not d:
                        break
                    buf += d
                cer = Message.from_bytes(buf)
                cea = cer.to_answer()
                cea.result_code = 2001
                cea.origin_host = b"server.example.net"
                cea.origin_realm = REALM.encode()
                cea.host_ip_address = ["127.0.0.1"]
                cea.vendor_id = 99999
                cea.product_name = "lossy"
                cea.acct_application_id = [constants.APP_DIAMETER_BASE_ACCOUNTING]
                s.sendall(cea.as_bytes())
                # cut point: the loss happens once the CEA has been picked up
                # by the node's read thread (bounded wait, first time only)
                self.cea_being_handled.wait(3)
            except Exception as e:
                print("server side error:", repr(e))
            finally:
                s.close()           # the connection is lost right after CEA


def main():
    server = LossyServer()
    server.start()

    node = Node("client.example.net", REALM)
    node.wakeup_interval = 1
    peer = node.add_peer(f"aaa://server.example.net:{server.port}", REALM,
                         ip_addresses=["127.0.0.1"], is_persistent=True)
    peer.reconnect_wait = 1
    app = SimpleThreadingApplication(constants.APP_DIAMETER_BASE_ACCOUNTING,
                                     is_acct_application=True)
    node.add_application(app, [peer])

    # scheduling hook: the read thread is "descheduled" on entry of
    # Node._receive_message (i.e. after PeerConnection.__dispatch_message
    # checked the connection state) until the I/O thread has processed the
    # loss of the connection.  Only a delay - no state is modified.
    real_receive = node._receive_message
    seen = {}

    def delayed_receive(conn, msg):
        if (not msg.header.is_request and msg.header.command_code ==
                constants.CMD_CAPABILITIES_EXCHANGE):
            seen["conn"] = conn
            server.cea_being_handled.set()
            limit = time.time() + 5
            while conn.ident in node.connections and time.time() < limit:
                time.sleep(0.005)
            seen["removed_before_cea_handled"] = conn.ident not in node.connections
        return real_receive(conn, msg)

    node._receive_message = delayed_receive

    verdict = 0
    node.start()
    try:
        # the peer is persistent with reconnect_wait=1 and wakeup_interval=1:
        # a healthy node re-dials within ~3 seconds after each loss
        deadline = time.time() + 10
        while time.time() < deadline and len(server.accepted) < 2:
            time.sleep(0.1)

        conn = seen.get("conn")
        print(f"connection removed by I/O thread before CEA was handled: "
              f"{seen.get('removed_before_cea_handled')}")
        print(f"connection attempts seen by the remote peer in 10 s: "
              f"{len(server.accepted)}")
        print(f"node.connections            : {list(node.connections)}")
        print(f"peer.connection             : {peer.connection} "
              f"(is the lost connection: {peer.connection is conn})")
        if peer.connection is not None:
            print(f"peer.connection.state READY : "
                  f"{peer.connection.state in PEER_READY_STATES}")
            print(f"its worker threads alive    : "
                  f"read={peer.connection._read_thread.is_alive()} "
                  f"write={peer.connection._write_thread.is_alive()}")
        print(f"app.is_ready                : {app.is_ready.is_set()}")
        print("property requires: a connection lost at any point of the "
              "outbound handshake consumes nothing for good - the persistent "
              "peer is dialled again (>= 2 connection attempts), no dead "
              "connection stays attached to the peer")
        stale = (peer.connection is not None
                 and peer.connection.ident not in node.connections)
        if len(server.accepted) < 2 or stale:
            print("VIOLATION: the lost connection was re-attached to the peer "
                  "as READY after its removal; the node never reconnects and "
                  "routes requests into the dead connection")
            verdict = 1
        else:
            print("OK")
    finally:
        server.stop = True
        node.stop(wait_timeout=3, force=True)
        if seen.get("conn") is not None:
            seen["conn"].close(signal_node=False)
    return verdict


if __name__ == "__main__":
    rc = main()
    sys.stdout.flush()
    sys.exit(rc)
