"""C12 / finding 2: when a CEA is rejected, the connection's *read thread* closes the
socket (Node.receive_cea -> close_connection_socket) while the node's connection
thread may already have put that socket into the list it hands to select().  If
the close lands between "r_list built" and "select() entered", select() raises
ValueError (fd -1), nothing catches it, Node._handle_connections dies - and the
persistent peer is never dialled again (nor is any other peer).

The demo runs a real node against a fake peer on 127.0.0.1 and only DELAYS the
two threads (no state is modified) to pin that interleaving down.

Run: PYTHONPATH=/repo/src /venv/bin/python /repo/_audit/2/demo.py
"""
import os
import select as real_select
import socket
import sys
import threading
import time
import types

from diameter.message import Message, constants
from diameter.message.commands import CapabilitiesExchangeAnswer
from diameter.node import Node
import diameter.node.node as nodemod

PEER = "peer.remote.realm"
dials = []            # timestamps of connections accepted by the fake peer
stop_peer = threading.Event()


def fake_peer(listener):
    """Accepts every dial, answers the CER with a CEA 5010 (rejected)."""
    listener.settimeout(0.2)
    while not stop_peer.is_set():
        try:
            s, _ = listener.accept()
        except socket.timeout:
            continue
        except OSError:
            return
        dials.append(time.time())
        s.settimeout(3)
        try:
            data = s.recv(4096)
            cer = Message.from_bytes(data)
            cea = CapabilitiesExchangeAnswer()
            cea.header.hop_by_hop_identifier = cer.header.hop_by_hop_identifier
            cea.header.end_to_end_identifier = cer.header.end_to_end_identifier
            cea.result_code = constants.E_RESULT_CODE_DIAMETER_NO_COMMON_APPLICATION
            cea.origin_host = PEER.encode()
            cea.origin_realm = b"remote.realm"
            cea.host_ip_address = "127.0.0.1"
            cea.vendor_id = 99999
            cea.product_name = "fake peer"
            s.sendall(cea.as_bytes())
            try:
                s.recv(10)      # wait for the node to drop the connection
            except OSError:
                pass
        except Exception as e:
            print("fake peer:", e)
        finally:
            s.close()


def main():
    listener = socket.socket(socket.AF_INET, socket.SOCK_STREAM)
    listener.setsockopt(socket.SOL_SOCKET, socket.SO_REUSEADDR, 1)
    listener.bind(("127.0.0.1", 0))
    listener.listen(5)
    port = listener.getsockname()[1]
    threading.Thread(target=fake_peer, args=(listener,), daemon=True).start()

    node = Node("node.local.realm", "local.realm")
    node.wakeup_interval = 1
    peer = node.add_peer(f"aaa://{PEER}:{port}", "remote.realm", ["127.0.0.1"],
                         is_persistent=True)
    peer.reconnect_wait = 1

    # ---- schedule control: pure delays -------------------------------------
    cea_in_read_thread = threading.Event()
    main_about_to_select = threading.Event()
    socket_closed = threading.Event()
    # control run: DEMO_NO_FORCE=1 leaves the scheduling alone (peer IS re-dialled)
    forced = [bool(os.environ.get("DEMO_NO_FORCE"))]
    no_force = forced[0]
    orig_receive_cea = node.receive_cea

    def receive_cea(conn, message):
        # runs in the PeerConnection read thread
        if not forced[0]:
            cea_in_read_thread.set()
            main_about_to_select.wait(10)    # "this thread is scheduled late"
            try:
                return orig_receive_cea(conn, message)
            finally:
                socket_closed.set()
        return orig_receive_cea(conn, message)
    node.receive_cea = receive_cea

    def select_(r, w, x, timeout=None):
        # runs in the node's connection thread, r/w lists are already built
        if cea_in_read_thread.is_set() and not forced[0]:
            forced[0] = True
            main_about_to_select.set()
            socket_closed.wait(10)           # "this thread is preempted here"
        return real_select.select(r, w, x, timeout)
    nodemod.select = types.SimpleNamespace(select=select_)

    thread_errors = []
    old_hook = threading.excepthook
    threading.excepthook = lambda a: thread_errors.append(
        f"{a.thread.name}: {a.exc_type.__name__}: {a.exc_value}")

    node.start()
    try:
        deadline = time.time() + 8
        while time.time() < deadline and len(dials) < 3:
            time.sleep(0.1)
    finally:
        alive = node._connection_thread.is_alive()
        conns = list(node.connections.values())
        try:
            node.stop(force=True)
        except Exception as e:
            print("stop:", e)
        for c in conns + list(node.connections.values()):
            c.close(signal_node=False)
        for s in list(node.peer_sockets.values()):
            s.close()
        stop_peer.set()
        listener.close()
        threading.excepthook = old_hook

    t0 = dials[0] if dials else 0
    print(f"dials seen by the peer (s after the first): "
          f"{[round(d - t0, 1) for d in dials]}")
    print(f"interleaving forced: {forced[0] and not no_force}; node connection thread alive "
          f"before stop(): {alive}; uncaught thread errors: {thread_errors}")
    print(f"peer.persistent={peer.persistent} reconnect_wait={peer.reconnect_wait} "
          f"disconnect_reason={peer.disconnect_reason and hex(peer.disconnect_reason)} "
          f"connection={peer.connection}")
    print("REQUIRED: a persistent peer whose connection is lost (CEA rejected) is "
          "dialled again once its reconnect wait (1 s) has elapsed - i.e. several "
          "dials within the 8 s observed.")
    if len(dials) < 2 or not alive:
        print("OBSERVED: the node's connection thread died in select() and the "
              "peer was never dialled again -> VIOLATION")
        return 1
    print("OBSERVED: peer was re-dialled, property holds")
    return 0


if __name__ == "__main__":
    sys.exit(main())
