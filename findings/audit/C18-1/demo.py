"""C18 finding 1: Node.stop() can die in Application.stop() and leave the
remaining applications running.

Application.stop() iterates over self._answer_waiting while it wakes the
threads blocked in Application.send_request(); each woken thread deletes its
own entry from that same dict (the `finally` of send_request).  As soon as a
woken thread gets to run before the loop in stop() asks for the next item,
the loop raises "RuntimeError: dictionary changed size during iteration".
Node.stop() does not guard the call, so the exception aborts Node.stop() and
every application that follows in Node.applications is never stopped.

The schedule (woken requester runs before the stopping thread continues) is
forced here with an Event subclass whose set() yields until the woken thread
has left send_request(); nothing else is altered.
"""
import socket
import sys
import threading
import time

from diameter.message import Message, constants
from diameter.message.commands import (CapabilitiesExchangeRequest,
                                       DisconnectPeerRequest,
                                       AccountingRequest)
from diameter.node import Node
from diameter.node import application as application_mod
from diameter.node.application import Application, SimpleThreadingApplication

requester_left = threading.Event()


class YieldingEvent(threading.Event):
    """set() = real set(), then the caller is pre-empted until the woken
    requester thread has returned from send_request()."""
    def set(self):
        super().set()
        requester_left.wait(10)


class WaitingMessage(application_mod.WaitingMessage):
    def __init__(self):
        super().__init__()
        self.event = YieldingEvent()


application_mod.WaitingMessage = WaitingMessage


class ClientApp(Application):
    def handle_request(self, message):
        pass


_rx = {}


def read_msg(sock):
    """Read exactly one diameter message, keeping surplus bytes for later."""
    buf = _rx.get(sock, b"")
    try:
        while len(buf) < 20 or len(buf) < int.from_bytes(buf[1:4], "big"):
            chunk = sock.recv(4096)
            if not chunk:
                return None
            buf += chunk
    except OSError:
        return None
    length = int.from_bytes(buf[1:4], "big")
    _rx[sock] = buf[length:]
    return Message.from_bytes(buf[:length])


# ---- node under test ------------------------------------------------------
probe = socket.socket()
probe.bind(("127.0.0.1", 0))
port = probe.getsockname()[1]
probe.close()

node = Node("node.example.org", "example.org",
            ip_addresses=["127.0.0.1"], tcp_port=port)
node.wakeup_interval = 1
peer = node.add_peer("aaa://peer.example.org", "example.org")

app1 = ClientApp(constants.APP_DIAMETER_BASE_ACCOUNTING,
                 is_acct_application=True)
app2 = SimpleThreadingApplication(constants.APP_DIAMETER_CREDIT_CONTROL_APPLICATION,
                                  is_auth_application=True)
node.add_application(app1, [peer])
node.add_application(app2, [peer])
node.start()

# ---- a well behaved remote peer --------------------------------------------
remote = socket.create_connection(("127.0.0.1", port))
cer = CapabilitiesExchangeRequest()
cer.header.hop_by_hop_identifier = 1
cer.header.end_to_end_identifier = 1
cer.origin_host = b"peer.example.org"
cer.origin_realm = b"example.org"
cer.host_ip_address = ["127.0.0.1"]
cer.vendor_id = 99999
cer.product_name = "remote"
cer.acct_application_id = [constants.APP_DIAMETER_BASE_ACCOUNTING]
cer.auth_application_id = [constants.APP_DIAMETER_CREDIT_CONTROL_APPLICATION]
remote.sendall(cer.as_bytes())
cea = read_msg(remote)
assert cea.result_code == constants.E_RESULT_CODE_DIAMETER_SUCCESS
app1.wait_for_ready(5)


def remote_peer():
    # never answers the ACR, answers the DPR promptly
    while True:
        msg = read_msg(remote)
        if msg is None:
            return
        if (msg.header.command_code == constants.CMD_DISCONNECT_PEER
                and msg.header.is_request):
            dpa = msg.to_answer()
            dpa.origin_host = b"peer.example.org"
            dpa.origin_realm = b"example.org"
            dpa.result_code = constants.E_RESULT_CODE_DIAMETER_SUCCESS
            remote.sendall(dpa.as_bytes())


threading.Thread(target=remote_peer, daemon=True).start()

# ---- a user thread with a request in flight when the node is stopped -------
request_outcome = []


def requester():
    acr = AccountingRequest()
    acr.session_id = node.session_generator.next_id()
    acr.origin_host = node.origin_host.encode()
    acr.origin_realm = node.realm_name.encode()
    acr.destination_realm = b"example.org"
    acr.accounting_record_type = constants.E_ACCOUNTING_RECORD_TYPE_EVENT_RECORD
    acr.accounting_record_number = 1
    try:
        request_outcome.append(app1.send_request(acr, timeout=30))
    except Exception as e:
        request_outcome.append(e)
    requester_left.set()


threading.Thread(target=requester, daemon=True).start()
deadline = time.time() + 5
while not app1._answer_waiting and time.time() < deadline:
    time.sleep(0.05)
assert app1._answer_waiting, "request did not go out"

# ---- stop ------------------------------------------------------------------
stop_error = None
try:
    node.stop(wait_timeout=10)
except Exception as e:
    stop_error = e

time.sleep(0.5)
app2_threads = [t for t in (app2._recv_queue_consumer, app2._resp_queue_consumer)
                if t.is_alive()]
app2_stopped = (app2._recv_queue_consumer.is_stopped and
                app2._resp_queue_consumer.is_stopped)

print(f"observed: Node.stop() -> "
      f"{'returned normally' if stop_error is None else 'raised ' + repr(stop_error)}")
print(f"observed: request in flight ended with {request_outcome!r}")
print(f"observed: second application stop requested: {app2_stopped}; "
      f"its worker threads still alive: {[t.name for t in app2_threads]}")
print("required: when stop returns the applications are stopped (all of "
      "them) and stop itself completes")

violated = stop_error is not None or not app2_stopped

# clean up so that the demo terminates
requester_left.set()
for a in (app1, app2):
    try:
        a.stop()
    except Exception:
        pass
for c in list(node.connections.values()):
    c.close(signal_node=False)
remote.close()

if violated:
    print("VIOLATION")
    sys.exit(1)
print("ok")
sys.exit(0)
