"""
C04 / finding 1

A Grouped AVP whose payload contains a nested AVP header with an impossible
AVP-Length (smaller than the nested AVP's own header: 0, 1, 7 for a plain AVP,
8 or 11 for an AVP that carries the V flag and therefore a 12 byte header) is
malformed for the type "Grouped" (RFC 6733 4.1: AVP Length includes the
header; 4.4: a Grouped payload is a sequence of AVPs).

The property says: "Reading the value of an AVP whose payload is malformed for
its type raises the documented AVP decode error".

Observed: AvpGrouped.value silently returns a list holding an AVP with an
empty payload (and, for the V-flag case, has consumed 4 bytes that lie outside
the nested AVP's declared extent as its Vendor-Id).
"""
import struct
import sys

from diameter.message import Message
from diameter.message.avp import Avp, AvpDecodeError, AvpGrouped
from diameter.message import constants


def avp_hdr(code: int, flags: int, length: int, vendor: int = None) -> bytes:
    h = struct.pack(">II", code, (flags << 24) | length)
    if vendor is not None:
        h += struct.pack(">I", vendor)
    return h


def grouped(payload: bytes) -> bytes:
    # Multiple-Services-Credit-Control (456), a Grouped AVP
    return avp_hdr(constants.AVP_MULTIPLE_SERVICES_CREDIT_CONTROL, 0x40,
                   8 + len(payload)) + payload


cases = []
# nested Rating-Group (432, Unsigned32) header with AVP length < 8
for bad_len in (0, 1, 7):
    cases.append((f"nested AVP length {bad_len} (header is 8 bytes)",
                  grouped(avp_hdr(constants.AVP_RATING_GROUP, 0x40, bad_len))))
# nested vendor AVP (V flag, 12 byte header) with AVP length 8 and 11
for bad_len in (8, 11):
    cases.append((f"nested V-flag AVP length {bad_len} (header is 12 bytes)",
                  grouped(avp_hdr(constants.AVP_TGPP_QUOTA_HOLDING_TIME, 0xc0,
                                  bad_len, constants.VENDOR_TGPP))))

# a V-flag AVP declaring length 8 followed by a perfectly valid sibling AVP:
# the decoder takes the sibling's first 4 bytes as Vendor-Id and then parses
# the sibling from the middle of its header
cases.append(("nested V-flag AVP length 8 followed by a valid Rating-Group=1",
              grouped(avp_hdr(constants.AVP_TGPP_QUOTA_HOLDING_TIME, 0xc0, 8)
                      + avp_hdr(constants.AVP_RATING_GROUP, 0x40, 12)
                      + struct.pack(">I", 1))))

violations = 0
for label, data in cases:
    g = Avp.from_bytes(data)
    assert isinstance(g, AvpGrouped)
    try:
        value = g.value
    except AvpDecodeError as e:
        print(f"OK        {label}: AvpDecodeError raised ({str(e)[:60]}...)")
        continue
    violations += 1
    inner = value[0]
    print(f"VIOLATION {label}: grouped payload {g.payload.hex()} -> .value "
          f"returned {len(value)} AVP(s): code={inner.code} "
          f"vendor={inner.vendor_id} payload={inner.payload!r} reported "
          f"length={inner.length}; all codes={[a.code for a in value]}; "
          f"re-encoded group {Avp.new(constants.AVP_MULTIPLE_SERVICES_CREDIT_CONTROL, value=value).payload.hex()}")

# for contrast: a nested length that is too LARGE is reported properly
g = Avp.from_bytes(grouped(avp_hdr(constants.AVP_RATING_GROUP, 0x40, 13) + b"\0\0\0\1"))
try:
    g.value
    print("contrast: nested AVP length 13 with 4 payload bytes: returned")
except AvpDecodeError:
    print("contrast: nested AVP length 13 with 4 payload bytes: AvpDecodeError (as required)")

# the same through a complete message: CCR with MSCC{Rating-Group len=7}
body = (avp_hdr(constants.AVP_SESSION_ID, 0x40, 11) + b"a;1\0" + cases[2][1])
ccr = struct.pack(">IIIII", (1 << 24) | (20 + len(body)), (0xc0 << 24) | 272, 4, 1, 2) + body
try:
    msg = Message.from_bytes(ccr)
    print(f"CCR with MSCC containing a nested AVP of length 7 decoded without "
          f"any error: mscc={msg.multiple_services_credit_control}")
except Exception as e:
    print(f"CCR with malformed MSCC: {type(e).__name__}: {e}")

print()
print("property requires: reading .value of a Grouped AVP whose payload is "
      "malformed (nested AVP length smaller than the nested AVP header) "
      "raises AvpDecodeError")
print(f"observed: {violations} of {len(cases)} malformed grouped payloads were "
      f"returned as if valid")
sys.exit(1 if violations else 0)
