"""C17 finding 2: `Node._origin_waiting_answer` is keyed by "hop-by-hop:end-to-end"
only - not by origin host / connection. Two origin hosts (two connections) that
use the same pair of identifiers overwrite each other's entry, so the answer to
origin A's request is booked in the duplicate window of origin B:

 * B's T-flag retransmission of a request that has NOT been answered yet is
   rejected 5012 as a duplicate             (violates the 2nd sentence), and
 * A's T-flag retransmission of the request that HAS been answered is delivered
   to the application a second time          (violates the 1st sentence).

exit 1 = violation observed (current code), exit 0 = behaves as the property says
"""
import logging
import sys

from diameter.message import Message, Avp, constants
from diameter.message.commands import CreditControlRequest
from diameter.message._base import MessageHeader
from diameter.node import Node
from diameter.node.application import Application
from diameter.node.peer import PeerConnection, PEER_RECV, PEER_CONNECTED, \
    PEER_TRANSPORT_TCP, PEER_READY

logging.disable(logging.CRITICAL)

APP_ID = constants.APP_DIAMETER_CREDIT_CONTROL_APPLICATION


class FakeSocket:
    def __init__(self, no): self._no = no
    def fileno(self): return self._no
    def close(self): pass
    def setsockopt(self, *a): pass


class RecordingApp(Application):
    def __init__(self):
        super().__init__(APP_ID, is_auth_application=True)
        self.delivered = []

    def handle_request(self, message):
        self.delivered.append(message)


def avp(code, value, vendor=0):
    a = Avp.new(code, vendor)
    a.value = value
    return a


def wire(msg):
    return Message.from_bytes(msg.as_bytes())


def cer(host, hbh, e2e):
    m = Message(MessageHeader(command_flags=0x80, command_code=257,
                              hop_by_hop_identifier=hbh,
                              end_to_end_identifier=e2e))
    m.append_avp(avp(constants.AVP_ORIGIN_HOST, host))
    m.append_avp(avp(constants.AVP_ORIGIN_REALM, b"example.org"))
    m.append_avp(avp(constants.AVP_HOST_IP_ADDRESS, "10.0.0.1"))
    m.append_avp(avp(constants.AVP_VENDOR_ID, 99999))
    m.append_avp(avp(constants.AVP_PRODUCT_NAME, "demo"))
    m.append_avp(avp(constants.AVP_AUTH_APPLICATION_ID, APP_ID))
    return wire(m)


def ccr(host, hbh, e2e, t_flag):
    m = CreditControlRequest()
    m.header.application_id = APP_ID
    m.header.hop_by_hop_identifier = hbh
    m.header.end_to_end_identifier = e2e
    m.header.is_retransmit = t_flag
    m.session_id = host.decode() + ";1;1"
    m.origin_host = host
    m.origin_realm = b"example.org"
    m.destination_realm = b"example.org"
    m.auth_application_id = APP_ID
    m.service_context_id = "demo@example.org"
    m.cc_request_type = constants.E_CC_REQUEST_TYPE_EVENT_REQUEST
    m.cc_request_number = 0
    return wire(m)


def result_code_of(raw):
    m = Message.from_bytes(raw, plain_msg=True)
    found = m.find_avps((constants.AVP_RESULT_CODE, 0))
    return found[0].value if found else None


node = Node("ocs.example.org", "example.org")
node.retransmit_queue_size = 4
HOST_A, HOST_B = b"gw-a.example.org", b"gw-b.example.org"
peer_a = node.add_peer("aaa://gw-a.example.org")
peer_b = node.add_peer("aaa://gw-b.example.org")
app = RecordingApp()
node.add_application(app, [peer_a, peer_b])

conns, sent = {}, {}
for name, host, fileno in (("A", HOST_A, 901), ("B", HOST_B, 902)):
    c = PeerConnection("10.0.0.1", 3868, PEER_RECV, node.interrupt_write)
    c.state = PEER_CONNECTED
    node._add_peer_connection(c, FakeSocket(fileno), PEER_TRANSPORT_TCP)
    sent[name] = []
    def recorder(m, _c=c, _orig=c.add_out_msg, _log=sent[name]):
        _log.append(m.as_bytes())
        _orig(m)
    c.add_out_msg = recorder
    conns[name] = c

rc = 0
try:
    for name, host in (("A", HOST_A), ("B", HOST_B)):
        node._receive_message(conns[name], cer(host, 1, 100))
        assert conns[name].state == PEER_READY
        assert result_code_of(sent[name][-1]) == 2001

    # 1. origin A: request hbh=2 e2e=7 (no T)            -> pending in the app
    node._receive_message(conns["A"], ccr(HOST_A, 2, 7, False))
    # 2. origin B: request hbh=2 e2e=7 (no T)            -> pending in the app
    node._receive_message(conns["B"], ccr(HOST_B, 2, 7, False))
    assert [m.origin_host for m in app.delivered] == [HOST_A, HOST_B]

    # 3. the application answers A's request only; B's stays pending
    req_a = app.delivered[0]
    ans = app.generate_answer(req_a, result_code=2001)
    ans.cc_request_type = req_a.cc_request_type
    ans.cc_request_number = req_a.cc_request_number
    app.send_answer(ans)
    assert result_code_of(sent["A"][-1]) == 2001 and len(sent["B"]) == 1, \
        "answer must have gone to A only"
    print("after answering A's request only: node._sent_answers =",
          {k: list(v) for k, v in node._sent_answers.items()})

    # 4. B retransmits its still unanswered request with the T flag
    n_deliv, n_sent_b = len(app.delivered), len(sent["B"])
    node._receive_message(conns["B"], ccr(HOST_B, 3, 7, True))
    b_rejected = [result_code_of(r) for r in sent["B"][n_sent_b:]]
    b_delivered = len(app.delivered) > n_deliv
    print(f"observed (B, T flag, e2e 7, NOT yet answered to B): node answered "
          f"{b_rejected}, delivered to application = {b_delivered}")
    print("required: 'Requests ... with identifiers not yet answered, are never "
          "rejected as duplicates'")
    bad_b = 5012 in b_rejected and not b_delivered

    # 5. A retransmits its already answered request with the T flag
    n_deliv, n_sent_a = len(app.delivered), len(sent["A"])
    node._receive_message(conns["A"], ccr(HOST_A, 3, 7, True))
    a_rejected = [result_code_of(r) for r in sent["A"][n_sent_a:]]
    a_delivered = len(app.delivered) > n_deliv
    print(f"observed (A, T flag, e2e 7, already answered 2001 to A, window 4): "
          f"node answered {a_rejected}, delivered to application again = "
          f"{a_delivered}")
    print("required: 'is answered 5012 by the node itself and is not delivered "
          "to any application again'")
    bad_a = a_delivered or a_rejected != [5012]

    if bad_a or bad_b:
        print(f"VIOLATION (false duplicate for B: {bad_b}; missed duplicate "
              f"for A: {bad_a})")
        rc = 1
    else:
        print("OK")
except AssertionError as e:
    print("demo set-up failed (not the violation):", repr(e))
    rc = 2
finally:
    for c in conns.values():
        c.close(signal_node=False)
sys.exit(rc)
