"""C06 / finding 2: an outbound connection that is still in PEER_CONNECTING is not
covered by the capabilities-exchange gate.  If the remote side writes right
after accept(), the node answers a DWR and hands an application request to
the application BEFORE it has even sent its CER.

Real TCP sockets on 127.0.0.1, real Node.start().  Two pure scheduling aids
make the interleaving deterministic (no state is touched):
  * select() is entered only after the remote side has written its bytes
    (= the socket becomes readable and writable in the same select round)
  * the main thread is descheduled for 250 ms just before it executes
    Node._flag_peer_as_connected (0.5 ms was enough in experiments; every
    blocking recv()/getsockopt()/log write in that loop releases the GIL too)

Run:  PYTHONPATH=/repo/src /venv/bin/python /repo/_audit/2/demo.py
exit 1 = violation observed (current code), exit 0 = behaves as the property says
"""
import logging
import select as real_select
import socket
import sys
import threading
import time
import types

import diameter.node.node as nodemod
from diameter.node import Node
from diameter.node.application import Application
from diameter.message import Message
from diameter.message.commands import (DeviceWatchdogRequest,
                                       CreditControlRequest)

logging.disable(logging.CRITICAL)


def dwr() -> bytes:
    m = DeviceWatchdogRequest()
    m.header.hop_by_hop_identifier = 11
    m.header.end_to_end_identifier = 12
    m.origin_host = b"peer.local.realm"
    m.origin_realm = b"local.realm"
    return m.as_bytes()


def ccr() -> bytes:
    m = CreditControlRequest()
    m.header.application_id = 4
    m.header.hop_by_hop_identifier = 21
    m.header.end_to_end_identifier = 22
    m.session_id = "peer.local.realm;1;2"
    m.origin_host = b"peer.local.realm"
    m.origin_realm = b"local.realm"
    m.destination_realm = b"local.realm"
    m.auth_application_id = 4
    m.service_context_id = "32251@3gpp.org"
    m.cc_request_type = 4
    m.cc_request_number = 0
    return m.as_bytes()


class RecordingApp(Application):
    def __init__(self):
        super().__init__(4, is_auth_application=True)
        self.seen = []

    def handle_request(self, message):
        self.seen.append(message)


# ---- the remote peer: writes a DWR and a CCR right after accept() ----------
srv = socket.socket(socket.AF_INET, socket.SOCK_STREAM)
srv.bind(("127.0.0.1", 0))
srv.listen(5)
port = srv.getsockname()[1]
remote_has_written = threading.Event()
from_node = []


def remote_peer():
    cs, _ = srv.accept()
    cs.sendall(dwr() + ccr())
    remote_has_written.set()
    cs.settimeout(2.5)
    buf = b""
    try:
        while True:
            data = cs.recv(4096)
            if not data:
                break
            buf += data
    except OSError:
        pass
    while len(buf) >= 20:
        length = int.from_bytes(buf[1:4], "big")
        from_node.append(Message.from_bytes(buf[:length]))
        buf = buf[length:]
    cs.close()


remote = threading.Thread(target=remote_peer)
remote.start()


# ---- scheduling aid 1: enter select() only after the remote side wrote -----
def delayed_select(r, w, x, timeout):
    if w:
        remote_has_written.wait(5)
        time.sleep(0.2)
    return real_select.select(r, w, x, timeout)


nodemod.select = types.SimpleNamespace(select=delayed_select)

node = Node("node.local.realm", "local.realm")
peer = node.add_peer(f"aaa://peer.local.realm:{port}", "local.realm",
                     ip_addresses=["127.0.0.1"], is_persistent=True)
app = RecordingApp()
node.add_application(app, [peer])

# ---- scheduling aid 2: main thread loses the CPU before flagging CONNECTED -
_orig_flag = node._flag_peer_as_connected


def descheduled_flag(conn):
    time.sleep(0.25)
    _orig_flag(conn)


node._flag_peer_as_connected = descheduled_flag

node.start()
remote.join(10)
node.stop(force=True)
srv.close()


def describe(m):
    kind = "request" if m.header.is_request else "answer"
    rc = getattr(m, "result_code", None)
    return f"{m.name} {kind}" + (f" result={rc}" if rc is not None else "")


print("messages the remote peer received from the node, in order:")
for m in from_node:
    print("   ", describe(m))
print(f"requests handed to Application.handle_request before any CER/CEA: "
      f"{len(app.seen)}")

cer_index = next((i for i, m in enumerate(from_node)
                  if m.header.command_code == 257 and m.header.is_request),
                 None)
answers = [m for m in from_node if not m.header.is_request]
violations = []
if answers:
    violations.append(
        "node answered non-CE messages although no capabilities exchange "
        "has taken place: " + ", ".join(describe(m) for m in answers))
if app.seen:
    violations.append("an application request was shown to the application "
                      "before the capabilities exchange")
if cer_index not in (0, None):
    violations.append("the CER was not the first message of the outbound "
                      "connection")

print()
print("property requires: until the capabilities exchange has succeeded, "
      "anything but a CE message of the expected direction is ignored - "
      "neither answered nor shown to an application; an outbound connection "
      "sends its CER first")
if violations:
    for v in violations:
        print("observed:", v)
    print("-> VIOLATION")
    sys.exit(1)
print("observed: only the CER was sent, nothing was answered or dispatched "
      "-> OK")
sys.exit(0)
