"""
C14 finding 1: after a connection loss while a (slow) handler is still working,
the late answer of the OLD transaction is routed onto the peer's NEW connection
and consumes the routing record of the new request, whose own answer is then
dropped ("No peer is waiting for an answer").

Exit 1 = violation observed, exit 0 = library behaves as the property says.
"""
import logging
import socket
import sys
import threading
import time

from diameter.message import Message, constants
from diameter.message.commands import (AccountingRequest,
                                       CapabilitiesExchangeRequest)
from diameter.node import Node
from diameter.node.application import SimpleThreadingApplication

logging.basicConfig(level=logging.CRITICAL)

PEER_HOST = "client.example.net"
REALM = "example.net"


def free_port():
    s = socket.socket()
    s.bind(("127.0.0.1", 0))
    p = s.getsockname()[1]
    s.close()
    return p


class Client:
    """A minimal remote Diameter peer on a real TCP socket."""
    def __init__(self, port):
        self.sock = socket.create_connection(("127.0.0.1", port), timeout=5)
        self.buf = b""

    def send(self, msg):
        self.sock.sendall(msg.as_bytes())

    def recv_msg(self, timeout):
        """Return next complete message or None on timeout / EOF."""
        deadline = time.time() + timeout
        while True:
            if len(self.buf) >= 20:
                length = int.from_bytes(self.buf[1:4], "big")
                if len(self.buf) >= length:
                    raw, self.buf = self.buf[:length], self.buf[length:]
                    return Message.from_bytes(raw)
            left = deadline - time.time()
            if left <= 0:
                return None
            self.sock.settimeout(left)
            try:
                data = self.sock.recv(65535)
            except (socket.timeout, TimeoutError):
                return None
            if not data:
                return None
            self.buf += data

    def handshake(self):
        cer = CapabilitiesExchangeRequest()
        cer.header.hop_by_hop_identifier = 1000
        cer.header.end_to_end_identifier = 1000
        cer.origin_host = PEER_HOST.encode()
        cer.origin_realm = REALM.encode()
        cer.host_ip_address = ["127.0.0.1"]
        cer.vendor_id = 99999
        cer.product_name = "demo"
        cer.acct_application_id = [constants.APP_DIAMETER_BASE_ACCOUNTING]
        self.send(cer)
        cea = self.recv_msg(5)
        assert cea is not None and cea.result_code == 2001, "CEA failed"

    def close(self):
        self.sock.close()


def acr(hbh, e2e, session):
    r = AccountingRequest()
    r.header.hop_by_hop_identifier = hbh
    r.header.end_to_end_identifier = e2e
    r.header.application_id = constants.APP_DIAMETER_BASE_ACCOUNTING
    r.acct_application_id = constants.APP_DIAMETER_BASE_ACCOUNTING
    r.session_id = session
    r.origin_host = PEER_HOST.encode()
    r.origin_realm = REALM.encode()
    r.destination_realm = REALM.encode()
    r.accounting_record_type = constants.E_ACCOUNTING_RECORD_TYPE_EVENT_RECORD
    r.accounting_record_number = 1
    return r


release = {}          # session-id -> Event that lets the handler finish
entered = {}          # session-id -> Event set when the handler was entered


def handler(app, msg):
    entered.setdefault(msg.session_id, threading.Event()).set()
    release[msg.session_id].wait(30)
    return app.generate_answer(msg, result_code=2001)


def main():
    port = free_port()
    node = Node("server.example.net", REALM, ip_addresses=["127.0.0.1"],
                tcp_port=port)
    node.wakeup_interval = 1
    peer = node.add_peer(f"aaa://{PEER_HOST}", REALM)
    app = SimpleThreadingApplication(constants.APP_DIAMETER_BASE_ACCOUNTING,
                                     is_acct_application=True,
                                     max_threads=0, request_handler=handler)
    node.add_application(app, [peer])
    node.start()
    verdict = 0
    try:
        for s in ("old-session", "new-session"):
            release[s] = threading.Event()
            entered[s] = threading.Event()

        # --- earlier transaction: request arrives, handler is slow, the
        # --- connection is lost (orderly close) while the handler works
        c1 = Client(port)
        c1.handshake()
        c1.send(acr(hbh=1, e2e=11, session="old-session"))
        assert entered["old-session"].wait(5), "old request never delivered"
        c1.close()
        t0 = time.time()
        while node.connections and time.time() - t0 < 5:
            time.sleep(0.05)
        assert not node.connections, "node did not notice the closed socket"

        # --- the peer connects afterwards (it restarted, so its hop-by-hop
        # --- counter starts from the same value again) and sends a request
        c2 = Client(port)
        c2.handshake()
        c2.send(acr(hbh=1, e2e=22, session="new-session"))
        assert entered["new-session"].wait(5), "new request never delivered"

        # the old handler finishes first, then the new one
        release["old-session"].set()
        first = c2.recv_msg(3)
        release["new-session"].set()
        second = c2.recv_msg(3)

        got = [m for m in (first, second) if m is not None]
        print("answers received on the NEW connection:")
        for m in got:
            print(f"   session={m.session_id!r} "
                  f"e2e={m.header.end_to_end_identifier} "
                  f"hbh={m.header.hop_by_hop_identifier} rc={m.result_code}")
        if not got:
            print("   (none)")
        good = [m for m in got if m.session_id == "new-session"
                and m.header.end_to_end_identifier == 22]
        stale = [m for m in got if m.session_id == "old-session"]
        print("property requires: the request of the reconnected peer is "
              "answered exactly as on a fresh node, i.e. exactly one answer, "
              "for session 'new-session' / end-to-end 22")
        if len(good) != 1 or stale:
            print(f"VIOLATION: {len(good)} answer(s) for the new request, "
                  f"{len(stale)} stale answer(s) of the lost transaction "
                  f"delivered on the new connection")
            verdict = 1
        else:
            print("OK")
        c2.close()
    finally:
        for ev in release.values():
            ev.set()
        node.stop(wait_timeout=3, force=True)
    return verdict


if __name__ == "__main__":
    rc = main()
    sys.stdout.flush()
    sys.exit(rc)
