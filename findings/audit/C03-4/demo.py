"""C03 finding 4: seven typed commands pre-set auth_application_id in __post_init__ even when the
instance is being built from received bytes.  If the attribute was left unset (None) when the
message was encoded, the decoded message nevertheless reports a value, and encoding it again
adds an Auth-Application-Id AVP that was never on the wire: encode-decode-encode != encode.
"""
import sys
from diameter.message import Message
from diameter.message.commands import (AbortSessionRequest, CreditControlAnswer, CreditControlRequest,
                                       DiameterEapAnswer, DiameterEapRequest, ReAuthRequest,
                                       SessionTerminationRequest)
from diameter.message.constants import *

failed = False
for cls in (AbortSessionRequest, CreditControlAnswer, CreditControlRequest, DiameterEapAnswer,
            DiameterEapRequest, ReAuthRequest, SessionTerminationRequest):
    msg = cls()
    msg.session_id = "host;1;2"
    msg.origin_host = b"host.example"
    msg.auth_application_id = None          # documented way of leaving an AVP out
    first = msg.as_bytes()
    n_first = len(Message.from_bytes(first, plain_msg=True).find_avps((AVP_AUTH_APPLICATION_ID, 0)))

    decoded = Message.from_bytes(first)
    assert type(decoded) is cls
    second = decoded.as_bytes()
    n_second = len(Message.from_bytes(second, plain_msg=True).find_avps((AVP_AUTH_APPLICATION_ID, 0)))
    ok = decoded.auth_application_id is None and second == first
    print(f"{cls.__name__:28s} Auth-Application-Id AVPs encoded: {n_first}; decoded attribute: "
          f"{decoded.auth_application_id!r}; AVPs after re-encoding: {n_second}; "
          f"bytes equal: {second == first} ({len(first)} -> {len(second)})")
    if not ok:
        failed = True

print("REQUIRED: unset attributes absent; decoding restores what was set; "
      "encode-decode-encode equals encode")
if failed:
    print("VIOLATION: the decoded message carries an Auth-Application-Id value that was never sent")
    sys.exit(1)
print("no violation")
sys.exit(0)
