"""C18 finding 3: a connection that completes its capabilities exchange while
the node is stopping becomes a fully served READY peer, never receives a DPR
and is reset when the wait timeout expires.

Node.stop() sends the DPR once, to the connections that are READY at the
instant it is called.  Connections that are still awaiting CER (or CEA) at
that instant stay in the tables; the CER/CEA timers are switched off by the
_stopping guard in _check_timers, while receive_cer / receive_cea have no
_stopping guard at all.  A CER that arrives inside the shutdown window is
therefore answered with DIAMETER_SUCCESS, the connection becomes PEER_READY,
applications are flagged ready, application requests are served - and no DPR
is ever sent to this ready peer: stop() just sits out the whole wait timeout
and then resets the socket.
"""
import socket
import sys
import threading
import time

from diameter.message import Message, constants
from diameter.message.commands import (CapabilitiesExchangeRequest,
                                       AccountingRequest)
from diameter.node import Node
from diameter.node.application import SimpleThreadingApplication
from diameter.node.peer import PEER_CONNECTED

_rx = {}


def read_msg(sock, timeout=None):
    sock.settimeout(timeout)
    buf = _rx.get(sock, b"")
    try:
        while len(buf) < 20 or len(buf) < int.from_bytes(buf[1:4], "big"):
            chunk = sock.recv(4096)
            if not chunk:
                return None
            buf += chunk
    except socket.timeout:
        return "timeout"
    except OSError:
        return None
    length = int.from_bytes(buf[1:4], "big")
    _rx[sock] = buf[length:]
    return Message.from_bytes(buf[:length])


served_requests = []


def handle_request(app, message):
    served_requests.append(message)
    answer = app.generate_answer(
        message, result_code=constants.E_RESULT_CODE_DIAMETER_SUCCESS)
    answer.accounting_record_type = message.accounting_record_type
    answer.accounting_record_number = message.accounting_record_number
    return answer


probe = socket.socket()
probe.bind(("127.0.0.1", 0))
port = probe.getsockname()[1]
probe.close()

node = Node("node.example.org", "example.org",
            ip_addresses=["127.0.0.1"], tcp_port=port)
node.wakeup_interval = 1
peer = node.add_peer("aaa://peer.example.org", "example.org")
app = SimpleThreadingApplication(constants.APP_DIAMETER_BASE_ACCOUNTING,
                                 is_acct_application=True,
                                 request_handler=handle_request)
node.add_application(app, [peer])
node.start()

# ---- the peer's TCP connection is accepted BEFORE the stop -------------------
remote = socket.create_connection(("127.0.0.1", port))
deadline = time.time() + 5
while not node.connections and time.time() < deadline:
    time.sleep(0.05)
conn = next(iter(node.connections.values()))
assert conn.state == PEER_CONNECTED        # awaiting CER

# ---- graceful stop begins ---------------------------------------------------
WAIT_TIMEOUT = 6
stop_done = threading.Event()
t0 = time.time()


def stopper():
    node.stop(wait_timeout=WAIT_TIMEOUT)
    stop_done.set()


threading.Thread(target=stopper, daemon=True).start()
while not node._stopping:
    time.sleep(0.01)
time.sleep(0.3)
assert node._stopping and not stop_done.is_set()

# ---- the CER arrives inside the shutdown window ---------------------------------
cer = CapabilitiesExchangeRequest()
cer.header.hop_by_hop_identifier = 1
cer.header.end_to_end_identifier = 1
cer.origin_host = b"peer.example.org"
cer.origin_realm = b"example.org"
cer.host_ip_address = ["127.0.0.1"]
cer.vendor_id = 99999
cer.product_name = "remote"
cer.acct_application_id = [constants.APP_DIAMETER_BASE_ACCOUNTING]
remote.sendall(cer.as_bytes())
cea = read_msg(remote, 3)
cea_result = getattr(cea, "result_code", None) if isinstance(cea, Message) else cea
state_after_cer = conn.state

acr = AccountingRequest()
acr.header.hop_by_hop_identifier = 2
acr.header.end_to_end_identifier = 2
acr.header.application_id = constants.APP_DIAMETER_BASE_ACCOUNTING
acr.acct_application_id = constants.APP_DIAMETER_BASE_ACCOUNTING
acr.session_id = "peer.example.org;1;1"
acr.origin_host = b"peer.example.org"
acr.origin_realm = b"example.org"
acr.destination_realm = b"example.org"
acr.accounting_record_type = constants.E_ACCOUNTING_RECORD_TYPE_EVENT_RECORD
acr.accounting_record_number = 1
aca = None
if isinstance(cea, Message):
    remote.sendall(acr.as_bytes())
    aca = read_msg(remote, 5)
aca_result = getattr(aca, "result_code", None) if isinstance(aca, Message) else aca

# ---- everything the node sends until it drops the connection -----------------
dpr_seen = False
while True:
    m = read_msg(remote, WAIT_TIMEOUT + 10)
    if not isinstance(m, Message):
        end = m
        break
    if (m.header.command_code == constants.CMD_DISCONNECT_PEER
            and m.header.is_request):
        dpr_seen = True
        dpa = m.to_answer()
        dpa.origin_host = b"peer.example.org"
        dpa.origin_realm = b"example.org"
        dpa.result_code = constants.E_RESULT_CODE_DIAMETER_SUCCESS
        remote.sendall(dpa.as_bytes())
closed_after = time.time() - t0
stop_done.wait(20)

became_ready = cea_result == constants.E_RESULT_CODE_DIAMETER_SUCCESS
print(f"observed: CER sent {0.3:.1f}s into the shutdown was answered with "
      f"Result-Code {cea_result}; connection state afterwards 0x{state_after_cer:x} "
      f"(0x12 = PEER_READY)")
print(f"observed: accounting request sent afterwards was served: "
      f"{len(served_requests)} request(s) reached the application, "
      f"answer Result-Code {aca_result}")
print(f"observed: DPR received by that ready peer: {dpr_seen}; connection "
      f"ended by {'reset/close' if end is None else end} after "
      f"{closed_after:.1f}s (wait timeout {WAIT_TIMEOUT}s)")
print("required: stopping sends a DPR (REBOOTING) to every ready peer and "
      "closes the connection on DPA; a stopping node does not take new "
      "peers into service")

violated = became_ready and not dpr_seen

for c in list(node.connections.values()):
    c.close(signal_node=False)
remote.close()

if violated:
    print("VIOLATION")
    sys.exit(1)
print("ok")
sys.exit(0)
