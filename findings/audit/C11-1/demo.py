"""C11 finding 1: one malformed message kills the connection's reader thread;
afterwards the watchdog misbehaves in every way the property rules out.

Run:  PYTHONPATH=/repo/src /venv/bin/python /repo/_audit/1/demo.py
Exit 1 = violation observed (current code), exit 0 = behaves as the property says.
"""
import socket
import sys
import threading
import time

# ---- virtual clock (1 s resolution); queue/threading use time.monotonic -----
_real_monotonic = time.monotonic
CLOCK = [1_700_000_000]
time.time = lambda: float(CLOCK[0])

# keep the expected traceback of the dying worker thread out of the output
threading.excepthook = lambda args: print(
    f"  [worker thread died: {args.exc_type.__name__}: {args.exc_value}]")

from diameter.message import Message, Avp, constants
from diameter.message.commands import (
    CapabilitiesExchangeRequest, DeviceWatchdogRequest, DeviceWatchdogAnswer)
from diameter.node import Node
from diameter.node.peer import (
    PeerConnection, PEER_RECV, PEER_CONNECTED, PEER_READY,
    PEER_READY_WAITING_DWA, PEER_CLOSED, PEER_TRANSPORT_TCP,
    DISCONNECT_REASON_DWA_TIMEOUT)

IDLE, DWA_T = 30, 4


def wait_for(cond, real_seconds=3.0):
    end = _real_monotonic() + real_seconds
    while _real_monotonic() < end:
        if cond():
            return True
        time.sleep(0.01)
    return cond()


node = Node("node.example.org", "example.org")
node.idle_timeout = IDLE
node.dwa_timeout = DWA_T
peer = node.add_peer("aaa://peer.example.org", "example.org")

ours, theirs = socket.socketpair()
conn = PeerConnection("127.0.0.1", 40000, PEER_RECV, node.interrupt_write)
conn.state = PEER_CONNECTED
node._add_peer_connection(conn, ours, PEER_TRANSPORT_TCP)

sent = []   # (virtual time, message) of everything the node sends
_orig_add_out = conn.add_out_msg
conn.add_out_msg = lambda m: (sent.append((CLOCK[0], m)), _orig_add_out(m))


def sent_dwr():
    return [(t, m) for t, m in sent
            if m.header.command_code == 280 and m.header.is_request]


def sent_dwa():
    return [(t, m) for t, m in sent
            if m.header.command_code == 280 and not m.header.is_request]


# ---- 1. ordinary capabilities exchange: connection becomes READY ------------
cer = CapabilitiesExchangeRequest()
cer.header.hop_by_hop_identifier = 1
cer.header.end_to_end_identifier = 1
cer.origin_host = b"peer.example.org"
cer.origin_realm = b"example.org"
cer.host_ip_address = ["127.0.0.1"]
cer.vendor_id = 1
cer.product_name = "peer"
cer.auth_application_id = [constants.APP_RELAY]
conn.add_in_bytes(cer.as_bytes())
assert wait_for(lambda: conn.state == PEER_READY), "setup: CER not accepted"
print(f"t=+0  connection READY (CEA result {sent[0][1].result_code})")
T0 = CLOCK[0]

# ---- 2. the peer sends one odd request: unknown command code, T flag set, --
# ----    Origin-Host AVP present twice (network input, nothing else) --------
poison = Message()
poison.header.command_code = 9999
poison.header.is_request = True
poison.header.is_retransmit = True
poison.header.hop_by_hop_identifier = 2
poison.header.end_to_end_identifier = 2
poison.append_avp(Avp.new(constants.AVP_ORIGIN_HOST, value=b"peer.example.org"))
poison.append_avp(Avp.new(constants.AVP_ORIGIN_HOST, value=b"peer.example.org"))
CLOCK[0] = T0 + 1
conn.add_in_bytes(poison.as_bytes())
conn._read_thread.join(2.0)
print(f"t=+1  peer sent an unknown request with T flag and two Origin-Host "
      f"AVPs; reader thread alive: {conn._read_thread.is_alive()}")


def peer_dwr(hbh):
    m = DeviceWatchdogRequest()
    m.header.hop_by_hop_identifier = hbh
    m.header.end_to_end_identifier = hbh
    m.origin_host = b"peer.example.org"
    m.origin_realm = b"example.org"
    return m.as_bytes()


violations = []

# ---- 3. the peer keeps the link busy: a DWR every 10 s (< idle timeout) ----
for i, dt in enumerate((10, 20, 30, 40)):
    CLOCK[0] = T0 + dt
    before = len(sent_dwa())
    conn.add_in_bytes(peer_dwr(100 + i))
    answered = wait_for(lambda: len(sent_dwa()) > before, 1.5)
    node._check_timers(conn)            # timer check of the node main loop
    print(f"t=+{dt} peer DWR answered: {answered}; DWRs sent by node so far: "
          f"{len(sent_dwr())}; state {conn.state:#x}; "
          f"last_read_since={conn.last_read_since}")
    if not answered:
        violations.append(
            f"t=+{dt}: received DWR was NOT answered (property: 'a received "
            f"DWR is answered 2001 with the node's Origin-State-Id')")

if sent_dwr():
    t = sent_dwr()[0][0] - T0
    violations.append(
        f"t=+{t}: node sent a DWR although bytes arrived every 10 s "
        f"(idle timeout {IDLE} s) (property: 'No DWR is sent while traffic "
        f"keeps arriving within the idle timeout')")

# ---- 4. the peer answers the node's DWR at once -----------------------------
if conn.state == PEER_READY_WAITING_DWA:
    dwr = sent_dwr()[-1][1]
    dwa = DeviceWatchdogAnswer()
    dwa.header.hop_by_hop_identifier = dwr.header.hop_by_hop_identifier
    dwa.header.end_to_end_identifier = dwr.header.end_to_end_identifier
    dwa.result_code = 2001
    dwa.origin_host = b"peer.example.org"
    dwa.origin_realm = b"example.org"
    conn.add_in_bytes(dwa.as_bytes())
    back = wait_for(lambda: conn.state == PEER_READY, 1.5)
    print(f"t=+40 peer sent DWA immediately; back to READY: {back}")
    if not back:
        violations.append(
            "DWA delivered within the DWA timeout did not return the "
            "connection to READY (property: 'a DWA returns it to ready')")
    CLOCK[0] += DWA_T + 1
    node._check_timers(conn)
    print(f"t=+45 timer check: state {conn.state:#x}, in node.connections: "
          f"{conn.ident in node.connections}, peer.disconnect_reason="
          f"{peer.disconnect_reason!r}")
    if conn.state == PEER_CLOSED and \
            peer.disconnect_reason == DISCONNECT_REASON_DWA_TIMEOUT:
        violations.append(
            "connection closed with DISCONNECT_REASON_DWA_TIMEOUT although "
            "the DWA had been delivered in time")

conn.close(signal_node=False)
theirs.close()
try:
    ours.close()
except OSError:
    pass

print()
if violations:
    print("OBSERVED (violations of C11):")
    for v in violations:
        print("  -", v)
    print("REQUIRED: traffic within the idle timeout suppresses the DWR, every "
          "received DWR is answered 2001, and a DWA returns the connection to "
          "READY instead of a watchdog-timeout close.")
    sys.exit(1)
print("OK: connection kept processing traffic; watchdog behaved as required")
sys.exit(0)
