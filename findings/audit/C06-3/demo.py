"""C06 / finding 3: a connection that the node closes because the CER did not
arrive within the timeout can come back as READY and be used for routing.

Node._check_timers (main thread) and the dispatch of a received CER
(connection reader thread) are not synchronised.  When the late CER is the
very event that wakes the node up (wakeup_interval 6 s > cer_timeout 4 s by
default, so that is the normal case for a CER arriving after 5 s), both run
at the same time:

   main thread                         reader thread of the connection
   -----------                         -------------------------------
   recv() -> conn.add_in_bytes(CER)
   _check_timers: last_read_since=5>4
                                       takes bytes, reset_last_read()
                                       gate: state == CONNECTED -> pass
   close_connection_socket():
     socket closed, state = CLOSED,
     removed from node.connections,
     Peer.connection = None
                                       Node.receive_cer():
                                         Peer.connection = conn
                                         conn.state = READY, CEA "sent"

The demo drives exactly the calls Node._handle_connections makes
(add_in_bytes, then _check_timers) and only pins the schedule above with
events placed at public method boundaries; no state is modified by hand.

Run:  PYTHONPATH=/repo/src /venv/bin/python /repo/_audit/3/demo.py
exit 1 = violation observed (current code), exit 0 = behaves as the property says
"""
import logging
import sys
import threading
import time
import types

import diameter.node.node as nodemod
import diameter.node.peer as peermod
from diameter.node import Node
from diameter.node.application import Application
from diameter.node.node import NotRoutable
from diameter.node.peer import (PeerConnection, PEER_RECV, PEER_CONNECTED,
                                PEER_READY_STATES, PEER_TRANSPORT_TCP)
from diameter.message.commands import (CapabilitiesExchangeRequest,
                                       CreditControlRequest)

logging.disable(logging.CRITICAL)

_base = time.time()
_offset = [0]
_fake_time = types.SimpleNamespace(time=lambda: _base + _offset[0],
                                   sleep=time.sleep)
nodemod.time = _fake_time
peermod.time = _fake_time


class FakeSocket:
    def __init__(self):
        self.closed = False

    def fileno(self):
        return 4711

    def close(self):
        self.closed = True

    def setsockopt(self, *a):
        pass


class App(Application):
    def handle_request(self, message):
        pass


def cer() -> bytes:
    m = CapabilitiesExchangeRequest()
    m.header.hop_by_hop_identifier = 1
    m.header.end_to_end_identifier = 2
    m.origin_host = b"peer.local.realm"
    m.origin_realm = b"local.realm"
    m.host_ip_address = ["10.0.0.1"]
    m.vendor_id = 10415
    m.product_name = "remote"
    m.auth_application_id = [4]
    return m.as_bytes()


node = Node("node.local.realm", "local.realm",
            ip_addresses=["127.0.0.1"], tcp_port=3868)
node.cer_timeout = 4
peer = node.add_peer("aaa://peer.local.realm", "local.realm")
app = App(4, is_auth_application=True)
node.add_application(app, [peer])

# inbound connection, as created by Node._handle_connections on accept()
conn = PeerConnection("10.0.0.1", 5555, PEER_RECV, node.interrupt_write)
conn.state = PEER_CONNECTED
sock = FakeSocket()
node._add_peer_connection(conn, sock, PEER_TRANSPORT_TCP)
written = []
conn.add_out_msg = written.append

# ---- schedule pins ---------------------------------------------------------
timeout_decided = threading.Event()   # main thread found the timer expired
gate_passed = threading.Event()       # reader thread is past the CE gate
socket_closed = threading.Event()     # main thread finished closing
main_thread = threading.main_thread()

_orig_reset_last_read = conn.reset_last_read


def reset_last_read():
    # reader thread gets the CPU only after the main thread evaluated the timer
    if threading.current_thread() is not main_thread:
        timeout_decided.wait(5)
    _orig_reset_last_read()


conn.reset_last_read = reset_last_read

_orig_close = node.close_connection_socket


def close_connection_socket(c, reason=nodemod.DISCONNECT_REASON_UNKNOWN):
    timeout_decided.set()
    gate_passed.wait(5)               # main thread is preempted here
    _orig_close(c, reason)
    socket_closed.set()


node.close_connection_socket = close_connection_socket

_orig_receive_cer = node.receive_cer
cer_done = threading.Event()


def receive_cer(c, message):
    gate_passed.set()
    socket_closed.wait(5)             # reader thread is preempted here
    try:
        _orig_receive_cer(c, message)
    finally:
        cer_done.set()


node.receive_cer = receive_cer

# ---- the history: 5 s of silence, then the CER arrives ---------------------
_offset[0] += 5
conn.add_in_bytes(cer())              # main loop: data = recv(); add_in_bytes
node._check_timers(conn)              # main loop: timers, same iteration
closed_by_timeout = socket_closed.is_set()
cer_done.wait(5)
time.sleep(0.1)

state = nodemod.state_names.get(conn.state)
print(f"CER timeout fired and closed the socket: {closed_by_timeout} "
      f"(socket closed={sock.closed}, still in node.connections="
      f"{conn.ident in node.connections})")
print(f"afterwards: conn.state={state}, Peer.connection is that connection="
      f"{peer.connection is conn}, CEA queued on it="
      f"{[getattr(m, 'result_code', None) for m in written]}, "
      f"application ready flag={app.is_ready.is_set()}")

req = CreditControlRequest()
req.header.application_id = 4
req.header.end_to_end_identifier = 99
req.destination_realm = b"local.realm"
try:
    routed_conn, _ = node.route_request(app, req)
    routed = routed_conn is conn
    print(f"route_request() selects the closed connection: {routed}")
except NotRoutable as e:
    routed = False
    print(f"route_request(): NotRoutable ({e})")

# one more minute of timer checks: nobody will ever clean it up, because the
# connection is not in node.connections any more
_offset[0] += 60
for c in list(node.connections.values()):
    node._check_timers(c)
node._reconnect_peers()
still_ready = conn.state in PEER_READY_STATES and peer.connection is conn

conn.close(signal_node=False)

print()
print("property requires: the connection is closed when the expected CER "
      "does not arrive within the configured timeout; a connection whose "
      "exchange has not succeeded is not used for routing")
if closed_by_timeout and (conn.state in PEER_READY_STATES or routed
                          or peer.connection is conn):
    print("observed: the socket was closed for the CER timeout, yet the "
          "connection ended up READY, registered as Peer.connection and "
          f"selected by route_request (still so 60 s later: {still_ready}) "
          "-> VIOLATION")
    sys.exit(1)
print("observed: connection is either closed and unused, or open and ready "
      "-> OK")
sys.exit(0)
