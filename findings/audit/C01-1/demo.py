"""C01 / finding 1: AvpTime silently wraps datetimes outside 1968-01-20..2104-02-26.

Property clause: "a value outside the type's domain is rejected with an error
instead of being truncated or wrapped" (Time domain: 1968-01-20 03:14:08 ..
2104-02-26 09:42:23 UTC, the only instants a 32-bit NTP-era value with the
RFC 2030 MSB convention can express).
"""
import os
import sys
import time

os.environ["TZ"] = "UTC"
time.tzset()

import datetime

import diameter
from diameter.message import constants
from diameter.message.avp import Avp, AvpTime, AvpEncodeError

print("library under test:", diameter.__file__)

D = datetime.datetime
out_of_domain = [
    D(1900, 1, 1, 0, 0, 0),        # NTP 0 -> collides with 2036-02-07 06:28:16
    D(1950, 1, 1, 0, 0, 0),
    D(1968, 1, 20, 3, 14, 7),      # one second before the documented lower bound
    D(2104, 2, 26, 9, 42, 24),     # one second after the upper bound
    D(2105, 1, 1, 0, 0, 0),
    D(2172, 1, 1, 0, 0, 0),
]
in_domain = [D(1968, 1, 20, 3, 14, 8), D(2036, 2, 7, 6, 28, 15),
             D(2036, 2, 7, 6, 28, 16), D(2104, 2, 26, 9, 42, 23)]

violations = 0

# sanity: the boundaries themselves round-trip (so the demo would pass on a
# library that merely adds the range check)
for v in in_domain:
    a = Avp.new(constants.AVP_EVENT_TIMESTAMP, value=v)
    back = Avp.from_bytes(a.as_bytes()).value
    if back != v:
        print(f"UNEXPECTED: in-domain {v} decoded as {back}")
        violations += 1

for v in out_of_domain:
    try:
        a = Avp.new(constants.AVP_EVENT_TIMESTAMP, value=v)
    except (AvpEncodeError, ValueError, OverflowError) as e:
        print(f"ok: {v} rejected with {type(e).__name__}")
        continue
    wire = a.as_bytes()
    back = Avp.from_bytes(wire).value
    print(f"VIOLATION: {v} (outside the Time domain) was accepted, encoded as "
          f"{wire.hex()} and decodes as {back}  -> wrapped by "
          f"{abs((back - v).days)} days; the property requires an error")
    violations += 1

# the same through the plain setter
t = AvpTime(constants.AVP_EVENT_TIMESTAMP)
try:
    t.value = D(2105, 1, 1)
    print(f"VIOLATION: AvpTime.value = 2105-01-01 accepted, payload "
          f"{t.payload.hex()}, reads back {t.value}")
    violations += 1
except AvpEncodeError:
    print("ok: setter rejected 2105-01-01")

if violations:
    print(f"\n{violations} violation(s): out-of-domain Time values are wrapped "
          f"instead of rejected")
    sys.exit(1)
print("no violation")
sys.exit(0)
