"""C19 finding 1: Node._origin_waiting_answer entries of requests that were in
flight when their connection ended are never released, although the
application answers every one of them (Application.send_answer ->
Node.route_answer raises NotRoutable, nothing purges the record).

History per run (real TCP on loopback, a started Node):
  known peer connects, CER/CEA, sends K accounting requests, closes its socket
  while the application is still working; the application then answers all K
  requests; the node is stopped.  Every request got its application answer,
  every connection has ended.  The run is repeated with K=2 and K=20 and the
  retained state is compared.

exit 1 = retained state depends on K (violation), exit 0 = independent of K.
"""
import collections
import logging
import socket
import sys
import threading
import time

from diameter.message import Message, constants
from diameter.message.commands import (AccountingRequest,
                                       CapabilitiesExchangeRequest)
from diameter.node import Node
from diameter.node.application import SimpleThreadingApplication

logging.disable(logging.CRITICAL)


def free_port() -> int:
    s = socket.socket()
    s.bind(("127.0.0.1", 0))
    port = s.getsockname()[1]
    s.close()
    return port


def wait_for(cond, timeout=15.0):
    end = time.time() + timeout
    while time.time() < end:
        if cond():
            return True
        time.sleep(0.02)
    return False


def recv_msg(sock) -> Message:
    buf = b""
    while len(buf) < 20 or len(buf) < int.from_bytes(buf[1:4], "big"):
        d = sock.recv(4096)
        if not d:
            raise RuntimeError("peer closed")
        buf += d
    return Message.from_bytes(buf)


def container_sizes(obj) -> dict:
    """len() of every container attribute (one level of nesting summed)."""
    out = {}
    for name, val in vars(obj).items():
        if isinstance(val, (dict, list, set, collections.deque)):
            n = len(val)
            if isinstance(val, dict):
                for v in val.values():
                    if isinstance(v, (dict, list, set, collections.deque)):
                        n += len(v)
            out[name] = n
    return out


def run(k: int) -> dict:
    port = free_port()
    node = Node("srv.example.net", "example.net",
                ip_addresses=["127.0.0.1"], tcp_port=port)
    node.wakeup_interval = 0.2
    gate = threading.Event()
    answered = []
    not_routable = []

    def handler(app, msg):
        gate.wait(30)
        return app.generate_answer(
            msg, result_code=constants.E_RESULT_CODE_DIAMETER_SUCCESS)

    app = SimpleThreadingApplication(
        constants.APP_DIAMETER_BASE_ACCOUNTING, is_acct_application=True,
        request_handler=handler)
    orig_send_answer = app.send_answer

    def send_answer(message):
        try:
            orig_send_answer(message)
            answered.append("sent")
        except Exception as e:
            not_routable.append(type(e).__name__)
            answered.append("refused")
            raise

    app.send_answer = send_answer   # observation only
    peer = node.add_peer("aaa://client.example.net", "example.net")
    node.add_application(app, [peer])
    node.start()
    try:
        s = socket.create_connection(("127.0.0.1", port))
        s.settimeout(10)
        cer = CapabilitiesExchangeRequest()
        cer.header.hop_by_hop_identifier = 1
        cer.header.end_to_end_identifier = 1
        cer.origin_host = b"client.example.net"
        cer.origin_realm = b"example.net"
        cer.host_ip_address = "127.0.0.1"
        cer.vendor_id = 1
        cer.product_name = "demo"
        cer.acct_application_id = [constants.APP_DIAMETER_BASE_ACCOUNTING]
        s.sendall(cer.as_bytes())
        cea = recv_msg(s)
        assert cea.result_code == 2001, cea.result_code

        for i in range(k):
            acr = AccountingRequest()
            acr.header.application_id = constants.APP_DIAMETER_BASE_ACCOUNTING
            acr.header.hop_by_hop_identifier = 100 + i
            acr.header.end_to_end_identifier = 5000 + i
            acr.session_id = f"client.example.net;1;{i}"
            acr.origin_host = b"client.example.net"
            acr.origin_realm = b"example.net"
            acr.destination_realm = b"example.net"
            acr.accounting_record_type = constants.E_ACCOUNTING_RECORD_TYPE_EVENT_RECORD
            acr.accounting_record_number = i
            acr.acct_application_id = constants.APP_DIAMETER_BASE_ACCOUNTING
            s.sendall(acr.as_bytes())

        # all K requests have reached the application
        # (adapted after /repo 9ce2ff5: the table is keyed by connection ident, not by host)
        assert wait_for(lambda: sum(
            len(v) for v in list(node._peer_waiting_answer.values())) == k), \
            "requests did not arrive"
        # the peer goes away while the application is still busy
        s.close()
        assert wait_for(lambda: len(node.connections) == 0), "conn not closed"
        # now the application answers every request
        gate.set()
        assert wait_for(lambda: len(answered) == k), "app did not answer all"
    finally:
        gate.set()
        node.stop(force=True)
    time.sleep(0.5)
    sizes = container_sizes(node)
    sizes["app._answer_waiting"] = len(app._answer_waiting)
    sizes["_answers_attempted_by_app"] = len(answered)
    sizes["_answers_refused_NotRoutable"] = len(not_routable)
    return sizes


small, large = run(2), run(20)
print("retained after K=2 :", small)
print("retained after K=20:", large)
tables = ["_app_waiting_answer", "_peer_waiting_answer",
          "_origin_waiting_answer", "connections", "peer_sockets",
          "socket_peers", "_half_ready_connections"]
grown = {t: (small[t], large[t]) for t in tables if small[t] != large[t]}
print("property requires : after every request has been answered by the "
      "application and every connection has ended, retained state is "
      "independent of the number of transactions")
if grown:
    print("OBSERVED VIOLATION: tables whose size depends on K:", grown)
    sys.exit(1)
print("OK: retained state independent of K")
sys.exit(0)
