"""C02 finding 2: AVPs nested in a grouped AVP are dropped when the message is
decoded into its registered request/answer class.

Wire: an RFC 6733 conformant Session-Termination-Request that carries a
Proxy-Info AVP (284).  RFC 6733 defines  Proxy-Info ::= { Proxy-Host }
{ Proxy-State } * [ AVP ], i.e. additional member AVPs are legitimate.  The
Proxy-Info here carries one additional member, a Class AVP (code 25, in the dictionary).
The property demands that the decoded AVP sequence is identical to the wire
"recursively through grouped AVPs" and that a path search finds exactly the
AVPs located at that path.
"""
import logging
import struct
import sys

logging.disable(logging.CRITICAL)

from diameter.message import Message
from diameter.message.avp import AvpGrouped


# --- independent wire builder: a tree is a list of (code, vendor, flags, value)
# --- where value is bytes (leaf) or a list (grouped)
def enc_avp(code, vendor, flags, value):
    payload = enc_tree(value) if isinstance(value, list) else value
    if vendor:
        flags |= 0x80
    length = 8 + (4 if vendor else 0) + len(payload)
    out = struct.pack(">II", code, (flags << 24) | length)
    if vendor:
        out += struct.pack(">I", vendor)
    return out + payload + b"\x00" * ((-len(payload)) % 4)


def enc_tree(tree):
    return b"".join(enc_avp(*node) for node in tree)


def enc_msg(flags, code, app_id, hbh, e2e, tree):
    body = enc_tree(tree)
    return struct.pack(">IIIII", (1 << 24) | (20 + len(body)),
                       (flags << 24) | code, app_id, hbh, e2e) + body


def norm(tree):
    """Wire tree with the V bit made explicit, as the decoder must report it."""
    return [(c, v, f | (0x80 if v else 0), norm(x) if isinstance(x, list) else x)
            for c, v, f, x in tree]


def tree_of(avps):
    """Tree of what the library reports."""
    return [(a.code, a.vendor_id, a.flags,
             tree_of(a.value) if isinstance(a, AvpGrouped) else a.payload)
            for a in avps]


def show(title, tree, indent="  "):
    print(title)
    def rec(t, ind):
        for c, v, f, x in t:
            if isinstance(x, list):
                print(f"{ind}code={c} vendor={v} flags=0x{f:02x} grouped:")
                rec(x, ind + "  ")
            else:
                print(f"{ind}code={c} vendor={v} flags=0x{f:02x} payload={x!r}")
    rec(tree, indent)
    if not tree:
        print(indent + "(no AVPs)")

M = 0x40
EXTRA = (25, 0, M, b"agent-local-data")          # Class (a dictionary AVP)
wire_tree = [
    (263, 0, M, b"client.example.org;1;1"),       # Session-Id
    (264, 0, M, b"client.example.org"),           # Origin-Host
    (296, 0, M, b"example.org"),                  # Origin-Realm
    (283, 0, M, b"example.net"),                  # Destination-Realm
    (258, 0, M, struct.pack(">I", 4)),            # Auth-Application-Id
    (295, 0, M, struct.pack(">I", 1)),            # Termination-Cause
    (284, 0, M, [                                 # Proxy-Info
        (280, 0, M, b"proxy.example.org"),        #   Proxy-Host
        (33, 0, M, b"\x01\x02\x03\x04"),          #   Proxy-State
        EXTRA,                                    #   * [ AVP ]
    ]),
]
data = enc_msg(0xc0, 275, 4, 0x11111111, 0x22222222, wire_tree)

generic = Message.from_bytes(data, plain_msg=True)
assert tree_of(generic.avps) == norm(wire_tree), "demo bug: wire tree mismatch"
assert generic.as_bytes() == data

msg = Message.from_bytes(data)
print("decoded as:", type(msg).__name__)
want = norm(wire_tree)
got = tree_of(msg.avps)
show("AVP tree on the wire:", want)
show("AVP tree of the decoded message (msg.avps):", got)

want_pi = [n for n in want if n[0] == 284][0][3]
got_pi = [n for n in got if n[0] == 284]
got_pi = got_pi[0][3] if got_pi else None

path = ((284, 0), (25, 0))
found = [(a.code, a.vendor_id, a.flags, a.payload) for a in msg.find_avps(*path)]
want_found = [n for n in want_pi if (n[0], n[1]) == (25, 0)]
print(f"find_avps{path} ->", found, " wire:", want_found)

violated = False
if got_pi != want_pi:
    print("VIOLATION: the members of the decoded Proxy-Info differ from the wire "
          f"({0 if got_pi is None else len(got_pi)} members decoded, {len(want_pi)} on the "
          "wire); the property requires the AVP sequence to be identical to the wire "
          "'recursively through grouped AVPs'")
    violated = True
if found != want_found:
    print("VIOLATION: the path search did not return 'exactly the AVPs located at "
          "that path of the tree'")
    violated = True
if not violated:
    print("OK: nested AVPs preserved")
sys.exit(1 if violated else 0)
