"""C07 finding 3: a thread interleaving makes the node answer ONE watchdog
request TWICE.

Two different peers (two connections, i.e. two reader threads) each send a
Device-Watchdog-Request; both happen to use the same hop-by-hop and end-to-end
identifier (identifiers are only unique per connection / per originating host).
Node._origin_waiting_answer is one node-wide dict keyed by
"<hop-by-hop>:<end-to-end>" without the connection, and Node._record_answer
does an unsynchronised  "if key in dict ... del dict[key]".  When both reader
threads are between the membership test and the `del`, the slower one gets a
KeyError - AFTER its DWA has already been queued - and the exception handler
of Node._receive_message queues a second answer (DIAMETER_UNABLE_TO_COMPLY)
for the same request.

The schedule is forced deterministically: `time.time()` is called in
_record_answer exactly between the membership test and the `del`; the `time`
name of diameter.node.node is replaced by a shim that lets the two reader
threads meet at a barrier at that point (nothing else is altered).

exit 1 = one of the two DWRs was answered twice (violation)
exit 0 = each DWR got at most one answer
"""
import logging
import socket
import sys
import threading
import time

import diameter.node.node as node_module
from diameter.message import Message, MessageHeader
from diameter.message.commands import CapabilitiesExchangeRequest, DeviceWatchdogRequest
from diameter.message.constants import *
from diameter.node import Node
from diameter.node.peer import PeerConnection, PEER_RECV, PEER_CONNECTED, PEER_READY, PEER_TRANSPORT_TCP

logging.disable(logging.CRITICAL)


def decode_stream(buf: bytes) -> list[Message]:
    out = []
    while len(buf) >= 20:
        hdr = MessageHeader.from_bytes(buf)
        out.append(Message.from_bytes(buf[:hdr.length]))
        buf = buf[hdr.length:]
    return out


def wait_for(cond, timeout=5.0):
    end = time.time() + timeout
    while time.time() < end:
        if cond():
            return True
        time.sleep(0.02)
    return cond()


class TimeShim:
    """Behaves like the `time` module; optionally makes two threads that are
    inside Node._record_answer meet before they continue."""
    def __init__(self):
        self.barrier = None

    def __getattr__(self, name):
        return getattr(time, name)

    def time(self):
        barrier = self.barrier
        if barrier is not None and sys._getframe(1).f_code.co_name == "_record_answer":
            try:
                barrier.wait(5)
            except threading.BrokenBarrierError:
                pass
        return time.time()


shim = TimeShim()
node_module.time = shim

node = Node("srv.example.net", "example.net")
node.add_peer("aaa://cli1.example.net", "example.net")
node.add_peer("aaa://cli2.example.net", "example.net")

socks = []


def new_inbound_connection() -> PeerConnection:
    a, b = socket.socketpair()
    socks.extend([a, b])
    conn = PeerConnection("10.0.0.1", 3868, PEER_RECV, interrupt_fileno=node.interrupt_write)
    conn.state = PEER_CONNECTED
    node._add_peer_connection(conn, a, PEER_TRANSPORT_TCP)
    return conn


def cer(host: bytes, ident: int) -> bytes:
    m = CapabilitiesExchangeRequest()
    m.header.hop_by_hop_identifier = ident
    m.header.end_to_end_identifier = ident
    m.origin_host = host
    m.origin_realm = b"example.net"
    m.host_ip_address = "10.0.0.1"
    m.vendor_id = 1
    m.product_name = "demo"
    m.auth_application_id = [APP_RELAY]
    return m.as_bytes()


def dwr(host: bytes, ident: int) -> bytes:
    m = DeviceWatchdogRequest()
    m.header.hop_by_hop_identifier = ident
    m.header.end_to_end_identifier = ident
    m.origin_host = host
    m.origin_realm = b"example.net"
    return m.as_bytes()


conn1 = new_inbound_connection()
conn2 = new_inbound_connection()
conn1.add_in_bytes(cer(b"cli1.example.net", 1))
conn2.add_in_bytes(cer(b"cli2.example.net", 2))
assert wait_for(lambda: conn1.state == PEER_READY and conn2.state == PEER_READY)
time.sleep(0.2)

# from here on: two threads inside _record_answer wait for each other
shim.barrier = threading.Barrier(2)
conn1.add_in_bytes(dwr(b"cli1.example.net", 0x500))
conn2.add_in_bytes(dwr(b"cli2.example.net", 0x500))


def dwas(conn):
    return [m for m in decode_stream(conn.write_buffer)
            if not m.header.is_request and m.header.command_code == CMD_DEVICE_WATCHDOG]


wait_for(lambda: len(dwas(conn1)) >= 1 and len(dwas(conn2)) >= 1
         and len(dwas(conn1)) + len(dwas(conn2)) >= 3, timeout=8)
shim.barrier = None
time.sleep(0.3)

worst = 0
for no, conn in ((1, conn1), (2, conn2)):
    got = dwas(conn)
    worst = max(worst, len(got))
    print(f"connection {no} ({conn.host_identity}): 1 DWR received (hop-by-hop 0x500), "
          f"{len(got)} DWA transmitted")
    for m in got:
        print(f"    DWA hop-by-hop={hex(m.header.hop_by_hop_identifier)} "
              f"end-to-end={hex(m.header.end_to_end_identifier)} result-code={m.result_code}")
print("property C07 requires: 'The node never transmits two answers for one request'")

conn1.close(signal_node=False)
conn2.close(signal_node=False)
for s in socks:
    s.close()

if worst > 1:
    print("VIOLATION: one Device-Watchdog-Request was answered twice")
    sys.exit(1)
print("ok: one answer per request")
sys.exit(0)
