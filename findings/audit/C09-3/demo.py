"""C09 finding 3: the same peer has two connections (it re-connected while the
node has not yet noticed that the first connection is dead); the answer to a
request that arrived on the second connection is written to the first one."""
import sys
import os

from diameter.message import constants
from diameter.message.commands import (
    AccountingRequest, CapabilitiesExchangeRequest)
from diameter.node import Node
from diameter.node.application import Application
from diameter.node.node import NotRoutable
from diameter.node.peer import (
    PeerConnection, PEER_RECV, PEER_CONNECTED, PEER_READY, PEER_TRANSPORT_TCP)


class FakeSocket:
    _next = 1000

    def __init__(self):
        FakeSocket._next += 1
        self._fileno = FakeSocket._next
        self.closed = False

    def fileno(self):
        return self._fileno

    def close(self):
        self.closed = True

    def setsockopt(self, *a):
        pass


class RecordingApp(Application):
    def __init__(self):
        super().__init__(constants.APP_DIAMETER_BASE_ACCOUNTING,
                         is_acct_application=True)
        self.requests = []

    def handle_request(self, message):
        self.requests.append(message)


def inbound_connection(node, origin_host, sent):
    """An accepted TCP connection on which the peer has sent its CER."""
    conn = PeerConnection("10.0.0.1", 40000, PEER_RECV, node.interrupt_write)
    conn.state = PEER_CONNECTED
    node._add_peer_connection(conn, FakeSocket(), PEER_TRANSPORT_TCP)
    conn.add_out_msg = lambda m, _c=conn: sent.append((_c, m))
    cer = CapabilitiesExchangeRequest()
    cer.header.hop_by_hop_identifier = 1
    cer.header.end_to_end_identifier = 1
    cer.origin_host = origin_host.encode()
    cer.origin_realm = b"realm.net"
    cer.host_ip_address = ["10.0.0.1"]
    cer.vendor_id = 1
    cer.product_name = "x"
    cer.acct_application_id = [constants.APP_DIAMETER_BASE_ACCOUNTING]
    node._receive_message(conn, cer)
    assert conn.state == PEER_READY, conn.state
    return conn


def acr(origin_host, hbh, e2e, session):
    r = AccountingRequest()
    r.header.hop_by_hop_identifier = hbh
    r.header.end_to_end_identifier = e2e
    r.header.application_id = constants.APP_DIAMETER_BASE_ACCOUNTING
    r.session_id = session
    r.origin_host = origin_host.encode()
    r.origin_realm = b"realm.net"
    r.destination_realm = b"realm.net"
    r.accounting_record_type = constants.E_ACCOUNTING_RECORD_TYPE_EVENT_RECORD
    r.accounting_record_number = 1
    r.acct_application_id = constants.APP_DIAMETER_BASE_ACCOUNTING
    return r



def main():
    node = Node("server.realm.net", "realm.net")
    peer_a = node.add_peer("aaa://a.realm.net")
    app = RecordingApp()
    node.add_application(app, [peer_a])

    sent = []
    conn1 = inbound_connection(node, "a.realm.net", sent)
    # second TCP connection from the same peer, CER with the same Origin-Host
    try:
        conn2 = inbound_connection(node, "a.realm.net", sent)
    except AssertionError:
        print("second connection of the same peer was not accepted as READY; "
              "scenario impossible")
        conn1.close(signal_node=False)
        return 0
    print(f"conn1 {conn1.ident} state {conn1.state:#x}, "
          f"conn2 {conn2.ident} state {conn2.state:#x}, both host identity "
          f"{conn1.host_identity!r}/{conn2.host_identity!r}")
    del sent[:]

    req = acr("a.realm.net", 9, 333, "a.realm.net;1;1")
    node._receive_message(conn2, req)
    assert app.requests == [req]

    ans = app.generate_answer(
        req, result_code=constants.E_RESULT_CODE_DIAMETER_SUCCESS)
    err = None
    try:
        app.send_answer(ans)
    except NotRoutable as e:
        err = e
    names = {id(conn1): "conn1", id(conn2): "conn2"}
    where = [names[id(c)] for c, m in sent if m is ans]
    print(f"request arrived on conn2; its answer was written to {where}, "
          f"exception {err!r}")
    print("property requires: transmitted only on the connection on which "
          "the corresponding request arrived (conn2)")

    for c in (conn1, conn2):
        c.close(signal_node=False)
    for a in node.applications:
        a.stop()

    if "conn1" in where:
        print("VIOLATION")
        return 1
    print("ok")
    return 0


if __name__ == "__main__":
    try:
        rc = main()
    except BaseException:
        import traceback
        traceback.print_exc()
        rc = 2
    sys.stdout.flush()
    sys.stderr.flush()
    os._exit(rc)
