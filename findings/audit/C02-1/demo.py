"""C02 finding 1: a repeated AVP is lost when a message is decoded into its
registered request/answer class.

Wire: a Capabilities-Exchange-Request whose AVP sequence contains the
Origin-State-Id AVP (278) twice (values 1 and 2).  The property demands that
the decoded message carries an AVP sequence identical to the wire and that
find_avps((278, 0)) returns exactly the two AVPs, in wire order.
"""
import logging
import struct
import sys

logging.disable(logging.CRITICAL)

from diameter.message import Message
from diameter.message.avp import AvpGrouped


# --- independent wire builder: a tree is a list of (code, vendor, flags, value)
# --- where value is bytes (leaf) or a list (grouped)
def enc_avp(code, vendor, flags, value):
    payload = enc_tree(value) if isinstance(value, list) else value
    if vendor:
        flags |= 0x80
    length = 8 + (4 if vendor else 0) + len(payload)
    out = struct.pack(">II", code, (flags << 24) | length)
    if vendor:
        out += struct.pack(">I", vendor)
    return out + payload + b"\x00" * ((-len(payload)) % 4)


def enc_tree(tree):
    return b"".join(enc_avp(*node) for node in tree)


def enc_msg(flags, code, app_id, hbh, e2e, tree):
    body = enc_tree(tree)
    return struct.pack(">IIIII", (1 << 24) | (20 + len(body)),
                       (flags << 24) | code, app_id, hbh, e2e) + body


def norm(tree):
    """Wire tree with the V bit made explicit, as the decoder must report it."""
    return [(c, v, f | (0x80 if v else 0), norm(x) if isinstance(x, list) else x)
            for c, v, f, x in tree]


def tree_of(avps):
    """Tree of what the library reports."""
    return [(a.code, a.vendor_id, a.flags,
             tree_of(a.value) if isinstance(a, AvpGrouped) else a.payload)
            for a in avps]


def show(title, tree, indent="  "):
    print(title)
    def rec(t, ind):
        for c, v, f, x in t:
            if isinstance(x, list):
                print(f"{ind}code={c} vendor={v} flags=0x{f:02x} grouped:")
                rec(x, ind + "  ")
            else:
                print(f"{ind}code={c} vendor={v} flags=0x{f:02x} payload={x!r}")
    rec(tree, indent)
    if not tree:
        print(indent + "(no AVPs)")

M = 0x40
wire_tree = [
    (264, 0, M, b"client.example.org"),           # Origin-Host
    (296, 0, M, b"example.org"),                  # Origin-Realm
    (257, 0, M, b"\x00\x01\x0a\x00\x00\x01"),     # Host-IP-Address 10.0.0.1
    (266, 0, M, struct.pack(">I", 0)),            # Vendor-Id
    (269, 0, 0, b"demo"),                         # Product-Name
    (278, 0, M, struct.pack(">I", 1)),            # Origin-State-Id = 1
    (278, 0, M, struct.pack(">I", 2)),            # Origin-State-Id = 2 (repeated AVP)
    (258, 0, M, struct.pack(">I", 4)),            # Auth-Application-Id
]
data = enc_msg(0x80, 257, 0, 0x11111111, 0x22222222, wire_tree)

# sanity: the generic decoder agrees that this is what is on the wire
generic = Message.from_bytes(data, plain_msg=True)
assert tree_of(generic.avps) == norm(wire_tree), "demo bug: wire tree mismatch"
assert generic.as_bytes() == data

msg = Message.from_bytes(data)
print("decoded as:", type(msg).__name__)
got = tree_of(msg.avps)
want = norm(wire_tree)
show("AVP sequence on the wire:", want)
show("AVP sequence of the decoded message (msg.avps):", got)

found = msg.find_avps((278, 0))
found_vals = [a.payload for a in found]
want_vals = [x for c, v, f, x in want if (c, v) == (278, 0)]
print("find_avps((278, 0)) payloads:", found_vals, " wire:", want_vals)

violated = False
if sorted(got) != sorted(want):
    print("VIOLATION: the decoded message does not contain the same AVPs as the "
          f"wire ({len(got)} AVPs decoded, {len(want)} on the wire); "
          "the property requires 'an AVP sequence (order, codes, vendors, flags, "
          "payloads ...) identical to the wire' incl. repeated AVPs")
    violated = True
if found_vals != want_vals:
    print("VIOLATION: find_avps did not return 'exactly the AVPs located at that "
          "path of the tree, in wire order'")
    violated = True

if not violated:
    print("OK: repeated AVP preserved")
sys.exit(1 if violated else 0)
