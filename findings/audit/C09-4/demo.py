"""C09 finding 4: a DPR is handled between the readiness check of
Node.route_answer and the enqueueing in Node.send_message; the submission
succeeds and the answer is written to the connection after the DPA, although
the connection is no longer ready."""
import threading
import time
import sys
import os

from diameter.message import constants
from diameter.message.commands import (
    AccountingRequest, CapabilitiesExchangeRequest)
from diameter.node import Node
from diameter.node.application import Application
from diameter.node.node import NotRoutable
from diameter.node.peer import (
    PeerConnection, PEER_RECV, PEER_CONNECTED, PEER_READY, PEER_TRANSPORT_TCP)


class FakeSocket:
    _next = 1000

    def __init__(self):
        FakeSocket._next += 1
        self._fileno = FakeSocket._next
        self.closed = False

    def fileno(self):
        return self._fileno

    def close(self):
        self.closed = True

    def setsockopt(self, *a):
        pass


class RecordingApp(Application):
    def __init__(self):
        super().__init__(constants.APP_DIAMETER_BASE_ACCOUNTING,
                         is_acct_application=True)
        self.requests = []

    def handle_request(self, message):
        self.requests.append(message)


def inbound_connection(node, origin_host, sent):
    """An accepted TCP connection on which the peer has sent its CER."""
    conn = PeerConnection("10.0.0.1", 40000, PEER_RECV, node.interrupt_write)
    conn.state = PEER_CONNECTED
    node._add_peer_connection(conn, FakeSocket(), PEER_TRANSPORT_TCP)
    conn.add_out_msg = lambda m, _c=conn: sent.append((_c, m))
    cer = CapabilitiesExchangeRequest()
    cer.header.hop_by_hop_identifier = 1
    cer.header.end_to_end_identifier = 1
    cer.origin_host = origin_host.encode()
    cer.origin_realm = b"realm.net"
    cer.host_ip_address = ["10.0.0.1"]
    cer.vendor_id = 1
    cer.product_name = "x"
    cer.acct_application_id = [constants.APP_DIAMETER_BASE_ACCOUNTING]
    node._receive_message(conn, cer)
    assert conn.state == PEER_READY, conn.state
    return conn


def acr(origin_host, hbh, e2e, session):
    r = AccountingRequest()
    r.header.hop_by_hop_identifier = hbh
    r.header.end_to_end_identifier = e2e
    r.header.application_id = constants.APP_DIAMETER_BASE_ACCOUNTING
    r.session_id = session
    r.origin_host = origin_host.encode()
    r.origin_realm = b"realm.net"
    r.destination_realm = b"realm.net"
    r.accounting_record_type = constants.E_ACCOUNTING_RECORD_TYPE_EVENT_RECORD
    r.accounting_record_number = 1
    r.acct_application_id = constants.APP_DIAMETER_BASE_ACCOUNTING
    return r



def main():
    from diameter.message import Message, MessageHeader
    from diameter.message.commands import DisconnectPeerRequest
    from diameter.node.peer import PEER_READY_STATES

    node = Node("server.realm.net", "realm.net")
    peer_a = node.add_peer("aaa://a.realm.net")
    app = RecordingApp()
    node.add_application(app, [peer_a])

    sent = []
    conn = inbound_connection(node, "a.realm.net", sent)
    # use the real write path of the connection from here on
    del conn.add_out_msg
    req = acr("a.realm.net", 5, 111, "a.realm.net;1;1")
    node._receive_message(conn, req)
    assert app.requests == [req]

    dpr = DisconnectPeerRequest()
    dpr.header.hop_by_hop_identifier = 6
    dpr.header.end_to_end_identifier = 112
    dpr.origin_host = b"a.realm.net"
    dpr.origin_realm = b"realm.net"
    dpr.disconnect_cause = constants.E_DISCONNECT_CAUSE_REBOOTING

    # Schedule: the application thread is inside Application.send_answer and
    # has just returned from Node.route_answer (readiness check passed). At
    # that moment the connection's reader thread handles a DPR of the peer.
    # The DPR is delivered from a separate thread; if the library serialised
    # answer submission against state changes, that thread would simply block
    # until the submission is over (we wait at most 3 s for it).
    orig_route_answer = node.route_answer
    state_seen = {}

    def route_answer_then_dpr(message):
        result = orig_route_answer(message)
        t = threading.Thread(
            target=node._receive_message, args=(conn, dpr), daemon=True)
        t.start()
        t.join(3)
        state_seen["after_dpr"] = conn.state
        return result

    node.route_answer = route_answer_then_dpr

    ans = app.generate_answer(
        req, result_code=constants.E_RESULT_CODE_DIAMETER_SUCCESS)
    err = None
    try:
        app.send_answer(ans)
    except NotRoutable as e:
        err = e
    state_at_return = conn.state

    # let the writer thread of the connection serialise what was queued
    deadline = time.time() + 5
    while time.time() < deadline and not conn._write_msg_queue.empty():
        time.sleep(0.05)
    time.sleep(0.3)
    buf = conn.write_buffer
    written = []
    while buf:
        hdr = MessageHeader.from_bytes(buf)
        written.append(Message.from_bytes(buf[:hdr.length]))
        buf = buf[hdr.length:]
    desc = [f"{m.name}(hbh={m.header.hop_by_hop_identifier})" for m in written]

    print(f"connection state when send_message enqueued the answer: "
          f"{state_seen.get('after_dpr'):#x} (ready states are "
          f"{[hex(s) for s in PEER_READY_STATES]}); state when send_answer "
          f"returned: {state_at_return:#x}")
    print(f"send_answer raised: {err!r}")
    print(f"bytes written to the connection's socket buffer, in order: {desc}")
    print("property requires: if the connection is no longer ready the "
          "submission fails with NotRoutable and nothing is transmitted")

    conn.close(signal_node=False)
    for a in node.applications:
        a.stop()

    names = [m.name for m in written]
    answer_after_dpa = (
        "Disconnect-Peer" in " ".join(names[:1]) and
        any(m.header.hop_by_hop_identifier == 5 and not m.header.is_request
            for m in written[1:]))
    if answer_after_dpa and err is None:
        print("VIOLATION: application answer transmitted after the DPA on a "
              "connection in DISCONNECTING state, submission did not fail")
        return 1
    print("ok")
    return 0


if __name__ == "__main__":
    try:
        rc = main()
    except BaseException:
        import traceback
        traceback.print_exc()
        rc = 2
    sys.stdout.flush()
    sys.stderr.flush()
    os._exit(rc)
