"""C09 finding 2: the requester's connection is lost and the peer reconnects,
re-using a hop-by-hop id; the late answer to the request that arrived on the
closed connection is transmitted on the new connection."""
import sys
import os

from diameter.message import constants
from diameter.message.commands import (
    AccountingRequest, CapabilitiesExchangeRequest)
from diameter.node import Node
from diameter.node.application import Application
from diameter.node.node import NotRoutable
from diameter.node.peer import (
    PeerConnection, PEER_RECV, PEER_CONNECTED, PEER_READY, PEER_TRANSPORT_TCP)


class FakeSocket:
    _next = 1000

    def __init__(self):
        FakeSocket._next += 1
        self._fileno = FakeSocket._next
        self.closed = False

    def fileno(self):
        return self._fileno

    def close(self):
        self.closed = True

    def setsockopt(self, *a):
        pass


class RecordingApp(Application):
    def __init__(self):
        super().__init__(constants.APP_DIAMETER_BASE_ACCOUNTING,
                         is_acct_application=True)
        self.requests = []

    def handle_request(self, message):
        self.requests.append(message)


def inbound_connection(node, origin_host, sent):
    """An accepted TCP connection on which the peer has sent its CER."""
    conn = PeerConnection("10.0.0.1", 40000, PEER_RECV, node.interrupt_write)
    conn.state = PEER_CONNECTED
    node._add_peer_connection(conn, FakeSocket(), PEER_TRANSPORT_TCP)
    conn.add_out_msg = lambda m, _c=conn: sent.append((_c, m))
    cer = CapabilitiesExchangeRequest()
    cer.header.hop_by_hop_identifier = 1
    cer.header.end_to_end_identifier = 1
    cer.origin_host = origin_host.encode()
    cer.origin_realm = b"realm.net"
    cer.host_ip_address = ["10.0.0.1"]
    cer.vendor_id = 1
    cer.product_name = "x"
    cer.acct_application_id = [constants.APP_DIAMETER_BASE_ACCOUNTING]
    node._receive_message(conn, cer)
    assert conn.state == PEER_READY, conn.state
    return conn


def acr(origin_host, hbh, e2e, session):
    r = AccountingRequest()
    r.header.hop_by_hop_identifier = hbh
    r.header.end_to_end_identifier = e2e
    r.header.application_id = constants.APP_DIAMETER_BASE_ACCOUNTING
    r.session_id = session
    r.origin_host = origin_host.encode()
    r.origin_realm = b"realm.net"
    r.destination_realm = b"realm.net"
    r.accounting_record_type = constants.E_ACCOUNTING_RECORD_TYPE_EVENT_RECORD
    r.accounting_record_number = 1
    r.acct_application_id = constants.APP_DIAMETER_BASE_ACCOUNTING
    return r



def main():
    from diameter.node.peer import DISCONNECT_REASON_GONE_AWAY
    node = Node("server.realm.net", "realm.net")
    peer_a = node.add_peer("aaa://a.realm.net")
    app = RecordingApp()
    node.add_application(app, [peer_a])

    sent = []
    conn1 = inbound_connection(node, "a.realm.net", sent)
    req_old = acr("a.realm.net", 5, 111, "a.realm.net;1;OLD")
    node._receive_message(conn1, req_old)
    assert app.requests == [req_old]

    # connection loss: this is what the node does when it reads zero bytes
    node.close_connection_socket(conn1, DISCONNECT_REASON_GONE_AWAY)
    assert conn1.ident not in node.connections

    # the peer reconnects (e.g. it restarted and its hop-by-hop counter
    # starts again at the same value) and sends a NEW request
    conn2 = inbound_connection(node, "a.realm.net", sent)
    req_new = acr("a.realm.net", 5, 222, "a.realm.net;2;NEW")
    node._receive_message(conn2, req_new)
    assert app.requests == [req_old, req_new]
    del sent[:]

    # the application finishes the OLD request now
    ans_old = app.generate_answer(
        req_old, result_code=constants.E_RESULT_CODE_DIAMETER_SUCCESS)
    err_old = None
    try:
        app.send_answer(ans_old)
    except NotRoutable as e:
        err_old = e
    names = {id(conn1): "conn1(closed)", id(conn2): "conn2(new)"}
    where_old = [names[id(c)] for c, m in sent if m is ans_old]

    # ... and then the new one
    ans_new = app.generate_answer(
        req_new, result_code=constants.E_RESULT_CODE_DIAMETER_SUCCESS)
    err_new = None
    try:
        app.send_answer(ans_new)
    except NotRoutable as e:
        err_new = e
    where_new = [names[id(c)] for c, m in sent if m is ans_new]

    print(f"answer to the OLD request (arrived on conn1, which has closed; "
          f"session {ans_old.session_id}, e2e "
          f"{ans_old.header.end_to_end_identifier}): written to {where_old}, "
          f"exception {err_old!r}")
    print(f"answer to the NEW request (arrived on conn2): written to "
          f"{where_new}, exception {err_new!r}")
    print("property requires: the connection of the OLD request has closed, "
          "so its submission fails with NotRoutable and nothing is "
          "transmitted to any peer")

    for c in (conn1, conn2):
        c.close(signal_node=False)
    for a in node.applications:
        a.stop()

    if where_old or not isinstance(err_old, NotRoutable):
        print("VIOLATION")
        return 1
    print("ok")
    return 0


if __name__ == "__main__":
    try:
        rc = main()
    except BaseException:
        import traceback
        traceback.print_exc()
        rc = 2
    sys.stdout.flush()
    sys.stderr.flush()
    os._exit(rc)
