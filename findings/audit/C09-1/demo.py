"""C09 finding 1: two peers use the same hop-by-hop id; the answer to peer B's
request is transmitted to peer A."""
import sys
import os

from diameter.message import constants
from diameter.message.commands import (
    AccountingRequest, CapabilitiesExchangeRequest)
from diameter.node import Node
from diameter.node.application import Application
from diameter.node.node import NotRoutable
from diameter.node.peer import (
    PeerConnection, PEER_RECV, PEER_CONNECTED, PEER_READY, PEER_TRANSPORT_TCP)


class FakeSocket:
    _next = 1000

    def __init__(self):
        FakeSocket._next += 1
        self._fileno = FakeSocket._next
        self.closed = False

    def fileno(self):
        return self._fileno

    def close(self):
        self.closed = True

    def setsockopt(self, *a):
        pass


class RecordingApp(Application):
    def __init__(self):
        super().__init__(constants.APP_DIAMETER_BASE_ACCOUNTING,
                         is_acct_application=True)
        self.requests = []

    def handle_request(self, message):
        self.requests.append(message)


def inbound_connection(node, origin_host, sent):
    """An accepted TCP connection on which the peer has sent its CER."""
    conn = PeerConnection("10.0.0.1", 40000, PEER_RECV, node.interrupt_write)
    conn.state = PEER_CONNECTED
    node._add_peer_connection(conn, FakeSocket(), PEER_TRANSPORT_TCP)
    conn.add_out_msg = lambda m, _c=conn: sent.append((_c, m))
    cer = CapabilitiesExchangeRequest()
    cer.header.hop_by_hop_identifier = 1
    cer.header.end_to_end_identifier = 1
    cer.origin_host = origin_host.encode()
    cer.origin_realm = b"realm.net"
    cer.host_ip_address = ["10.0.0.1"]
    cer.vendor_id = 1
    cer.product_name = "x"
    cer.acct_application_id = [constants.APP_DIAMETER_BASE_ACCOUNTING]
    node._receive_message(conn, cer)
    assert conn.state == PEER_READY, conn.state
    return conn


def acr(origin_host, hbh, e2e, session):
    r = AccountingRequest()
    r.header.hop_by_hop_identifier = hbh
    r.header.end_to_end_identifier = e2e
    r.header.application_id = constants.APP_DIAMETER_BASE_ACCOUNTING
    r.session_id = session
    r.origin_host = origin_host.encode()
    r.origin_realm = b"realm.net"
    r.destination_realm = b"realm.net"
    r.accounting_record_type = constants.E_ACCOUNTING_RECORD_TYPE_EVENT_RECORD
    r.accounting_record_number = 1
    r.acct_application_id = constants.APP_DIAMETER_BASE_ACCOUNTING
    return r


def main():
    node = Node("server.realm.net", "realm.net")
    peer_a = node.add_peer("aaa://a.realm.net")
    peer_b = node.add_peer("aaa://b.realm.net")
    app = RecordingApp()
    node.add_application(app, [peer_a, peer_b])

    sent = []
    conn_a = inbound_connection(node, "a.realm.net", sent)
    conn_b = inbound_connection(node, "b.realm.net", sent)
    del sent[:]  # drop the two CEAs

    # both peers happen to use hop-by-hop id 5 (ids are only unique per
    # connection, rfc6733 section 3)
    req_a = acr("a.realm.net", 5, 111, "a.realm.net;1;1")
    req_b = acr("b.realm.net", 5, 222, "b.realm.net;1;1")
    node._receive_message(conn_a, req_a)
    node._receive_message(conn_b, req_b)
    assert app.requests == [req_a, req_b]

    # the application answers B's request first
    ans_b = app.generate_answer(
        req_b, result_code=constants.E_RESULT_CODE_DIAMETER_SUCCESS)
    err = None
    try:
        app.send_answer(ans_b)
    except NotRoutable as e:
        err = e

    names = {id(conn_a): "A", id(conn_b): "B"}
    where = [names[id(c)] for c, m in sent if m is ans_b]
    print(f"answer to B's request (session {ans_b.session_id}, "
          f"e2e {ans_b.header.end_to_end_identifier}) was written to "
          f"connection(s): {where}; exception: {err!r}")
    print("property requires: transmitted only on the connection on which "
          "the request arrived (B); an answer never reaches a peer other "
          "than the requester")

    for c in (conn_a, conn_b):
        c.close(signal_node=False)
    for a in node.applications:
        a.stop()

    if where != ["B"]:
        print("VIOLATION")
        return 1
    print("ok")
    return 0


if __name__ == "__main__":
    try:
        rc = main()
    except BaseException:
        import traceback
        traceback.print_exc()
        rc = 2
    sys.stdout.flush()
    sys.stderr.flush()
    os._exit(rc)
