"""C08 / finding 3: one request of an untyped command that carries TWO Origin-Host
AVPs and has to be rejected by the node (here: unregistered application id)
raises TypeError("unhashable type: 'list'") in the answer bookkeeping
(Node._record_answer) - first inside the try of Node._receive_message (so a
second, 5012, answer is produced) and then again inside its except handler,
which is not protected: the exception leaves Node._receive_message and kills the
read thread of the connection.  The connection stays in state READY, but every
later request on it - e.g. a perfectly valid Credit-Control-Request for the
registered application - is neither handed to the application nor answered.

Run: PYTHONPATH=/repo/src /venv/bin/python /repo/_audit/3/demo.py
exit 1 = violation observed, exit 0 = behaves as the property says.
"""
import logging
import socket
import sys
import threading
import time

from diameter.message import Message, constants
from diameter.message._base import MessageHeader
from diameter.message.avp import Avp
from diameter.message.commands import (CapabilitiesExchangeRequest,
                                       CreditControlRequest,
                                       DeviceWatchdogRequest)
from diameter.node import Node
from diameter.node.application import Application
from diameter.node.peer import (PeerConnection, PEER_RECV, PEER_CONNECTED,
                                PEER_READY_STATES, PEER_TRANSPORT_TCP)

logging.disable(logging.CRITICAL)
# the traceback of the dying thread is the evidence; keep it short but visible
thread_errors = []
threading.excepthook = lambda args: thread_errors.append(
    f"{args.thread.name}: {args.exc_type.__name__}: {args.exc_value}")

OWN_REALM = "own.realm"
PEER_HOST = "peer1.own.realm"


class RecApp(Application):
    def __init__(self, *a, **k):
        super().__init__(*a, **k)
        self.got = []

    def handle_request(self, message):
        self.got.append(message)


def take_answers(conn):
    out = []
    with conn.write_lock:
        buf = conn.write_buffer
        pos = 0
        while len(buf) - pos >= 20:
            ln = int.from_bytes(buf[pos + 1:pos + 4], "big")
            if len(buf) - pos < ln:
                break
            out.append(Message.from_bytes(buf[pos:pos + ln]))
            pos += ln
        conn.remove_out_bytes(pos)
    return out


def exchange(conn, wire, sentinel_id, timeout):
    """Feed bytes followed by a DWR sentinel; the read thread is sequential, so
    the DWA of the sentinel proves that the bytes in front were dealt with."""
    dwr = DeviceWatchdogRequest()
    dwr.header.hop_by_hop_identifier = sentinel_id
    dwr.header.end_to_end_identifier = sentinel_id
    dwr.origin_host = PEER_HOST.encode()
    dwr.origin_realm = OWN_REALM.encode()
    conn.add_in_bytes(wire + dwr.as_bytes())
    got = []
    deadline = time.time() + timeout
    while time.time() < deadline:
        got += take_answers(conn)
        if any(m.header.command_code == 280 and
               m.header.hop_by_hop_identifier == sentinel_id for m in got):
            return [m for m in got if m.header.command_code != 280], True
        time.sleep(0.02)
    return [m for m in got if m.header.command_code != 280], False


def ccr(ident):
    m = CreditControlRequest()
    m.header.application_id = 4
    m.header.hop_by_hop_identifier = ident
    m.header.end_to_end_identifier = ident
    m.session_id = f"{PEER_HOST};1;{ident}"
    m.origin_host = PEER_HOST.encode()
    m.origin_realm = OWN_REALM.encode()
    m.destination_realm = OWN_REALM.encode()
    m.auth_application_id = 4
    m.service_context_id = "32251@3gpp.org"
    m.cc_request_type = constants.E_CC_REQUEST_TYPE_INITIAL_REQUEST
    m.cc_request_number = 0
    return m


def main():
    node = Node("node.own.realm", OWN_REALM)
    peer = node.add_peer(f"aaa://{PEER_HOST}", OWN_REALM)
    app = RecApp(constants.APP_DIAMETER_CREDIT_CONTROL_APPLICATION,
                 is_auth_application=True)
    node.add_application(app, [peer])

    sock_a, sock_b = socket.socketpair()
    conn = PeerConnection("10.0.0.9", 3868, PEER_RECV,
                          interrupt_fileno=node.interrupt_write)
    conn.state = PEER_CONNECTED
    node._add_peer_connection(conn, sock_a, PEER_TRANSPORT_TCP)

    violations = []
    try:
        cer = CapabilitiesExchangeRequest()
        cer.header.hop_by_hop_identifier = 1
        cer.header.end_to_end_identifier = 1
        cer.origin_host = PEER_HOST.encode()
        cer.origin_realm = OWN_REALM.encode()
        cer.host_ip_address = ["10.0.0.9"]
        cer.vendor_id = 99999
        cer.product_name = "demo"
        cer.auth_application_id = [4]
        conn.add_in_bytes(cer.as_bytes())
        deadline = time.time() + 10
        cea = []
        while time.time() < deadline and not cea:
            cea = take_answers(conn)
            time.sleep(0.02)
        assert cea and cea[0].result_code == 2001, "CER/CEA failed"
        assert conn.state in PEER_READY_STATES
        print(f"connection of {PEER_HOST} is ready (CEA 2001)")

        answers, ok = exchange(conn, ccr(100).as_bytes(), 5000, 10.0)
        print(f"control CCR #100: application saw {len(app.got)} request(s), "
              f"node wrote {len(answers)} answer(s), responsive={ok}")
        assert ok and len(app.got) == 1 and not answers, "control failed"
        app.got.clear()

        # Provide-Location-Request (SLg, 8388620: no typed class), application
        # 16777255 is not registered, Origin-Host is present twice
        avps = [Avp.new(constants.AVP_SESSION_ID, value=f"{PEER_HOST};1;200"),
                Avp.new(constants.AVP_ORIGIN_HOST, value=PEER_HOST.encode()),
                Avp.new(constants.AVP_ORIGIN_HOST, value=PEER_HOST.encode()),
                Avp.new(constants.AVP_ORIGIN_REALM, value=OWN_REALM.encode()),
                Avp.new(constants.AVP_DESTINATION_REALM,
                        value=OWN_REALM.encode())]
        hdr = MessageHeader(command_flags=0xc0, command_code=8388620,
                            application_id=16777255,
                            hop_by_hop_identifier=200,
                            end_to_end_identifier=200)
        poison = Message(hdr, avps).as_bytes()
        answers, ok = exchange(conn, poison, 5001, 5.0)
        print(f"\nPLR #200 (unregistered application, two Origin-Host AVPs): "
              f"node wrote {len(answers)} answer(s) for ONE request, "
              f"application saw {len(app.got)}; connection responsive "
              f"afterwards={ok}")
        print(f"  read thread alive: {conn._read_thread.is_alive()}; "
              f"connection state still ready: "
              f"{conn.state in PEER_READY_STATES}")
        for e in thread_errors:
            print(f"  uncaught in thread {e}")
        if len(answers) != 1:
            violations.append(
                f"the rejected request was answered {len(answers)} times "
                f"instead of once")

        app.got.clear()
        answers, ok = exchange(conn, ccr(300).as_bytes(), 5002, 5.0)
        rcs = [getattr(a, "result_code", None) for a in answers]
        print(f"\nvalid CCR #300 (registered application 4, own realm, "
              f"configured peer, every required AVP) afterwards: application "
              f"saw {len(app.got)} request(s); node wrote {len(answers)} "
              f"answer(s) {rcs}; responsive={ok}")
        if len(app.got) != 1:
            violations.append(
                f"valid CCR #300 on the ready connection was handed to the "
                f"application {len(app.got)} times (required: exactly once) "
                f"and the node wrote {len(answers)} answer(s)")
    finally:
        conn.close(signal_node=False)
        sock_a.close()
        sock_b.close()

    print()
    if violations:
        print("VIOLATION of C08: 'On a ready connection a request whose "
              "application id, destination realm and originating peer match a "
              "registered application and which carries every AVP its command "
              "requires is handed to that application exactly once' / "
              "'Otherwise the node answers itself':")
        for v in violations:
            print("  -", v)
        return 1
    print("OK: the connection keeps dispatching requests")
    return 0


if __name__ == "__main__":
    sys.exit(main())
