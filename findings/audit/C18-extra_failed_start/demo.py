"""C18 extra observation (not counted as a finding): Node.stop() after a start() that failed half-way raises and
leaves the listening sockets open and the applications running.

Node.start() sets _started, binds the listening sockets one address after the
other and only then starts its two threads.  If binding the second address
fails (port taken), start() raises with the first socket already listening.
The only cleanup API is stop(); it is accepted (_started is True) but runs
into Thread.join() of the never started connection thread, which raises
RuntimeError before the listening sockets are closed and before the
applications are stopped.  start() cannot be repeated either.
"""
import socket
import sys
import threading
import time

from diameter.message import constants
from diameter.node import Node
from diameter.node.application import SimpleThreadingApplication

# somebody else already owns the port on the node's second address
blocker = socket.socket()
blocker.bind(("127.0.0.2", 0))
blocker.listen(1)
port = blocker.getsockname()[1]

node = Node("node.example.org", "example.org",
            ip_addresses=["127.0.0.1", "127.0.0.2"], tcp_port=port)
node.wakeup_interval = 1
app = SimpleThreadingApplication(constants.APP_DIAMETER_BASE_ACCOUNTING,
                                 is_acct_application=True)
node.add_application(app, [])

start_error = None
try:
    node.start()
except OSError as e:
    start_error = e
print(f"fault: Node.start() raised {start_error!r}; listening sockets bound "
      f"so far: {[s.getsockname() for s in node.tcp_sockets]}")
assert start_error is not None and node.tcp_sockets

stop_error = None
try:
    node.stop(wait_timeout=2, force=False)
except Exception as e:
    stop_error = e

time.sleep(0.5)
open_listeners = [s.getsockname() for s in node.tcp_sockets if s.fileno() != -1]
still_accepting = False
try:
    c = socket.create_connection(("127.0.0.1", port), timeout=2)
    still_accepting = True
    c.close()
except OSError:
    pass
app_threads = [t.name for t in (app._recv_queue_consumer,
                                app._resp_queue_consumer) if t.is_alive()]
app_stop_requested = (app._recv_queue_consumer.is_stopped and
                      app._resp_queue_consumer.is_stopped)

print(f"observed: Node.stop() "
      f"{'returned' if stop_error is None else 'raised ' + repr(stop_error)}")
print(f"observed: listening sockets still open: {open_listeners}; "
      f"TCP connect to the node still succeeds: {still_accepting}")
print(f"observed: application stop requested: {app_stop_requested}; "
      f"application threads alive: {app_threads}")
try:
    node.start()
    print("observed: start() could be repeated")
except RuntimeError as e:
    print(f"observed: start() cannot be repeated either: {e}")
print("required: when stop returns every listening socket is closed and the "
      "applications are stopped")

violated = (stop_error is not None or bool(open_listeners) or still_accepting
            or not app_stop_requested)

# clean up so that the demo terminates
for s in node.tcp_sockets:
    s.close()
app.stop()
blocker.close()

if violated:
    print("VIOLATION")
    sys.exit(1)
print("ok")
sys.exit(0)
