"""C07 finding 1: one malformed request of an unknown command is answered TWICE.

A configured, ready peer sends one request with an unknown command code that
carries the Origin-Host AVP twice.  The node queues an error answer, then
its own bookkeeping (Node._record_answer) raises TypeError, the exception
handler of Node._receive_message queues a SECOND answer for the same request
(and the exception raised again from there kills the connection's read thread).

exit 1 = two answers were transmitted for one request (violation)
exit 0 = at most one answer was transmitted
"""
import logging
import socket
import sys
import time

from diameter.message import Message, MessageHeader, Avp
from diameter.message.commands import CapabilitiesExchangeRequest, DeviceWatchdogRequest
from diameter.message.constants import *
from diameter.node import Node
from diameter.node.peer import PeerConnection, PEER_RECV, PEER_CONNECTED, PEER_READY, PEER_TRANSPORT_TCP

logging.disable(logging.CRITICAL)
import threading
threading.excepthook = lambda args: print(
    f"  [note] thread {args.thread.name} died with {args.exc_type.__name__}: {args.exc_value}")


def decode_stream(buf: bytes) -> list[Message]:
    out = []
    while len(buf) >= 20:
        hdr = MessageHeader.from_bytes(buf)
        out.append(Message.from_bytes(buf[:hdr.length]))
        buf = buf[hdr.length:]
    return out


node = Node("srv.example.net", "example.net")
node.add_peer("aaa://cli.example.net", "example.net")

sock_a, sock_b = socket.socketpair()
conn = PeerConnection("10.0.0.1", 3868, PEER_RECV, interrupt_fileno=node.interrupt_write)
conn.state = PEER_CONNECTED
node._add_peer_connection(conn, sock_a, PEER_TRANSPORT_TCP)


def wait_for(cond, timeout=5.0):
    end = time.time() + timeout
    while time.time() < end:
        if cond():
            return True
        time.sleep(0.02)
    return cond()


# 1. regular capabilities exchange
cer = CapabilitiesExchangeRequest()
cer.header.hop_by_hop_identifier = 1
cer.header.end_to_end_identifier = 1
cer.origin_host = b"cli.example.net"
cer.origin_realm = b"example.net"
cer.host_ip_address = "10.0.0.1"
cer.vendor_id = 1
cer.product_name = "demo"
cer.auth_application_id = [APP_RELAY]
conn.add_in_bytes(cer.as_bytes())
assert wait_for(lambda: conn.state == PEER_READY), "CER/CEA did not complete"

# 2. ONE request, unknown command code, Origin-Host present twice
req = Message()
req.header = MessageHeader(1, 0, 0x80, 9999999, 0, 0x77, 0x88)
req.append_avp(Avp.new(AVP_ORIGIN_HOST, value=b"cli.example.net"))
req.append_avp(Avp.new(AVP_ORIGIN_HOST, value=b"cli.example.net"))
req.append_avp(Avp.new(AVP_ORIGIN_REALM, value=b"example.net"))
conn.add_in_bytes(req.as_bytes())

# 3. a trailing watchdog request as an "everything before me was handled" marker
dwr = DeviceWatchdogRequest()
dwr.header.hop_by_hop_identifier = 0x99
dwr.header.end_to_end_identifier = 0x99
dwr.origin_host = b"cli.example.net"
dwr.origin_realm = b"example.net"
conn.add_in_bytes(dwr.as_bytes())


def answers_for_req():
    return [m for m in decode_stream(conn.write_buffer)
            if m.header.hop_by_hop_identifier == 0x77 and not m.header.is_request]


def marker_answered():
    return any(m.header.hop_by_hop_identifier == 0x99
               for m in decode_stream(conn.write_buffer))


wait_for(lambda: len(answers_for_req()) >= 2 or marker_answered(), timeout=5.0)
time.sleep(0.3)
found = answers_for_req()

print("requests sent by the peer with hop-by-hop 0x77: 1")
print(f"answers written to the socket buffer with hop-by-hop 0x77: {len(found)}")
for m in found:
    print("   ", m)
print("read thread of the connection still alive:", conn._read_thread.is_alive())
print("property C07 requires: 'The node never transmits two answers for one request'")

conn.close(signal_node=False)
sock_a.close()
sock_b.close()

if len(found) > 1:
    print("VIOLATION: one request was answered", len(found), "times")
    sys.exit(1)
print("ok: at most one answer")
sys.exit(0)
