"""C20 finding 4: the Proxy-Info copied into a generated answer is not the
Proxy-Info of the request when the grouped AVP holds anything besides
Proxy-Host and Proxy-State.

RFC 6733 6.7.2:  Proxy-Info ::= < AVP Header: 284 > { Proxy-Host }
{ Proxy-State } * [ AVP ]   and 6.2: "Any Proxy-Info AVPs in the request MUST
be added to the answer message".  The ProxyInfo container has no
`additional_avps` attribute, so assign_attr_from_defs silently drops every
other member AVP while decoding the request; Node._generate_answer /
Application.generate_answer then copy the truncated object.
"""
import sys

from diameter.message import Message, Avp
from diameter.message.packer import Unpacker
from diameter.message.constants import *
from diameter.node import Node
from diameter.node.application import Application

# an AVP a proxy could legitimately add inside its own Proxy-Info
EXTRA = (AVP_ROUTE_RECORD, b"hop.behind.proxy.example")


def build_request(code: int, with_extra: bool) -> bytes:
    m = Message()
    m.header.command_code = code
    m.header.command_flags = 0xc0
    m.header.application_id = 4
    m.header.hop_by_hop_identifier = 0x0101
    m.header.end_to_end_identifier = 0x0202
    m.append_avp(Avp.new(AVP_SESSION_ID, value="peer.example;9;9"))
    m.append_avp(Avp.new(AVP_ORIGIN_HOST, value=b"peer.example"))
    m.append_avp(Avp.new(AVP_ORIGIN_REALM, value=b"example"))
    m.append_avp(Avp.new(AVP_DESTINATION_REALM, value=b"local.realm.example"))
    members = [Avp.new(AVP_PROXY_HOST, value=b"proxy.example"),
               Avp.new(AVP_PROXY_STATE, value=b"opaque-state")]
    if with_extra:
        members.append(Avp.new(EXTRA[0], value=EXTRA[1]))
    m.append_avp(Avp.new(AVP_PROXY_INFO, value=members))
    return m.as_bytes()


def wire_proxy_infos(data: bytes) -> list[list[tuple[int, bytes]]]:
    u = Unpacker(data)
    u.set_position(20)
    out = []
    while not u.is_done():
        a = Avp.from_unpacker(u)
        if a.code == AVP_PROXY_INFO and a.vendor_id == 0:
            out.append([(s.code, s.value) for s in a.value])
    return out


class App(Application):
    def handle_request(self, message):
        pass


node = Node("local.host.example", "local.realm.example")
app = App(application_id=4, is_auth_application=True)
app._node = node

bad = []
# 272 Credit-Control, 271 Accounting, 258 Re-Auth, 275 Session-Termination
for code in (272, 271, 258, 275):
    for with_extra in (False, True):
        data = build_request(code, with_extra)
        sent = wire_proxy_infos(data)
        req = Message.from_bytes(data)
        for label, ans in (
                ("Application.generate_answer", app.generate_answer(req, 2001)),
                ("Node._generate_answer", node._generate_answer(None, req))):
            got = wire_proxy_infos(ans.as_bytes())
            ok = got == sent
            print(f"{type(req).__name__:<26} extra_member={with_extra!s:<5} "
                  f"{label:<28} {'same' if ok else 'DIFFERENT'}")
            if not ok:
                print(f"      request Proxy-Info: {sent}")
                print(f"      answer  Proxy-Info: {got}")
                bad.append((type(req).__name__, label))

print()
print("property requires: answers generated through a node or application "
      "'copy Session-Id and Proxy-Info from the request'")
if bad:
    print(f"VIOLATION: in {len(bad)} generated answers the Proxy-Info differs "
          f"from the one in the request (member AVP "
          f"{EXTRA[0]}={EXTRA[1]!r} lost)")
    sys.exit(1)
print("OK: Proxy-Info copied unchanged")
sys.exit(0)
