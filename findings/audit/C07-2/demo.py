"""C07 finding 2: an application answer is transmitted on a connection that
never received the request it answers.

Two different configured peers (two connections) each have one request in
flight; both happen to use hop-by-hop identifier 100 (identifiers are only
unique per connection).  The application finishes the request of peer 2 first.
Node.route_answer looks the answer up by hop-by-hop identifier alone, finds the
entry of peer 1 first and the answer to peer 2's request (end-to-end 2222,
Session-Id "cli2;1") is written to the connection of peer 1; later the answer
to peer 1's request goes to peer 2.

exit 1 = an answer was transmitted on a connection that never received a
         request with that (hop-by-hop, end-to-end) pair  (violation)
exit 0 = every answer matches a request received on the same connection
"""
import logging
import socket
import sys
import threading
import time

from diameter.message import Message, MessageHeader
from diameter.message.commands import CapabilitiesExchangeRequest, CreditControlRequest
from diameter.message.constants import *
from diameter.node import Node
from diameter.node.application import SimpleThreadingApplication
from diameter.node.peer import PeerConnection, PEER_RECV, PEER_CONNECTED, PEER_READY, PEER_TRANSPORT_TCP

logging.disable(logging.CRITICAL)


def decode_stream(buf: bytes) -> list[Message]:
    out = []
    while len(buf) >= 20:
        hdr = MessageHeader.from_bytes(buf)
        out.append(Message.from_bytes(buf[:hdr.length]))
        buf = buf[hdr.length:]
    return out


def wait_for(cond, timeout=5.0):
    end = time.time() + timeout
    while time.time() < end:
        if cond():
            return True
        time.sleep(0.02)
    return cond()


node = Node("srv.example.net", "example.net")
peer1 = node.add_peer("aaa://cli1.example.net", "example.net")
peer2 = node.add_peer("aaa://cli2.example.net", "example.net")

release_first = threading.Event()
handled = []


def handle_request(app, req):
    handled.append(req.origin_host)
    if req.origin_host == b"cli1.example.net":
        # the request of peer 1 simply takes longer than the one of peer 2
        release_first.wait(20)
    ans = app.generate_answer(req, result_code=E_RESULT_CODE_DIAMETER_SUCCESS)
    ans.cc_request_type = req.cc_request_type
    ans.cc_request_number = req.cc_request_number
    return ans


app = SimpleThreadingApplication(APP_DIAMETER_CREDIT_CONTROL_APPLICATION,
                                 is_auth_application=True,
                                 request_handler=handle_request)
node.add_application(app, [peer1, peer2])

socks = []


def new_inbound_connection() -> PeerConnection:
    a, b = socket.socketpair()
    socks.extend([a, b])
    conn = PeerConnection("10.0.0.1", 3868, PEER_RECV, interrupt_fileno=node.interrupt_write)
    conn.state = PEER_CONNECTED
    node._add_peer_connection(conn, a, PEER_TRANSPORT_TCP)
    return conn


def cer(host: bytes) -> bytes:
    m = CapabilitiesExchangeRequest()
    m.header.hop_by_hop_identifier = 1
    m.header.end_to_end_identifier = 1
    m.origin_host = host
    m.origin_realm = b"example.net"
    m.host_ip_address = "10.0.0.1"
    m.vendor_id = 1
    m.product_name = "demo"
    m.auth_application_id = [APP_DIAMETER_CREDIT_CONTROL_APPLICATION]
    return m.as_bytes()


def ccr(host: bytes, hbh: int, e2e: int, session: str) -> bytes:
    m = CreditControlRequest()
    m.header.application_id = APP_DIAMETER_CREDIT_CONTROL_APPLICATION
    m.header.hop_by_hop_identifier = hbh
    m.header.end_to_end_identifier = e2e
    m.session_id = session
    m.origin_host = host
    m.origin_realm = b"example.net"
    m.destination_realm = b"example.net"
    m.auth_application_id = APP_DIAMETER_CREDIT_CONTROL_APPLICATION
    m.service_context_id = "demo@example.net"
    m.cc_request_type = E_CC_REQUEST_TYPE_EVENT_REQUEST
    m.cc_request_number = 0
    return m.as_bytes()


conn1 = new_inbound_connection()
conn2 = new_inbound_connection()
conn1.add_in_bytes(cer(b"cli1.example.net"))
conn2.add_in_bytes(cer(b"cli2.example.net"))
assert wait_for(lambda: conn1.state == PEER_READY and conn2.state == PEER_READY)

received = {1: [(1, 1)], 2: [(1, 1)]}      # (hop-by-hop, end-to-end) per connection

conn1.add_in_bytes(ccr(b"cli1.example.net", 100, 1111, "cli1;1"))
received[1].append((100, 1111))
assert wait_for(lambda: b"cli1.example.net" in handled)
conn2.add_in_bytes(ccr(b"cli2.example.net", 100, 2222, "cli2;1"))
received[2].append((100, 2222))


def answers(conn):
    return [m for m in decode_stream(conn.write_buffer) if not m.header.is_request]


# the request of peer 2 is finished first ...
wait_for(lambda: len(answers(conn1)) + len(answers(conn2)) >= 3)
# ... then the one of peer 1
release_first.set()
wait_for(lambda: len(answers(conn1)) + len(answers(conn2)) >= 4)
time.sleep(0.2)

bad = 0
for no, conn in ((1, conn1), (2, conn2)):
    print(f"connection {no} ({conn.host_identity}):")
    print(f"   requests received (hop-by-hop, end-to-end): {received[no]}")
    for m in answers(conn):
        key = (m.header.hop_by_hop_identifier, m.header.end_to_end_identifier)
        ok = key in received[no]
        if ok:
            received[no].remove(key)
        else:
            bad += 1
        print(f"   answer transmitted: {m.name} hop-by-hop={key[0]} end-to-end={key[1]} "
              f"session-id={getattr(m, 'session_id', None)!r}  "
              f"{'ok' if ok else '<-- answers NO request received on this connection'}")

print("property C07 requires: every answer 'answers exactly one request previously "
      "received on that same connection ...: it carries that request's command code, "
      "application id, hop-by-hop and end-to-end identifiers'")

app.stop()
conn1.close(signal_node=False)
conn2.close(signal_node=False)
for s in socks:
    s.close()

if bad:
    print(f"VIOLATION: {bad} answer(s) transmitted on the wrong connection")
    sys.exit(1)
print("ok")
sys.exit(0)
