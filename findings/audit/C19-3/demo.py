"""C19 finding 3: a connection attempt that fails to be established inside
accept() (here: EMFILE, the process is momentarily out of file descriptors;
ECONNABORTED/ENFILE/ENOBUFS/ENOMEM behave the same) raises out of
Node._handle_connections.  The I/O thread dies, and from then on NO
per-connection resource is ever released again: an established connection
that the peer closes afterwards keeps its socket, its two worker threads and
its entries in Node.connections / peer_sockets / socket_peers / Peer.connection
- even Node.stop() does not release them, because the clean-up pass lives in
the dead thread.

Real loopback TCP, a started Node, no monkeypatching: the fault is produced
with RLIMIT_NOFILE and is removed again right after the failed accept().

exit 1 = resources still held after the connection ended and the node was
         stopped (violation); exit 0 = everything released.
"""
import logging
import os
import resource
import socket
import sys
import threading
import time

from diameter.message import Message, constants
from diameter.message.commands import CapabilitiesExchangeRequest
from diameter.node import Node
from diameter.node.application import SimpleThreadingApplication

logging.disable(logging.CRITICAL)
threading.excepthook = lambda args: print(
    f"[thread {args.thread.name} died: {args.exc_type.__name__}: {args.exc_value}]")


def free_port() -> int:
    s = socket.socket()
    s.bind(("127.0.0.1", 0))
    port = s.getsockname()[1]
    s.close()
    return port


def wait_for(cond, timeout=15.0):
    end = time.time() + timeout
    while time.time() < end:
        if cond():
            return True
        time.sleep(0.02)
    return False


def recv_msg(sock) -> Message:
    buf = b""
    while len(buf) < 20 or len(buf) < int.from_bytes(buf[1:4], "big"):
        d = sock.recv(4096)
        if not d:
            raise RuntimeError("peer closed")
        buf += d
    return Message.from_bytes(buf)


threads_before = threading.active_count()
port = free_port()
node = Node("srv.example.net", "example.net",
            ip_addresses=["127.0.0.1"], tcp_port=port)
node.wakeup_interval = 0.2
app = SimpleThreadingApplication(
    constants.APP_DIAMETER_BASE_ACCOUNTING, is_acct_application=True)
peer = node.add_peer("aaa://client.example.net", "example.net")
node.add_application(app, [peer])
node.start()

# 1. a configured peer connects and completes CER/CEA
s1 = socket.create_connection(("127.0.0.1", port))
s1.settimeout(10)
cer = CapabilitiesExchangeRequest()
cer.header.hop_by_hop_identifier = 1
cer.header.end_to_end_identifier = 1
cer.origin_host = b"client.example.net"
cer.origin_realm = b"example.net"
cer.host_ip_address = "127.0.0.1"
cer.vendor_id = 1
cer.product_name = "demo"
cer.acct_application_id = [constants.APP_DIAMETER_BASE_ACCOUNTING]
s1.sendall(cer.as_bytes())
assert recv_msg(s1).result_code == 2001
assert wait_for(lambda: peer.connection is not None)
conn = peer.connection
server_sock = node.peer_sockets[conn.ident]
print(f"established: {conn}, server side socket fd {server_sock.fileno()}")

# 2. a second connection attempt fails to be established: accept() -> EMFILE
s2 = socket.socket()                      # created while fds are available
soft, hard = resource.getrlimit(resource.RLIMIT_NOFILE)
resource.setrlimit(resource.RLIMIT_NOFILE, (64, hard))
filler = []
try:
    while True:
        filler.append(os.dup(0))
except OSError:
    pass                                  # fd table is full now
s2.connect(("127.0.0.1", port))           # kernel completes the handshake
io_thread_died = wait_for(lambda: not node._connection_thread.is_alive(), 5)
for fd in filler:                         # the fault is over
    os.close(fd)
resource.setrlimit(resource.RLIMIT_NOFILE, (soft, hard))
print(f"accept() failed with EMFILE; node I/O thread alive: "
      f"{node._connection_thread.is_alive()}")
s2.close()

# 3. the established connection ends: the peer closes it
s1.close()
time.sleep(1.5)

# 4. and the node is stopped
node.stop(wait_timeout=2)
time.sleep(6.5)          # worker threads notice a stop flag within 5 seconds

live_workers = [t for t in (conn._read_thread, conn._write_thread) if t.is_alive()]
observed = {
    "node.connections": len(node.connections),
    "node.peer_sockets": len(node.peer_sockets),
    "node.socket_peers": len(node.socket_peers),
    "peer.connection is set": peer.connection is not None,
    "server side socket still open (fd)": server_sock.fileno(),
    "live worker threads of the ended connection": len(live_workers),
    "threads before/after": (threads_before, threading.active_count()),
}
print("observed :", observed)
print("required : per-connection resources (worker threads, sockets, table "
      "entries) are released when the connection closes, is refused or fails "
      "to be established; after every connection has ended the number of "
      "live worker threads is independent of the history")
violation = (len(node.connections) or len(node.peer_sockets)
             or len(node.socket_peers) or peer.connection is not None
             or server_sock.fileno() != -1 or live_workers)

# let the process terminate
conn.close(signal_node=False)
try:
    server_sock.close()
except OSError:
    pass

if violation:
    print("OBSERVED VIOLATION: the failed accept() killed "
          "Node._handle_connections; the connection that ended afterwards "
          "was never released, not even by Node.stop()")
    sys.exit(1)
print("OK: everything released")
sys.exit(0)
