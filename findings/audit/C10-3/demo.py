"""
C10 finding 3: the connection the node opened to peer A becomes ALSO the
connection of peer B when A's CEA carries B's name as Origin-Host
(Node.receive_cea stores the unverified Origin-Host as conn.host_identity and
Node._assign_peer_connection then attaches the connection to
self.peers[host_identity], while Node._add_peer_connection had already
attached it to the peer found through conn.node_name).  From then on the
requests of an application configured ONLY for B are written to A's socket
(and A's own application keeps using the same socket): whichever identity one
believes, one of the two applications is sending to a peer it is not
configured for.  B itself was never connected, so NotRoutable is required.
"""
import sys
import time

from diameter.message import constants
from diameter.message.commands import (CapabilitiesExchangeAnswer,
                                       CreditControlRequest)
from diameter.node import Node
from diameter.node.node import NotRoutable
from diameter.node.application import Application
from diameter.node.peer import (PeerConnection, PEER_SEND, PEER_CONNECTED,
                                PEER_TRANSPORT_TCP, PEER_READY)

APP1 = constants.APP_DIAMETER_CREDIT_CONTROL_APPLICATION
APP2 = constants.APP_NASREQ_APPLICATION if hasattr(
    constants, "APP_NASREQ_APPLICATION") else 1


class FakeSocket:
    _n = 1000

    def __init__(self):
        FakeSocket._n += 1
        self._fileno = FakeSocket._n

    def fileno(self):
        return self._fileno

    def close(self):
        pass

    def setsockopt(self, *a):
        pass


class App(Application):
    def handle_request(self, message):
        pass


node = Node("client.realm.net", "realm.net")
peer_a = node.add_peer("aaa://a.realm.net", "realm.net", ["10.0.0.1"])
peer_b = node.add_peer("aaa://b.realm.net", "realm.net", ["10.0.0.2"])
app1 = App(APP1, is_auth_application=True)
app2 = App(APP2, is_auth_application=True)
node.add_application(app1, [peer_a])      # app1 may only talk to A
node.add_application(app2, [peer_b])      # app2 may only talk to B

# --- what Node._connect_to_peer(peer_a) does, minus the real socket ---------
sent = []
conn = PeerConnection(peer_a.ip_addresses, peer_a.port, PEER_SEND,
                      node.interrupt_write)
conn.state = PEER_CONNECTED
conn.node_name = peer_a.node_name
conn.origin_host = node.origin_host
conn.host_ip_address = ["127.0.0.1"]
real_add = conn.add_out_msg


def recorder(msg):
    sent.append(msg)
    real_add(msg)


conn.add_out_msg = recorder
node._add_peer_connection(conn, FakeSocket(), PEER_TRANSPORT_TCP)
node.send_cer(conn)
cer = sent[-1]

# --- the remote end of A's socket answers with B's name in Origin-Host ------
cea = CapabilitiesExchangeAnswer()
cea.header.hop_by_hop_identifier = cer.header.hop_by_hop_identifier
cea.header.end_to_end_identifier = cer.header.end_to_end_identifier
cea.result_code = constants.E_RESULT_CODE_DIAMETER_SUCCESS
cea.origin_host = b"b.realm.net"
cea.origin_realm = b"realm.net"
cea.host_ip_address = "10.0.0.1"
cea.vendor_id = 99999
cea.product_name = "fake"
cea.auth_application_id = [APP1, APP2]
conn.add_in_bytes(cea.as_bytes())
deadline = time.time() + 5
while conn.state == PEER_CONNECTED and time.time() < deadline:
    time.sleep(0.01)
time.sleep(0.2)
print(f"connection state after CEA: {hex(conn.state)} "
      f"(READY = {hex(PEER_READY)})")

print(f"connection opened to      : {conn.node_name} {conn.ip}")
print(f"peer A .connection is conn: {peer_a.connection is conn}")
print(f"peer B .connection is conn: {peer_b.connection is conn}   "
      f"(B was never connected)")


def ccr_for(app_id):
    ccr = CreditControlRequest()
    ccr.header.application_id = app_id
    ccr.session_id = node.session_generator.next_id()
    ccr.origin_host = b"client.realm.net"
    ccr.origin_realm = b"realm.net"
    ccr.destination_realm = b"realm.net"
    ccr.auth_application_id = app_id
    ccr.service_context_id = "x@y"
    ccr.cc_request_type = constants.E_CC_REQUEST_TYPE_EVENT_REQUEST
    ccr.cc_request_number = 0
    return ccr


def try_send(app, req):
    before = len(sent)
    try:
        app.send_request(req, timeout=0.2)
        out = "answered"
    except NotRoutable:
        out = "NotRoutable"
    except TimeoutError:
        out = "sent (timed out waiting)"
    written = [m for m in sent[before:] if m is req]
    return out, bool(written)


out1, written1 = try_send(app1, ccr_for(APP1))
out2, written2 = try_send(app2, ccr_for(APP2))
conn.close(signal_node=False)

print(f"app1 (peers: A only) request: {out1}; written to A's socket: {written1}")
print(f"app2 (peers: B only) request: {out2}; written to A's socket: {written2}")
print("property requires: a request is sent only to a peer configured for "
      "that application ...; when none exists NotRoutable is raised and "
      "nothing is sent  (the same socket must not serve both app1->A and "
      "app2->B)")
if written1 and written2:
    print("VIOLATION: one and the same connection received the requests of "
          "an application configured only for A and of an application "
          "configured only for B")
    sys.exit(1)
print("OK")
sys.exit(0)
