"""C20 finding 3: a request held in a typed command BASE class (what
Message.from_bytes(data, plain_msg=True) returns for every typed command, e.g.
CreditControl for a CCR) is not answered with the command's answer class.

Message.to_answer only searches for the "...Answer" sibling when the class name
of the request ends in "Request"; for the base class (CreditControl,
Accounting, ReAuth, ...) it instantiates the base class itself.  The result is
not an instance of <Command>Answer, has an empty avp_def, and therefore the
node / application helpers produce an answer without any AVP on the wire.
"""
import sys

from diameter.message import Message, Avp, DefinedMessage
from diameter.message.packer import Unpacker
from diameter.message.constants import *
from diameter.message.commands import all_commands
from diameter.node import Node
from diameter.node.application import Application

SESSION_ID = "peer.example;77;1"


def build_request(code: int) -> bytes:
    m = Message()
    m.header.command_code = code
    m.header.command_flags = 0xc0
    m.header.application_id = 4
    m.header.hop_by_hop_identifier = 0xaaaa
    m.header.end_to_end_identifier = 0xbbbb
    m.append_avp(Avp.new(AVP_SESSION_ID, value=SESSION_ID))
    m.append_avp(Avp.new(AVP_ORIGIN_HOST, value=b"peer.example"))
    m.append_avp(Avp.new(AVP_ORIGIN_REALM, value=b"example"))
    m.append_avp(Avp.new(AVP_DESTINATION_REALM, value=b"local.realm.example"))
    return m.as_bytes()


def wire_codes(data: bytes) -> list[int]:
    u = Unpacker(data)
    u.set_position(20)
    out = []
    while not u.is_done():
        out.append(Avp.from_unpacker(u).code)
    return out


class App(Application):
    def handle_request(self, message):
        pass


node = Node("local.host.example", "local.realm.example")
app = App(application_id=4, is_auth_application=True)
app._node = node

checked = 0
wrong_class = []
no_avps = []
for code, base in sorted(all_commands.items()):
    if not issubclass(base, DefinedMessage):
        continue
    answer_cls = next((s for s in base.__subclasses__()
                       if s.__name__ == base.__name__ + "Answer"), None)
    if answer_cls is None:
        continue
    checked += 1
    data = build_request(code)

    # control: the normal decode gives <Command>Request and the right answer
    typed = Message.from_bytes(data)
    assert isinstance(typed.to_answer(), answer_cls), typed

    req = Message.from_bytes(data, plain_msg=True)  # documented public API
    assert type(req) is base and req.header.is_request
    ans = req.to_answer()
    if not isinstance(ans, answer_cls):
        wrong_class.append((base.__name__, type(ans).__name__,
                            answer_cls.__name__))
    gen = app.generate_answer(req, 2001)
    codes = wire_codes(gen.as_bytes())
    if AVP_ORIGIN_HOST not in codes or AVP_ORIGIN_REALM not in codes:
        no_avps.append((base.__name__, codes))

print(f"typed commands with a paired answer class checked: {checked}")
for name, got, want in wrong_class[:8]:
    print(f"  request held in {name:<28} to_answer() -> {got:<28} "
          f"(required: instance of {want})")
if len(wrong_class) > 8:
    print(f"  ... and {len(wrong_class) - 8} more")
for name, codes in no_avps[:4]:
    print(f"  Application.generate_answer for {name}: AVP codes on the wire "
          f"= {codes} (Origin-Host / Origin-Realm missing)")
print()
print("property requires: 'For every command class [quantifier: typed request "
      "classes, typed base classes, ...], the answer produced from a request "
      "is an instance of that command's answer class (the generic message for "
      "commands without one)'; and generated answers carry Origin-Host, "
      "Origin-Realm and the copied Session-Id")
if wrong_class or no_avps:
    print(f"VIOLATION: {len(wrong_class)} of {checked} typed base classes are "
          f"answered with the base class instead of the answer class; "
          f"{len(no_avps)} generated answers carry no identifying AVPs")
    sys.exit(1)
print("OK")
sys.exit(0)
