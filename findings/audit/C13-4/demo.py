"""C13 finding 4.

Node.remove_peer_connection() recomputes the readiness of EVERY application
each time ANY connection is removed (evaluate all peers -> log a warning ->
app.is_ready.clear()), and Node._flag_connection_as_ready() sets is_ready from
the read thread of the connection that completed CER/CEA.  The two are not
serialised (no lock, evaluate-then-act).  When a removal running on one thread
has already evaluated "no peer of the app is ready" and a handshake of a
configured peer completes on another thread before the clear() is executed,
the set() is lost: the application stays "not ready" although its peer has a
READY connection, until some unrelated later connect/disconnect happens -
Application.wait_for_ready() times out.

Schedule: the node dials persistent peer P2 (which is NOT a peer of the
application); P2 rejects the CER, so remove_peer_connection runs on P2's read
thread.  Meanwhile application peer P1 connects and completes CER/CEA.
To make the schedule deterministic the demo only installs a slow logging
filter on the public "diameter.node" logger (synchronous logging, legitimate
configuration): remove_peer_connection logs "... flagging app as not ready"
between its evaluation and the clear().
Real TCP on 127.0.0.1 against a started Node.
"""
import logging
import socket
import sys
import threading
import time

from diameter.message import Message, constants
from diameter.message.commands import CapabilitiesExchangeRequest
from diameter.node import Node
from diameter.node.application import SimpleThreadingApplication
from diameter.node.peer import PEER_READY_STATES

P1 = "peer1.test.realm"
P2 = "peer2.test.realm"
CC = constants.APP_DIAMETER_CREDIT_CONTROL_APPLICATION

parked = threading.Event()
go = threading.Event()


class SlowFilter(logging.Filter):
    def filter(self, record):
        if ("flagging app as not ready" in record.getMessage()
                and not parked.is_set()):
            parked.set()
            go.wait(20)          # "slow log sink"
        return True


logging.getLogger("diameter.node").addFilter(SlowFilter())


def wait_until(cond, timeout=10.0):
    end = time.time() + timeout
    while time.time() < end:
        if cond():
            return True
        time.sleep(0.02)
    return cond()


def read_msg(sock):
    sock.settimeout(10)
    buf = b""
    while len(buf) < 20:
        buf += sock.recv(4096)
    length = int.from_bytes(buf[1:4], "big")
    while len(buf) < length:
        buf += sock.recv(4096)
    return Message.from_bytes(buf[:length])


remote = socket.socket()              # the box the node dials for P2
remote.bind(("127.0.0.1", 0))
remote.listen(5)
remote_port = remote.getsockname()[1]

tmp = socket.socket()
tmp.bind(("127.0.0.1", 0))
node_port = tmp.getsockname()[1]
tmp.close()

node = Node("srv.test.realm", "test.realm", ip_addresses=["127.0.0.1"],
            tcp_port=node_port)
node.wakeup_interval = 1
peer1 = node.add_peer(f"aaa://{P1}")
peer2 = node.add_peer(f"aaa://{P2}:{remote_port}", ip_addresses=["127.0.0.1"],
                      is_persistent=True)
peer2.reconnect_wait = 3600
app = SimpleThreadingApplication(CC, is_auth_application=True,
                                 request_handler=lambda a, m: None)
node.add_application(app, [peer1])     # only P1 belongs to the application
node.start()                           # dials P2

violations = []
rs = s1 = None
try:
    # step 1: P2 rejects our CER
    remote.settimeout(10)
    rs, _ = remote.accept()
    cer = read_msg(rs)
    cea = cer.to_answer()
    cea.result_code = constants.E_RESULT_CODE_DIAMETER_UNKNOWN_PEER
    cea.origin_host = P2.encode()
    cea.origin_realm = b"test.realm"
    cea.host_ip_address = "127.0.0.1"
    cea.vendor_id = 99999
    cea.product_name = "demo-peer"
    rs.sendall(cea.as_bytes())
    assert parked.wait(10), "removal did not reach the readiness recomputation"
    print(f"step 1: {P2} rejected the CER; remove_peer_connection has "
          f"evaluated 'no peer of the app is ready' and is logging the warning")

    # step 2: application peer P1 connects, CER/CEA succeeds
    s1 = socket.create_connection(("127.0.0.1", node_port), timeout=10)
    c = CapabilitiesExchangeRequest()
    c.header.hop_by_hop_identifier = 5
    c.header.end_to_end_identifier = 5
    c.origin_host = P1.encode()
    c.origin_realm = b"test.realm"
    c.host_ip_address = "127.0.0.1"
    c.vendor_id = 99999
    c.product_name = "demo-peer"
    c.auth_application_id = CC
    s1.sendall(c.as_bytes())
    rc = read_msg(s1).result_code
    assert wait_until(lambda: peer1.connection is not None and
                      peer1.connection.state in PEER_READY_STATES)
    wait_until(app.is_ready.is_set, 3)
    print(f"step 2: {P1} connected, CEA result {rc}, peer1.connection state="
          f"{hex(peer1.connection.state)}, app.is_ready="
          f"{app.is_ready.is_set()}")

    # step 3: the removal of P2's connection finishes
    go.set()
    wait_until(lambda: not node.connections or
               all(x.node_name != P2 for x in node.connections.values()))
    time.sleep(0.5)      # quiescent

    ready = (peer1.connection is not None and
             peer1.connection.ident in node.connections and
             peer1.connection.state in PEER_READY_STATES)
    print(f"step 3: removal of {P2}'s connection finished")
    print(f"        peer1.connection = {peer1.connection}, READY and in "
          f"node.connections: {ready}")
    print(f"        app.is_ready     = {app.is_ready.is_set()}")
    if ready and not app.is_ready.is_set():
        try:
            app.wait_for_ready(timeout=2)
        except Exception as e:
            print(f"        app.wait_for_ready(2) -> {type(e).__name__}: {e}")
        violations.append(
            "Application.is_ready is cleared although its configured peer P1 "
            "has a READY connection (property: 'An application reports ready "
            "whenever at least one of its configured peers has a ready "
            "connection')")
finally:
    go.set()
    for s in (rs, s1, remote):
        try:
            if s:
                s.close()
        except OSError:
            pass
    node.stop(force=True)

if violations:
    print("VIOLATION:")
    for v in violations:
        print("  - " + v)
    sys.exit(1)
print("OK: readiness consistent")
sys.exit(0)
