"""C06 / finding 1: the CER/CEA timeout never fires while the peer keeps sending
anything at all (ignored non-CE messages, or even single bytes).

Run:  PYTHONPATH=/repo/src /venv/bin/python /repo/_audit/1/demo.py
exit 1 = violation observed (current code), exit 0 = behaves as the property says
"""
import logging
import sys
import time
import types

import diameter.node.node as nodemod
import diameter.node.peer as peermod
from diameter.node import Node
from diameter.node.peer import (PeerConnection, PEER_RECV, PEER_SEND,
                                PEER_CONNECTED, PEER_CLOSED, PEER_TRANSPORT_TCP)
from diameter.message.commands import DeviceWatchdogRequest

logging.disable(logging.CRITICAL)

# ---- virtual clock (only time.time() of the two node modules is replaced) ----
_base = time.time()
_offset = [0]
_fake_time = types.SimpleNamespace(time=lambda: _base + _offset[0],
                                   sleep=time.sleep)
nodemod.time = _fake_time
peermod.time = _fake_time


class FakeSocket:
    _n = 5000

    def __init__(self):
        FakeSocket._n += 1
        self._fileno = FakeSocket._n
        self.closed = False

    def fileno(self):
        return self._fileno

    def close(self):
        self.closed = True

    def setsockopt(self, *a):
        pass


def dwr() -> bytes:
    m = DeviceWatchdogRequest()
    m.header.hop_by_hop_identifier = 11
    m.header.end_to_end_identifier = 12
    m.origin_host = b"peer.local.realm"
    m.origin_realm = b"local.realm"
    return m.as_bytes()


def wait_consumed(conn):
    """Wait until the connection's reader thread has taken the bytes."""
    want = int(_base + _offset[0])
    end = time.monotonic() + 5
    while time.monotonic() < end:
        if conn._read_buffer_queue.empty() and conn._last_read == want:
            return
        time.sleep(0.005)
    if conn.state != PEER_CLOSED:
        raise RuntimeError("reader thread did not consume the bytes")


def scenario(direction: int, payload_fn, label: str) -> bool:
    """Returns True if the connection is still open after 60 virtual seconds
    without any CER/CEA having arrived."""
    node = Node("node.local.realm", "local.realm",
                ip_addresses=["127.0.0.1"], tcp_port=3868)
    node.cer_timeout = 4
    node.cea_timeout = 4
    peer = node.add_peer("aaa://peer.local.realm", "local.realm",
                         ip_addresses=["10.0.0.1"])

    conn = PeerConnection("10.0.0.1", 5555, direction, node.interrupt_write)
    conn.state = PEER_CONNECTED
    if direction == PEER_SEND:
        conn.node_name = peer.node_name
        conn.origin_host = node.origin_host
    sock = FakeSocket()
    node._add_peer_connection(conn, sock, PEER_TRANSPORT_TCP)
    written = []
    conn.add_out_msg = written.append
    if direction == PEER_SEND:
        node.send_cer(conn)          # CER goes out first, now waiting for CEA

    start = _offset[0]
    closed_at = None
    # the peer never sends the CER/CEA; every 3 s it sends something else.
    # The node checks its timers after every socket event, like
    # Node._handle_connections does.
    for step in range(20):
        _offset[0] += 3
        payload = payload_fn(step)
        if payload:
            conn.add_in_bytes(payload)
            wait_consumed(conn)
        node._check_timers(conn)
        if conn.state == PEER_CLOSED or sock.closed:
            closed_at = _offset[0] - start
            break

    elapsed = _offset[0] - start
    still_open = closed_at is None
    print(f"[{label}] {elapsed} s after connect, no "
          f"{'CER' if direction == PEER_RECV else 'CEA'} ever arrived: "
          f"state={nodemod.state_names.get(conn.state)}, "
          f"socket closed={sock.closed}, in node.connections="
          f"{conn.ident in node.connections}, answers written="
          f"{len([m for m in written if not m.header.is_request])}")
    conn.close(signal_node=False)
    return still_open


def main():
    whole_dwr = dwr()
    control_open = scenario(PEER_RECV, lambda i: b"",
                            "control: inbound, completely silent peer")
    if control_open:
        print("control failed: even a silent connection is not timed out")
    results = [
        scenario(PEER_RECV, lambda i: whole_dwr,
                 "inbound, peer sends a (correctly ignored) DWR every 3 s"),
        scenario(PEER_RECV, lambda i: b"\x01\x00\x00\x28"[i % 4:i % 4 + 1],
                 "inbound, peer trickles one byte every 3 s"),
        scenario(PEER_SEND, lambda i: whole_dwr,
                 "outbound, CER sent, peer sends a DWR every 3 s, no CEA"),
    ]
    print()
    print("property requires: a connection is closed when the expected CER "
          "(inbound) / CEA (outbound) does not arrive within the configured "
          "timeout (4 s here)")
    if any(results):
        print("observed: connection still open and still waiting after 60 s "
              "-> VIOLATION (timeout is measured from the last byte read, "
              "not from connect / CER sent)")
        return 1
    print("observed: connection closed after the timeout -> OK")
    return 0


if __name__ == "__main__":
    rc = main()
    sys.stdout.flush()
    sys.exit(rc)
