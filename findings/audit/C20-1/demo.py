"""C20 finding 1: answers generated through a node / application for UNTYPED
(UndefinedMessage subclasses) and UNKNOWN command codes carry no Origin-Host,
Origin-Realm, Session-Id or Proxy-Info on the wire.

Node._generate_answer / Application.generate_answer store the values as plain
python attributes; Message / UndefinedMessage never turn attributes into AVPs,
so as_bytes() of the answer is a bare 20 byte header.
"""
import sys

from diameter.message import Message, Avp
from diameter.message.packer import Unpacker
from diameter.message.constants import *
from diameter.node import Node
from diameter.node.application import Application
from diameter.node.peer import PeerConnection, PEER_RECV, PEER_READY

LOCAL_HOST = "local.host.example"
LOCAL_REALM = "local.realm.example"
SESSION_ID = "peer.example;1;2"


def build_request(code: int) -> bytes:
    m = Message()
    m.header.command_code = code
    m.header.command_flags = 0xc0
    m.header.application_id = 4
    m.header.hop_by_hop_identifier = 0x1234
    m.header.end_to_end_identifier = 0x5678
    m.append_avp(Avp.new(AVP_SESSION_ID, value=SESSION_ID))
    m.append_avp(Avp.new(AVP_ORIGIN_HOST, value=b"peer.example"))
    m.append_avp(Avp.new(AVP_ORIGIN_REALM, value=b"example"))
    m.append_avp(Avp.new(AVP_DESTINATION_REALM, value=b"unserved.realm"))
    m.append_avp(Avp.new(AVP_PROXY_INFO, value=[
        Avp.new(AVP_PROXY_HOST, value=b"proxy.example"),
        Avp.new(AVP_PROXY_STATE, value=b"state-1")]))
    return m.as_bytes()


def wire_avps(data: bytes) -> list[Avp]:
    u = Unpacker(data)
    u.set_position(20)
    avps = []
    while not u.is_done():
        avps.append(Avp.from_unpacker(u))
    return avps


def missing_on_wire(data: bytes) -> list[str]:
    avps = wire_avps(data)

    def vals(code):
        return [a.value for a in avps if a.code == code and a.vendor_id == 0]

    missing = []
    if vals(AVP_ORIGIN_HOST) != [LOCAL_HOST.encode()]:
        missing.append("Origin-Host")
    if vals(AVP_ORIGIN_REALM) != [LOCAL_REALM.encode()]:
        missing.append("Origin-Realm")
    if vals(AVP_SESSION_ID) != [SESSION_ID]:
        missing.append("Session-Id")
    pi = [a for a in avps if a.code == AVP_PROXY_INFO]
    if len(pi) != 1:
        missing.append("Proxy-Info")
    return missing


class App(Application):
    def handle_request(self, message):
        pass


node = Node(LOCAL_HOST, LOCAL_REALM)
app = App(application_id=4, is_auth_application=True)
app._node = node  # what Node.add_application does; no sockets needed

violations = []

# 283 = SIP-User-Authorization (registered, untyped), 8388734 = MT-Data
# (registered, untyped), 999 / 0xffffff = unknown command codes
for code in (283, 8388734, 999, 0xffffff):
    req = Message.from_bytes(build_request(code))
    for label, gen in (
            ("Application.generate_answer", lambda r: app.generate_answer(r)),
            ("Node._generate_answer", lambda r: node._generate_answer(None, r))):
        ans = gen(req)
        data = ans.as_bytes()
        miss = missing_on_wire(data)
        print(f"code={code:<8} req={type(req).__name__:<22} {label:<28} "
              f"answer={type(ans).__name__:<22} wire_len={len(data):<3} "
              f"missing={miss}")
        if miss:
            violations.append((code, label, miss))

# The same thing end-to-end: a peer sends a request with an unknown command
# code for a realm the node does not serve; the node's own error answer that
# is queued for the peer is an empty 20 byte message.
conn = PeerConnection("10.0.0.1", 3868, PEER_RECV,
                      interrupt_fileno=node.interrupt_write)
try:
    conn.state = PEER_READY
    conn.host_identity = "peer.example"
    sent = []
    conn.add_out_msg = sent.append
    node._receive_message(conn, Message.from_bytes(build_request(999)))
    for m in sent:
        data = m.as_bytes()
        miss = missing_on_wire(data)
        print(f"node._receive_message(unknown cmd 999) queued "
              f"{type(m).__name__} wire_len={len(data)} missing={miss}")
        if miss:
            violations.append((999, "Node._receive_message", miss))
    if not sent:
        print("node queued no answer at all")
finally:
    conn.close(signal_node=False)

print()
print("property requires: 'Answers generated through a node or application "
      "additionally carry the local Origin-Host and Origin-Realm and copy "
      "Session-Id and Proxy-Info from the request' - for untyped commands and "
      "unknown command codes as well (quantifier), observed at the bytes of "
      "generate_answer(...).as_bytes()")
if violations:
    print(f"VIOLATION: {len(violations)} generated answers lack these AVPs "
          f"on the wire")
    sys.exit(1)
print("OK: all generated answers carry the AVPs")
sys.exit(0)
