"""
C16 / finding 2: a node whose start time is the timestamp 0 does not get the
low 12 bits of its start time into the high 12 bits of its end-to-end
generator; the generator is seeded with 32 fully random bits instead.

SequenceGenerator.__init__ tests `if include_now:` - the integer 0 is falsy, so
start time 0 is treated like "no timestamp given".  Every other timestamp
(including other multiples of 4096, whose low 12 bits are zero as well) is
handled correctly, which this demo also checks.

time.time is replaced to give the node a chosen start time (the property is
quantified over all start timestamps); nothing in the library is modified.

exit 1 = for some start timestamp the high 12 bits differ from ts & 0xfff
exit 0 = they match for every tested start timestamp
"""
import logging
import sys
import time

from diameter.node import Node, SequenceGenerator

logging.disable(logging.CRITICAL)

real_time = time.time
bad = []
TRIES = 12   # a random 32-bit seed has the right 12 bits with p = 1/4096

for ts in (0, 1, 4095, 4096, 8192, 0x7fffffff, 0xfffff000, 0xffffffff):
    for attempt in range(TRIES):
        time.time = lambda ts=ts: float(ts)
        try:
            node = Node("node.example.realm", "example.realm")
        finally:
            time.time = real_time
        got = node.end_to_end_seq.sequence >> 20
        want = ts & 0xfff
        if got != want:
            bad.append((ts, node.state_id, node.end_to_end_seq.sequence))
            break
    else:
        print(f"start time {ts:#x}: high 12 bits {want:#05x} in all {TRIES} "
              f"nodes - ok")

# the same through the public helper class directly
direct = [SequenceGenerator(0).sequence >> 20 for _ in range(TRIES)]

for ts, state_id, seq in bad:
    print(f"start time {ts:#x} (Node.state_id={state_id}): end-to-end "
          f"generator initialised to {seq:#010x}, high 12 bits "
          f"{seq >> 20:#05x}, required {ts & 0xfff:#05x}")
print("SequenceGenerator(0) high 12 bits over", TRIES, "instances:",
      [hex(d) for d in direct])
print()
print("REQUIRED by the property: \"A node's end-to-end generator is "
      "initialised with the low 12 bits of its start time in the high 12 "
      "bits\" (for all start timestamps).")
if bad or any(direct):
    print("OBSERVED: for start time 0 the high 12 bits are random -> VIOLATION")
    sys.exit(1)
print("OBSERVED: high 12 bits always equal start time & 0xfff -> OK")
sys.exit(0)
