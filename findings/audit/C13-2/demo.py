"""C13 finding 2.

The node dials configured peer P.  The remote end answers the CER with a
successful CEA whose Origin-Host is the identity of ANOTHER configured peer Q
(e.g. the IP address configured for P really belongs to Q's box, or a cluster
member answers with a sibling's identity).  receive_cea copies that Origin-Host
into conn.host_identity and _assign_peer_connection() stores the very same
connection in Q.connection as well - it is now referenced by P.connection and
Q.connection.  When the connection is lost only P (found through
conn.node_name) is cleaned up: Q.connection keeps referencing a closed
connection that is in none of the node's tables, Q never gets a disconnect
reason/time, and Q's own later (successful) handshake can never be assigned,
so Q's application never becomes ready.

Real TCP on 127.0.0.1 against a started Node; the script plays the remote ends.
"""
import socket
import sys
import time

from diameter.message import Message, constants
from diameter.message.commands import (CapabilitiesExchangeAnswer,
                                       CapabilitiesExchangeRequest)
from diameter.node import Node
from diameter.node.application import SimpleThreadingApplication
from diameter.node.peer import PEER_READY_STATES, PEER_CLOSED

P = "peer-p.test.realm"
Q = "peer-q.test.realm"
CC = constants.APP_DIAMETER_CREDIT_CONTROL_APPLICATION


def wait_until(cond, timeout=10.0):
    end = time.time() + timeout
    while time.time() < end:
        if cond():
            return True
        time.sleep(0.02)
    return cond()


def read_msg(sock):
    sock.settimeout(10)
    buf = b""
    while len(buf) < 20:
        buf += sock.recv(4096)
    length = int.from_bytes(buf[1:4], "big")
    while len(buf) < length:
        buf += sock.recv(4096)
    return Message.from_bytes(buf[:length])


# the "remote box" the node will dial when it connects to P
remote = socket.socket()
remote.bind(("127.0.0.1", 0))
remote.listen(5)
remote_port = remote.getsockname()[1]

tmp = socket.socket()
tmp.bind(("127.0.0.1", 0))
node_port = tmp.getsockname()[1]
tmp.close()

node = Node("srv.test.realm", "test.realm", ip_addresses=["127.0.0.1"],
            tcp_port=node_port)
node.wakeup_interval = 1
peer_p = node.add_peer(f"aaa://{P}:{remote_port}", ip_addresses=["127.0.0.1"],
                       is_persistent=True)
peer_p.reconnect_wait = 3600          # keep the history short
peer_q = node.add_peer(f"aaa://{Q}")
app_p = SimpleThreadingApplication(CC, is_auth_application=True,
                                   request_handler=lambda a, m: None)
app_q = SimpleThreadingApplication(CC, is_auth_application=True,
                                   request_handler=lambda a, m: None)
node.add_application(app_p, [peer_p])
node.add_application(app_q, [peer_q])
node.start()                           # dials P

violations = []
rs = qs = None
try:
    remote.settimeout(10)
    rs, _ = remote.accept()
    cer = read_msg(rs)
    assert isinstance(cer, CapabilitiesExchangeRequest)
    cea: CapabilitiesExchangeAnswer = cer.to_answer()
    cea.result_code = constants.E_RESULT_CODE_DIAMETER_SUCCESS
    cea.origin_host = Q.encode()       # <- identity of the other peer
    cea.origin_realm = b"test.realm"
    cea.host_ip_address = "127.0.0.1"
    cea.vendor_id = 99999
    cea.product_name = "demo-peer"
    cea.auth_application_id = CC
    rs.sendall(cea.as_bytes())

    assert wait_until(lambda: peer_p.connection is not None and
                      peer_p.connection.state in PEER_READY_STATES)
    conn = peer_p.connection
    time.sleep(0.2)
    print(f"step 1: dialled {P}, CEA(success, Origin-Host={Q}) received")
    print(f"        P.connection = {peer_p.connection}")
    print(f"        Q.connection = {peer_q.connection}   "
          f"(same object: {peer_q.connection is conn})")

    # step 2: peer gone
    rs.close()
    assert wait_until(lambda: conn.ident not in node.connections)
    time.sleep(0.3)
    in_tables = (conn.ident in node.connections or
                 conn.ident in node.peer_sockets or
                 conn in node.socket_peers.values() or
                 conn.ident in node._half_ready_connections)
    print(f"step 2: remote end closed; connection {conn.ident} state="
          f"{hex(conn.state)} (CLOSED={hex(PEER_CLOSED)}), "
          f"still in a node table: {in_tables}")
    print(f"        P.connection = {peer_p.connection}, reason="
          f"{peer_p.disconnect_reason}, last_disconnect={peer_p.last_disconnect}")
    print(f"        Q.connection = {peer_q.connection}, reason="
          f"{peer_q.disconnect_reason}, last_disconnect={peer_q.last_disconnect}")

    live_q = [c for c in node.connections.values()
              if Q in (c.node_name, c.host_identity)]
    if peer_q.connection is not None and not live_q:
        violations.append(
            f"Q.connection references closed connection {conn.ident} that is "
            f"in none of the node's tables, no live connection of Q exists "
            f"(property: 'a peer's connection attribute references a live "
            f"connection of that peer exactly when one exists')")
    if peer_q.connection is None and (peer_q.disconnect_reason is None or
                                      peer_q.last_disconnect is None):
        violations.append("Q's connection removed without reason/time")

    # step 3: the real Q now connects and completes CER/CEA
    qs = socket.create_connection(("127.0.0.1", node_port), timeout=10)
    qcer = CapabilitiesExchangeRequest()
    qcer.header.hop_by_hop_identifier = 77
    qcer.header.end_to_end_identifier = 77
    qcer.origin_host = Q.encode()
    qcer.origin_realm = b"test.realm"
    qcer.host_ip_address = "127.0.0.1"
    qcer.vendor_id = 99999
    qcer.product_name = "demo-peer"
    qcer.auth_application_id = CC
    qs.sendall(qcer.as_bytes())
    qcea = read_msg(qs)
    wait_until(lambda: any(c.state in PEER_READY_STATES and c.node_name == Q
                           for c in node.connections.values()), 3)
    time.sleep(0.2)
    ready_q = [c for c in node.connections.values()
               if c.node_name == Q and c.state in PEER_READY_STATES]
    print(f"step 3: real {Q} connected, CEA result {qcea.result_code}; "
          f"READY connections of Q in node.connections: "
          f"{[c.ident for c in ready_q]}")
    print(f"        Q.connection = {peer_q.connection} "
          f"(state {hex(peer_q.connection.state) if peer_q.connection else None})")
    print(f"        app_q.is_ready = {app_q.is_ready.is_set()}")
    if ready_q and peer_q.connection not in ready_q:
        violations.append(
            "Q has a live READY connection but Q.connection does not reference "
            "it (still the dead one)")
    if ready_q and not app_q.is_ready.is_set():
        violations.append(
            "app_q.is_ready is not set although its configured peer Q has a "
            "READY connection (property: 'An application reports ready "
            "whenever at least one of its configured peers has a ready "
            "connection')")
finally:
    for s in (rs, qs, remote):
        try:
            if s:
                s.close()
        except OSError:
            pass
    node.stop(force=True)

if violations:
    print("VIOLATION:")
    for v in violations:
        print("  - " + v)
    sys.exit(1)
print("OK: tables and readiness consistent")
sys.exit(0)
