"""C17 finding 3 (low severity): the mandatory-AVP validation in
`Node._receive_message` runs BEFORE the T-flag duplicate check and returns.
A request that the node answered 5005 (DIAMETER_MISSING_AVP) is recorded in the
duplicate window like any other answered request, but its byte-identical
T-flag retransmission is answered 5005 again instead of 5012. The same happens
for a T-flag duplicate of a request that was answered 2001 by the application
if the duplicate lacks a mandatory AVP.

exit 1 = violation observed (current code), exit 0 = behaves as the property says
"""
import logging
import sys

from diameter.message import Message, Avp, constants
from diameter.message.commands import CreditControlRequest
from diameter.message._base import MessageHeader
from diameter.node import Node
from diameter.node.application import Application
from diameter.node.peer import PeerConnection, PEER_RECV, PEER_CONNECTED, \
    PEER_TRANSPORT_TCP, PEER_READY

logging.disable(logging.CRITICAL)

APP_ID = constants.APP_DIAMETER_CREDIT_CONTROL_APPLICATION
HOST = b"gw-a.example.org"


class FakeSocket:
    def __init__(self, no): self._no = no
    def fileno(self): return self._no
    def close(self): pass
    def setsockopt(self, *a): pass


class RecordingApp(Application):
    def __init__(self):
        super().__init__(APP_ID, is_auth_application=True)
        self.delivered = []

    def handle_request(self, message):
        self.delivered.append(message)


def avp(code, value, vendor=0):
    a = Avp.new(code, vendor)
    a.value = value
    return a


def wire(msg):
    return Message.from_bytes(msg.as_bytes())


def cer(host, hbh, e2e):
    m = Message(MessageHeader(command_flags=0x80, command_code=257,
                              hop_by_hop_identifier=hbh,
                              end_to_end_identifier=e2e))
    m.append_avp(avp(constants.AVP_ORIGIN_HOST, host))
    m.append_avp(avp(constants.AVP_ORIGIN_REALM, b"example.org"))
    m.append_avp(avp(constants.AVP_HOST_IP_ADDRESS, "10.0.0.1"))
    m.append_avp(avp(constants.AVP_VENDOR_ID, 99999))
    m.append_avp(avp(constants.AVP_PRODUCT_NAME, "demo"))
    m.append_avp(avp(constants.AVP_AUTH_APPLICATION_ID, APP_ID))
    return wire(m)


def ccr(hbh, e2e, t_flag, with_service_context=True):
    m = CreditControlRequest()
    m.header.application_id = APP_ID
    m.header.hop_by_hop_identifier = hbh
    m.header.end_to_end_identifier = e2e
    m.header.is_retransmit = t_flag
    m.session_id = HOST.decode() + ";1;1"
    m.origin_host = HOST
    m.origin_realm = b"example.org"
    m.destination_realm = b"example.org"
    m.auth_application_id = APP_ID
    if with_service_context:
        m.service_context_id = "demo@example.org"
    m.cc_request_type = constants.E_CC_REQUEST_TYPE_EVENT_REQUEST
    m.cc_request_number = 0
    return wire(m)


def result_code_of(raw):
    m = Message.from_bytes(raw, plain_msg=True)
    found = m.find_avps((constants.AVP_RESULT_CODE, 0))
    return found[0].value if found else None


node = Node("ocs.example.org", "example.org")
node.retransmit_queue_size = 4
peer = node.add_peer("aaa://gw-a.example.org")
app = RecordingApp()
node.add_application(app, [peer])

conn = PeerConnection("10.0.0.1", 3868, PEER_RECV, node.interrupt_write)
conn.state = PEER_CONNECTED
node._add_peer_connection(conn, FakeSocket(901), PEER_TRANSPORT_TCP)
sent = []
_orig = conn.add_out_msg
def recorder(m):
    sent.append(m.as_bytes())
    _orig(m)
conn.add_out_msg = recorder

rc = 0
try:
    node._receive_message(conn, cer(HOST, 1, 100))
    assert conn.state == PEER_READY and result_code_of(sent[-1]) == 2001

    # --- case (a): request lacking Service-Context-Id, answered 5005 by node
    node._receive_message(conn, ccr(2, 7, False, with_service_context=False))
    assert result_code_of(sent[-1]) == 5005 and not app.delivered
    assert 7 in node._sent_answers[HOST], "5005 answer is in the window"
    n = len(sent)
    # byte-identical retransmission, only the T flag (and hop-by-hop id) differ
    node._receive_message(conn, ccr(3, 7, True, with_service_context=False))
    rc_a = [result_code_of(r) for r in sent[n:]]
    print(f"(a) origin {HOST.decode()} e2e 7 already answered (5005) by the node, "
          f"window {list(node._sent_answers[HOST])}; T-flag retransmission "
          f"answered {rc_a}, delivered to app: {len(app.delivered) > 0}")

    # --- case (b): valid request answered 2001 by the app; T-flag duplicate
    #     of it arrives without Service-Context-Id
    node._receive_message(conn, ccr(4, 8, False))
    assert len(app.delivered) == 1
    req = app.delivered[0]
    ans = app.generate_answer(req, result_code=2001)
    ans.cc_request_type = req.cc_request_type
    ans.cc_request_number = req.cc_request_number
    app.send_answer(ans)
    assert result_code_of(sent[-1]) == 2001
    n = len(sent)
    node._receive_message(conn, ccr(5, 8, True, with_service_context=False))
    rc_b = [result_code_of(r) for r in sent[n:]]
    print(f"(b) origin {HOST.decode()} e2e 8 already answered (2001) by the app, "
          f"window {list(node._sent_answers[HOST])}; T-flag duplicate answered "
          f"{rc_b}, delivered to app again: {len(app.delivered) > 1}")

    print("required: a T-flag request whose origin host and end-to-end id equal "
          "those of an already answered request (within the window) 'is "
          "answered 5012 by the node itself'")
    if rc_a != [5012] or rc_b != [5012] or len(app.delivered) > 1:
        print("VIOLATION")
        rc = 1
    else:
        print("OK")
except AssertionError as e:
    print("demo set-up failed (not the violation):", repr(e))
    rc = 2
finally:
    conn.close(signal_node=False)
sys.exit(rc)
