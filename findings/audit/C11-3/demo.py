"""C11 finding 3: a CER received while the node is waiting for a DWA puts the
connection back to READY; no DWA ever arrives, yet the connection is never
closed with the watchdog-timeout reason (and the awaiting-DWA mark is lost).

Run:  PYTHONPATH=/repo/src /venv/bin/python /repo/_audit/3/demo.py
Exit 1 = violation observed (current code), exit 0 = behaves as the property says.
"""
import socket
import sys
import time

_real_monotonic = time.monotonic
CLOCK = [1_700_000_000]
time.time = lambda: float(CLOCK[0])

from diameter.message import constants
from diameter.message.commands import CapabilitiesExchangeRequest
from diameter.node import Node
from diameter.node.peer import (
    PeerConnection, PEER_RECV, PEER_CONNECTED, PEER_READY,
    PEER_READY_WAITING_DWA, PEER_CLOSED, PEER_TRANSPORT_TCP,
    DISCONNECT_REASON_DWA_TIMEOUT)

IDLE, DWA_T = 30, 4


def wait_for(cond, real_seconds=3.0):
    end = _real_monotonic() + real_seconds
    while _real_monotonic() < end:
        if cond():
            return True
        time.sleep(0.01)
    return cond()


node = Node("node.example.org", "example.org")
node.idle_timeout = IDLE
node.dwa_timeout = DWA_T
peer = node.add_peer("aaa://peer.example.org", "example.org")

ours, theirs = socket.socketpair()
conn = PeerConnection("127.0.0.1", 40000, PEER_RECV, node.interrupt_write)
conn.state = PEER_CONNECTED
node._add_peer_connection(conn, ours, PEER_TRANSPORT_TCP)

sent = []
_orig_add_out = conn.add_out_msg
conn.add_out_msg = lambda m: (sent.append((CLOCK[0], m)), _orig_add_out(m))


def cer_bytes(hbh):
    cer = CapabilitiesExchangeRequest()
    cer.header.hop_by_hop_identifier = hbh
    cer.header.end_to_end_identifier = hbh
    cer.origin_host = b"peer.example.org"
    cer.origin_realm = b"example.org"
    cer.host_ip_address = ["127.0.0.1"]
    cer.vendor_id = 1
    cer.product_name = "peer"
    cer.auth_application_id = [constants.APP_RELAY]
    return cer.as_bytes()


def n_dwr():
    return len([1 for _, m in sent
                if m.header.command_code == 280 and m.header.is_request])


def n_cea():
    return len([1 for _, m in sent
                if m.header.command_code == 257 and not m.header.is_request])


conn.add_in_bytes(cer_bytes(1))
assert wait_for(lambda: conn.state == PEER_READY), "setup: CER not accepted"
T0 = CLOCK[0]
print("t=+0   connection READY")

CLOCK[0] = T0 + IDLE + 1
node._check_timers(conn)
print(f"t=+{IDLE + 1}  idle > {IDLE} s: DWRs sent={n_dwr()}, state {conn.state:#x} "
      f"(0x13 = READY_WAITING_DWA)")
assert conn.state == PEER_READY_WAITING_DWA and n_dwr() == 1

# the peer does NOT answer the DWR; one second later it sends a CER again
CLOCK[0] = T0 + IDLE + 2
conn.add_in_bytes(cer_bytes(2))
wait_for(lambda: n_cea() == 2)
state_after_cer = conn.state
print(f"t=+{IDLE + 2}  peer sent a second CER instead of a DWA: CEAs sent={n_cea()}, "
      f"state {conn.state:#x}, is_waiting_for_dwa={conn.is_waiting_for_dwa}")

# DWA timeout elapses without any DWA; node runs its timer checks every second
closed_at = None
for dt in range(IDLE + 3, IDLE + 2 + 5 * DWA_T):
    CLOCK[0] = T0 + dt
    node._check_timers(conn)
    if conn.state == PEER_CLOSED:
        closed_at = dt
        break

print(f"t=+{CLOCK[0] - T0}  after {CLOCK[0] - (T0 + IDLE + 1)} s without a DWA "
      f"(DWA timeout {DWA_T} s): state {conn.state:#x}, still in "
      f"node.connections: {conn.ident in node.connections}, "
      f"peer.disconnect_reason={peer.disconnect_reason!r}, DWRs sent={n_dwr()}")

violated = not (closed_at is not None and closed_at <= IDLE + 1 + DWA_T + 1 and
                peer.disconnect_reason == DISCONNECT_REASON_DWA_TIMEOUT)

if conn.state != PEER_CLOSED:
    conn.close(signal_node=False)
theirs.close()
try:
    ours.close()
except OSError:
    pass

print()
if violated:
    print(f"OBSERVED: the CER moved the connection from READY_WAITING_DWA to "
          f"state {state_after_cer:#x}; no DWA was ever received, but the "
          f"connection was not closed with DISCONNECT_REASON_DWA_TIMEOUT.")
    print("REQUIRED (C11): '... is marked as awaiting the DWA; a DWA returns it "
          "to ready, and if none arrives within the DWA timeout the connection "
          "is closed with the watchdog-timeout reason'.")
    sys.exit(1)
print("OK: connection closed with the watchdog-timeout reason")
sys.exit(0)
