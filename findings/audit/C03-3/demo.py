"""C03 finding 3: CreditControlRequest.access_network_charging_identifier_gx denotes a *Grouped*
dictionary AVP but has no container class (and is annotated `bytes`).

 * a value of the declared type (bytes) cannot be encoded at all;
 * the only value the Grouped AVP accepts (a list of member AVPs) is mistaken for a
   "repeated AVP" list: one grouped AVP is emitted PER MEMBER, and decoding returns a
   mangled nested list instead of what was set.
"""
import sys
from diameter.message import Message, Avp
from diameter.message.avp import AvpGrouped
from diameter.message.avp.avp import get_avp_dictionary_entry
from diameter.message.commands import CreditControlRequest
from diameter.message.constants import *

failed = False
KEY = (AVP_TGPP_ACCESS_NETWORK_CHARGING_IDENTIFIER_GX, VENDOR_TGPP)

gen_def = [d for d in CreditControlRequest.avp_def
           if d.attr_name == "access_network_charging_identifier_gx"][0]
entry = get_avp_dictionary_entry(gen_def.avp_code, gen_def.vendor_id)
print("dictionary type:", entry["type"].__name__, "| container class in avp_def:", gen_def.type_class,
      "| annotation:", CreditControlRequest.__annotations__["access_network_charging_identifier_gx"])
if issubclass(entry["type"], AvpGrouped) and gen_def.type_class is None:
    failed = True
    print("OBSERVED: Grouped AVP declared without a container class")

# (a) value of the annotated type
ccr = CreditControlRequest()
ccr.session_id = "host;1;2"
ccr.access_network_charging_identifier_gx = b"\x00\x00\x00\x07"
try:
    ccr.as_bytes()
    print("bytes value encoded")
except Exception as e:
    failed = True
    print("OBSERVED: value of the declared type cannot be encoded:", type(e).__name__, str(e)[:120])

# (b) value the Grouped AVP requires: the list of its member AVPs
members = [
    Avp.new(AVP_TGPP_ACCESS_NETWORK_CHARGING_IDENTIFIER_VALUE, VENDOR_TGPP, value=b"\x00\x00\x00\x07"),
    Avp.new(AVP_TGPP_CHARGING_RULE_NAME, VENDOR_TGPP, value=b"rule-1"),
]
ccr = CreditControlRequest()
ccr.session_id = "host;1;2"
ccr.access_network_charging_identifier_gx = members
wire = ccr.as_bytes()
on_wire = Message.from_bytes(wire, plain_msg=True).find_avps(KEY)
print("Access-Network-Charging-Identifier-Gx AVPs on the wire: %d (members per AVP: %s)"
      % (len(on_wire), [len(a.value) for a in on_wire]))
print("REQUIRED: exactly one AVP for the one scalar attribute that was set")
if len(on_wire) != 1:
    failed = True

decoded = Message.from_bytes(wire).access_network_charging_identifier_gx
def show(v):
    if isinstance(v, list):
        return [show(x) for x in v]
    return v.name if isinstance(v, Avp) else v
print("value set     :", show(members))
print("value decoded :", show(decoded))
print("REQUIRED: decoding restores every attribute value that was set")
same = (isinstance(decoded, list) and len(decoded) == len(members)
        and all(isinstance(d, Avp) and d.as_bytes() == m.as_bytes() for d, m in zip(decoded, members)))
if not same:
    failed = True

if failed:
    print("VIOLATION")
    sys.exit(1)
print("no violation")
sys.exit(0)
