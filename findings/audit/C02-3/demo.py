"""C02 finding 3: a message without AVPs decodes into a message WITH an AVP.

Wire: a well-formed 20-byte Diameter message (header only, 0 AVPs - the lower
bound of the quantifier "all AVP sequences of 0..40 AVPs") for every registered
command code and both values of the R bit.  The property demands that the
decoded AVP sequence is identical to the wire (i.e. empty), that encoding emits
the header followed by the AVPs with a correct length, and that searching
returns exactly the AVPs located at the path (i.e. nothing).
"""
import logging
import struct
import sys

logging.disable(logging.CRITICAL)

from diameter.message import Message
from diameter.message.avp import AvpGrouped


# --- independent wire builder: a tree is a list of (code, vendor, flags, value)
# --- where value is bytes (leaf) or a list (grouped)
def enc_avp(code, vendor, flags, value):
    payload = enc_tree(value) if isinstance(value, list) else value
    if vendor:
        flags |= 0x80
    length = 8 + (4 if vendor else 0) + len(payload)
    out = struct.pack(">II", code, (flags << 24) | length)
    if vendor:
        out += struct.pack(">I", vendor)
    return out + payload + b"\x00" * ((-len(payload)) % 4)


def enc_tree(tree):
    return b"".join(enc_avp(*node) for node in tree)


def enc_msg(flags, code, app_id, hbh, e2e, tree):
    body = enc_tree(tree)
    return struct.pack(">IIIII", (1 << 24) | (20 + len(body)),
                       (flags << 24) | code, app_id, hbh, e2e) + body


def norm(tree):
    """Wire tree with the V bit made explicit, as the decoder must report it."""
    return [(c, v, f | (0x80 if v else 0), norm(x) if isinstance(x, list) else x)
            for c, v, f, x in tree]


def tree_of(avps):
    """Tree of what the library reports."""
    return [(a.code, a.vendor_id, a.flags,
             tree_of(a.value) if isinstance(a, AvpGrouped) else a.payload)
            for a in avps]


def show(title, tree, indent="  "):
    print(title)
    def rec(t, ind):
        for c, v, f, x in t:
            if isinstance(x, list):
                print(f"{ind}code={c} vendor={v} flags=0x{f:02x} grouped:")
                rec(x, ind + "  ")
            else:
                print(f"{ind}code={c} vendor={v} flags=0x{f:02x} payload={x!r}")
    rec(tree, indent)
    if not tree:
        print(indent + "(no AVPs)")

from diameter.message.commands import all_commands

bad = []
for code in sorted(all_commands):
    for flags in (0x80, 0x00):
        data = enc_msg(flags, code, 4, 0x11111111, 0x22222222, [])
        assert len(data) == 20
        msg = Message.from_bytes(data)
        got = tree_of(msg.avps)
        found = msg.find_avps((258, 0))          # Auth-Application-Id
        out = msg.as_bytes()
        if got or found or out != data:
            bad.append((code, flags, type(msg).__name__, got, len(found), out))

for code, flags, name, got, nfound, out in bad:
    print(f"command {code} flags 0x{flags:02x} -> {name}: wire has 0 AVPs, "
          f"decoded message reports {len(got)}: {got}; "
          f"find_avps((258, 0)) returned {nfound} AVP(s); "
          f"re-encoded length {len(out)} (wire 20)")

# The same happens for non-empty messages that legitimately lack the AVP: an
# RFC 6733 section 7.2 protocol-error answer ('E' bit; its ABNF has no
# Auth-Application-Id) to a Credit-Control-Request, e.g. produced by a relay.
M = 0x40
err_tree = [
    (263, 0, M, b"client.example.org;1;1"),       # Session-Id
    (264, 0, M, b"relay.example.org"),            # Origin-Host
    (296, 0, M, b"example.org"),                  # Origin-Realm
    (268, 0, M, struct.pack(">I", 3002)),         # Result-Code UNABLE_TO_DELIVER
]
data = enc_msg(0x60, 272, 4, 0x11111111, 0x22222222, err_tree)
msg = Message.from_bytes(data)
got = tree_of(msg.avps)
found = msg.find_avps((258, 0))
print(f"E-bit answer to command 272 -> {type(msg).__name__}: wire codes "
      f"{[n[0] for n in err_tree]}, decoded codes {[n[0] for n in got]}, "
      f"find_avps((258, 0)) returned {len(found)} AVP(s)")
if sorted(got) != sorted(norm(err_tree)) or found:
    bad.append((272, 0x60, type(msg).__name__, got, len(found), b""))

if bad:
    print(f"VIOLATION in {len(bad)} cases ({2 * len(all_commands)} header-only "
          "messages + 1 error answer tried): the property requires the decoded AVP sequence to be "
          "'identical to the wire' (no Auth-Application-Id on it) and a search to return 'exactly the "
          "AVPs located at that path of the tree' (here: none)")
    sys.exit(1)
print("OK: every AVP-less message decodes to an AVP-less message")
sys.exit(0)
