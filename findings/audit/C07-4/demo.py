"""C07 finding 4: the answer to a request received on connection B is
transmitted on connection A.

The configured peer cli.example.net opens a second transport connection and
sends a CER on it while its first connection is still up (e.g. a peer that
reconnects before it noticed / tore down the old association).  Node.receive_cer
accepts it (CEA 2001), so two ready connections now carry the same host
identity.  A request that arrives on the SECOND connection is recorded under
the host identity only, and Node.route_answer picks the FIRST connection with
that host identity: the answer is written to connection A, which never
received that request, and connection B never gets one.

exit 1 = an answer was transmitted on a connection that did not receive the
         request (violation)
exit 0 = every transmitted answer matches a request received on the same
         connection
"""
import logging
import socket
import sys
import time

from diameter.message import Message, MessageHeader
from diameter.message.commands import CapabilitiesExchangeRequest, CreditControlRequest
from diameter.message.constants import *
from diameter.node import Node
from diameter.node.application import SimpleThreadingApplication
from diameter.node.peer import PeerConnection, PEER_RECV, PEER_CONNECTED, PEER_READY, PEER_TRANSPORT_TCP

logging.disable(logging.CRITICAL)


def decode_stream(buf: bytes) -> list[Message]:
    out = []
    while len(buf) >= 20:
        hdr = MessageHeader.from_bytes(buf)
        out.append(Message.from_bytes(buf[:hdr.length]))
        buf = buf[hdr.length:]
    return out


def wait_for(cond, timeout=5.0):
    end = time.time() + timeout
    while time.time() < end:
        if cond():
            return True
        time.sleep(0.02)
    return cond()


node = Node("srv.example.net", "example.net")
peer = node.add_peer("aaa://cli.example.net", "example.net")


def handle_request(app, req):
    ans = app.generate_answer(req, result_code=E_RESULT_CODE_DIAMETER_SUCCESS)
    ans.cc_request_type = req.cc_request_type
    ans.cc_request_number = req.cc_request_number
    return ans


app = SimpleThreadingApplication(APP_DIAMETER_CREDIT_CONTROL_APPLICATION,
                                 is_auth_application=True,
                                 request_handler=handle_request)
node.add_application(app, [peer])

socks = []


def new_inbound_connection() -> PeerConnection:
    # what Node._handle_connections does when a listening socket accepts
    a, b = socket.socketpair()
    socks.extend([a, b])
    conn = PeerConnection("10.0.0.1", 3868, PEER_RECV, interrupt_fileno=node.interrupt_write)
    conn.state = PEER_CONNECTED
    assert node._add_peer_connection(conn, a, PEER_TRANSPORT_TCP) is not None
    return conn


def cer(hbh: int, e2e: int) -> bytes:
    m = CapabilitiesExchangeRequest()
    m.header.hop_by_hop_identifier = hbh
    m.header.end_to_end_identifier = e2e
    m.origin_host = b"cli.example.net"
    m.origin_realm = b"example.net"
    m.host_ip_address = "10.0.0.1"
    m.vendor_id = 1
    m.product_name = "demo"
    m.auth_application_id = [APP_DIAMETER_CREDIT_CONTROL_APPLICATION]
    return m.as_bytes()


def ccr(hbh: int, e2e: int, session: str) -> bytes:
    m = CreditControlRequest()
    m.header.application_id = APP_DIAMETER_CREDIT_CONTROL_APPLICATION
    m.header.hop_by_hop_identifier = hbh
    m.header.end_to_end_identifier = e2e
    m.session_id = session
    m.origin_host = b"cli.example.net"
    m.origin_realm = b"example.net"
    m.destination_realm = b"example.net"
    m.auth_application_id = APP_DIAMETER_CREDIT_CONTROL_APPLICATION
    m.service_context_id = "demo@example.net"
    m.cc_request_type = E_CC_REQUEST_TYPE_EVENT_REQUEST
    m.cc_request_number = 0
    return m.as_bytes()


received = {"A": [], "B": []}

conn_a = new_inbound_connection()
conn_a.add_in_bytes(cer(1, 11))
received["A"].append((1, 11))
assert wait_for(lambda: conn_a.state == PEER_READY)

conn_b = new_inbound_connection()
conn_b.add_in_bytes(cer(2, 22))
received["B"].append((2, 22))
wait_for(lambda: len(decode_stream(conn_b.write_buffer)) >= 1)
cea_b = decode_stream(conn_b.write_buffer)
print("second CER of the same host answered with result-code",
      cea_b[0].result_code if cea_b else None,
      "- connection B ready:", conn_b.state == PEER_READY)

if conn_b.state == PEER_READY:
    conn_b.add_in_bytes(ccr(300, 3333, "cli;300"))
    received["B"].append((300, 3333))


def answers(conn):
    return [m for m in decode_stream(conn.write_buffer) if not m.header.is_request]


wait_for(lambda: len(answers(conn_a)) + len(answers(conn_b)) >= 3, timeout=4)
time.sleep(0.2)

bad = 0
for name, conn in (("A", conn_a), ("B", conn_b)):
    print(f"connection {name} ({conn.host_identity}, id {conn.ident}):")
    print(f"   requests received (hop-by-hop, end-to-end): {received[name]}")
    for m in answers(conn):
        key = (m.header.hop_by_hop_identifier, m.header.end_to_end_identifier)
        ok = key in received[name]
        if ok:
            received[name].remove(key)
        else:
            bad += 1
        print(f"   answer transmitted: {m.name} hop-by-hop={key[0]} end-to-end={key[1]}  "
              f"{'ok' if ok else '<-- no such request was received on this connection'}")

print("property C07 requires: every answer 'answers exactly one request previously "
      "received on that same connection and not yet answered'")

app.stop()
conn_a.close(signal_node=False)
conn_b.close(signal_node=False)
for s in socks:
    s.close()

if bad:
    print(f"VIOLATION: {bad} answer(s) transmitted on a connection that never received the request")
    sys.exit(1)
print("ok")
sys.exit(0)
