"""C18 finding 2: after a transient accept() failure the node can no longer be
stopped cleanly - stop() returns with the peer socket still open, the DPR
never transmitted and the connection worker threads still running.

Node._handle_connections calls rsock.accept() without any error handling.
A single failing accept() (here: EMFILE, the process is momentarily out of
file descriptors; ECONNABORTED/ENFILE/ENOBUFS behave the same) terminates the
connection thread.  Node.stop() relies exclusively on that thread to transmit
the DPR, to close the peer sockets and to stop the PeerConnection workers, and
never checks that it is still alive.
"""
import os
import resource
import socket
import sys
import threading
import time

from diameter.message import Message, constants
from diameter.message.commands import CapabilitiesExchangeRequest
from diameter.node import Node
from diameter.node.application import SimpleThreadingApplication

_rx = {}


def read_msg(sock, timeout=None):
    """Read exactly one diameter message; None on EOF/reset, "timeout" if
    nothing at all arrives within `timeout`."""
    sock.settimeout(timeout)
    buf = _rx.get(sock, b"")
    try:
        while len(buf) < 20 or len(buf) < int.from_bytes(buf[1:4], "big"):
            chunk = sock.recv(4096)
            if not chunk:
                return None
            buf += chunk
    except socket.timeout:
        return "timeout"
    except OSError:
        return None
    length = int.from_bytes(buf[1:4], "big")
    _rx[sock] = buf[length:]
    return Message.from_bytes(buf[:length])


probe = socket.socket()
probe.bind(("127.0.0.1", 0))
port = probe.getsockname()[1]
probe.close()

node = Node("node.example.org", "example.org",
            ip_addresses=["127.0.0.1"], tcp_port=port)
node.wakeup_interval = 1
peer = node.add_peer("aaa://peer.example.org", "example.org")
app = SimpleThreadingApplication(constants.APP_DIAMETER_BASE_ACCOUNTING,
                                 is_acct_application=True)
node.add_application(app, [peer])
node.start()

# ---- one remote peer becomes ready ------------------------------------------
remote = socket.create_connection(("127.0.0.1", port))
cer = CapabilitiesExchangeRequest()
cer.header.hop_by_hop_identifier = 1
cer.header.end_to_end_identifier = 1
cer.origin_host = b"peer.example.org"
cer.origin_realm = b"example.org"
cer.host_ip_address = ["127.0.0.1"]
cer.vendor_id = 99999
cer.product_name = "remote"
cer.acct_application_id = [constants.APP_DIAMETER_BASE_ACCOUNTING]
remote.sendall(cer.as_bytes())
cea = read_msg(remote, 5)
assert cea.result_code == constants.E_RESULT_CODE_DIAMETER_SUCCESS
app.wait_for_ready(5)
conn = peer.connection
node_side_socket = node.peer_sockets[conn.ident]

# ---- fault: the process is out of file descriptors for one accept() --------
second = socket.socket()            # allocated before the limit is lowered
soft, hard = resource.getrlimit(resource.RLIMIT_NOFILE)
fillers = []
highest = max(int(f) for f in os.listdir("/proc/self/fd"))
while True:                         # plug every free descriptor below `highest`
    fd = os.dup(0)
    if fd > highest:
        os.close(fd)
        break
    fillers.append(fd)
resource.setrlimit(resource.RLIMIT_NOFILE, (highest + 1, hard))
second.connect(("127.0.0.1", port))
node._connection_thread.join(5)     # accept() raises EMFILE in the node
resource.setrlimit(resource.RLIMIT_NOFILE, (soft, hard))
for fd in fillers:
    os.close(fd)
print(f"fault injected: one accept() failed with EMFILE; connection thread "
      f"alive: {node._connection_thread.is_alive()}")

# ---- graceful stop, fault long gone ----------------------------------------
t0 = time.time()
stop_error = None
try:
    node.stop(wait_timeout=3)
except Exception as e:
    stop_error = e
print(f"Node.stop(wait_timeout=3) "
      f"{'returned' if stop_error is None else 'raised ' + repr(stop_error)} "
      f"after {time.time() - t0:.1f}s")

time.sleep(6)       # PeerConnection workers poll their stop flag every 5 s

from_node = read_msg(remote, 1)
dpr_seen = (isinstance(from_node, Message) and
            from_node.header.command_code == constants.CMD_DISCONNECT_PEER)
socket_open = node_side_socket.fileno() != -1
remote_sees_close = from_node is None
workers_alive = [t.name for t in (conn._read_thread, conn._write_thread)
                 if t.is_alive()]

print(f"observed: DPR received by the ready peer: {dpr_seen}")
print(f"observed: node-side peer socket still open: {socket_open} "
      f"(remote end saw close/reset: {remote_sees_close}); "
      f"node.connections={len(node.connections)}")
print(f"observed: connection worker threads still alive: {workers_alive}")
print("required: a DPR reaches every ready peer; when stop returns every "
      "listening and peer socket is closed and all node and connection "
      "worker threads terminate")

violated = (not dpr_seen) or socket_open or bool(workers_alive)

# clean up so that the demo terminates
for c in list(node.connections.values()):
    c.close(signal_node=False)
for s in list(node.peer_sockets.values()):
    s.close()
remote.close()
second.close()

if violated:
    print("VIOLATION")
    sys.exit(1)
print("ok")
sys.exit(0)
