"""C12 / finding 1: a CER (or CEA) that arrives after a DPR has been answered puts
the connection back into PEER_READY (offered for routing again) and erases the
peer's DISCONNECT_REASON_DPR.

Run: PYTHONPATH=/repo/src /venv/bin/python /repo/_audit/1/demo.py
"""
import socket
import sys
import time

from diameter.message import Message, constants
from diameter.message.commands import (CapabilitiesExchangeRequest,
                                       CapabilitiesExchangeAnswer,
                                       DisconnectPeerRequest,
                                       CreditControlRequest)
from diameter.node import Node
from diameter.node.application import Application
from diameter.node.peer import *

PEER = "peer.remote.realm"


def wait_for(cond, timeout=5.0):
    end = time.time() + timeout
    while time.time() < end:
        if cond():
            return True
        time.sleep(0.01)
    return cond()


def cer():
    m = CapabilitiesExchangeRequest()
    m.header.hop_by_hop_identifier = 1
    m.header.end_to_end_identifier = 1
    m.origin_host = PEER.encode()
    m.origin_realm = b"remote.realm"
    m.host_ip_address = "127.0.0.1"
    m.vendor_id = 99999
    m.product_name = "fake peer"
    m.auth_application_id = [constants.APP_DIAMETER_CREDIT_CONTROL_APPLICATION]
    return m


def cea(hbh):
    m = CapabilitiesExchangeAnswer()
    m.header.hop_by_hop_identifier = hbh
    m.header.end_to_end_identifier = hbh
    m.result_code = constants.E_RESULT_CODE_DIAMETER_SUCCESS
    m.origin_host = PEER.encode()
    m.origin_realm = b"remote.realm"
    m.host_ip_address = "127.0.0.1"
    m.vendor_id = 99999
    m.product_name = "fake peer"
    m.auth_application_id = [constants.APP_DIAMETER_CREDIT_CONTROL_APPLICATION]
    return m


def dpr(hbh):
    m = DisconnectPeerRequest()
    m.header.hop_by_hop_identifier = hbh
    m.header.end_to_end_identifier = hbh
    m.origin_host = PEER.encode()
    m.origin_realm = b"remote.realm"
    m.disconnect_cause = constants.E_DISCONNECT_CAUSE_DO_NOT_WANT_TO_TALK_TO_YOU
    return m


_real_time = time.time
_clock_offset = [0.0]
time.time = lambda: _real_time() + _clock_offset[0]   # virtual clock


def run(variant):
    """variant: 'CER' or 'CEA' - the message the peer sends after its DPR."""
    # the peer's listening socket: every dial of the node shows up here
    listener = socket.socket(socket.AF_INET, socket.SOCK_STREAM)
    listener.bind(("127.0.0.1", 0))
    listener.listen(5)
    listener.settimeout(1.5)
    port = listener.getsockname()[1]

    node = Node("node.local.realm", "local.realm")
    peer = node.add_peer(f"aaa://{PEER}:{port}", "remote.realm", ["127.0.0.1"],
                         is_persistent=True)
    peer.reconnect_wait = 5
    assert peer.persistent and not peer.always_reconnect
    app = Application(constants.APP_DIAMETER_CREDIT_CONTROL_APPLICATION,
                      is_auth_application=True)
    node.add_application(app, [peer])

    # an inbound connection, exactly as Node._handle_connections creates it
    # after accept(); the node is not started so that no real traffic flows
    ours, theirs = socket.socketpair()
    conn = PeerConnection("127.0.0.1", 40000, PEER_RECV,
                          interrupt_fileno=node.interrupt_write)
    conn.state = PEER_CONNECTED
    node._add_peer_connection(conn, ours, PEER_TRANSPORT_TCP)
    sent = []
    conn.add_out_msg = sent.append
    bad = []
    try:
        conn.add_in_bytes(cer().as_bytes())
        assert wait_for(lambda: conn.state == PEER_READY), "CER not accepted"
        assert peer.connection is conn

        conn.add_in_bytes(dpr(2).as_bytes())
        assert wait_for(lambda: conn.state == PEER_DISCONNECTING), "no DPR handling"
        dpa = sent[-1]
        print(f"[{variant}] DPR answered with {dpa.name} "
              f"result_code={dpa.result_code}, state=DISCONNECTING, "
              f"disconnect_reason={peer.disconnect_reason:#x}")
        assert dpa.header.command_code == 282 and dpa.result_code == 2001
        assert peer.disconnect_reason == DISCONNECT_REASON_DPR

        # the peer now sends one more capabilities-exchange message on the
        # connection it has just asked to be disconnected
        follow_up = cer() if variant == "CER" else cea(3)
        n_sent = len(sent)
        conn.add_in_bytes(follow_up.as_bytes())
        if variant == "CER":
            wait_for(lambda: len(sent) > n_sent, 3)
        else:
            wait_for(lambda: conn.state != PEER_DISCONNECTING, 3)
        time.sleep(0.2)

        routed = None
        req = CreditControlRequest()
        req.header.end_to_end_identifier = 77
        req.destination_realm = b"remote.realm"
        try:
            routed, _ = node.route_request(app, req)
        except Exception as e:
            print(f"[{variant}] route_request raised {type(e).__name__}: {e}")

        print(f"[{variant}] after the follow-up {variant}: state={conn.state:#x} "
              f"(READY={PEER_READY:#x}, DISCONNECTING={PEER_DISCONNECTING:#x}), "
              f"route_request -> {routed}, "
              f"peer.disconnect_reason={peer.disconnect_reason}")
        if conn.state in PEER_READY_STATES or routed is not None:
            bad.append("connection is offered for routing again after the "
                       "DPR/DPA exchange")
        if peer.disconnect_reason != DISCONNECT_REASON_DPR:
            bad.append("peer.disconnect_reason no longer records the DPR")

        # consequence for the reconnect policy: the peer is persistent and NOT
        # always_reconnect, so after this DPR it must not be dialled again
        node.close_connection_socket(conn, DISCONNECT_REASON_GONE_AWAY)
        print(f"[{variant}] after the peer closed the socket: "
              f"disconnect_reason={peer.disconnect_reason:#x} "
              f"(DPR would be {DISCONNECT_REASON_DPR:#x})")
        _clock_offset[0] += peer.reconnect_wait + 1      # clock advance
        node._reconnect_peers()
        try:
            dialled, addr = listener.accept()
            dialled.close()
        except socket.timeout:
            dialled = None
        print(f"[{variant}] clock advanced past reconnect_wait, "
              f"_reconnect_peers ran: node dialled the peer: {dialled is not None}")
        if dialled:
            bad.append("persistent, not always_reconnect peer is dialled again "
                       "although the loss followed a DPR")
    finally:
        for c in [conn] + list(node.connections.values()):
            c.close(signal_node=False)
        for sck in [ours, theirs, listener] + list(node.peer_sockets.values()):
            sck.close()
    return bad


def main():
    problems = []
    for variant in ("CEA", "CER"):
        for b in run(variant):
            problems.append(f"{variant}: {b}")
    print()
    print("REQUIRED: after a DPR has been answered with DPA 2001 the connection "
          "is no longer offered for routing and the peer's disconnect reason "
          "records the DPR (so a not-always_reconnect peer is not dialled).")
    if problems:
        print("OBSERVED violations:")
        for p in problems:
            print("  -", p)
        return 1
    print("OBSERVED: property holds")
    return 0


if __name__ == "__main__":
    sys.exit(main())
