"""C18 finding 4: on DPA the connection is closed although an answer is still
pending in the connection's outgoing message queue - the pending output is
discarded instead of flushed.

receive_dpa puts the connection into PEER_CLOSING and wakes the connection
thread, which closes the socket as soon as `conn.write_buffer` is empty.
Pending output however lives in two places: messages handed to
PeerConnection.add_out_msg() wait in `_write_msg_queue` until the write worker
thread has encoded them into `write_buffer`.  The close decision looks at the
byte buffer only, so anything the write worker has not picked up yet is lost.

Schedule: the peer answers the node's DPR with "DWR, DPA" back to back.  The
read worker queues the DWA and then processes the DPA; the write worker is a
little slower than the read worker and the connection thread.  That slowness
is produced here in a legitimate way, by a (lock free) logging handler on the
"diameter.peer" logger that takes up to 3 s for the write worker's own
"sent diameter message Disconnect-Peer" debug line - i.e. the write worker is
still busy logging the DPR it just encoded while the DPA already comes back.
"""
import logging
import socket
import sys
import threading
import time

from diameter.message import Message, constants
from diameter.message.commands import (CapabilitiesExchangeRequest,
                                       DeviceWatchdogRequest)
from diameter.node import Node
from diameter.node.application import SimpleThreadingApplication

_rx = {}


def read_msg(sock, timeout=None):
    sock.settimeout(timeout)
    buf = _rx.get(sock, b"")
    try:
        while len(buf) < 20 or len(buf) < int.from_bytes(buf[1:4], "big"):
            chunk = sock.recv(4096)
            if not chunk:
                return None
            buf += chunk
    except socket.timeout:
        return "timeout"
    except OSError:
        return None
    length = int.from_bytes(buf[1:4], "big")
    _rx[sock] = buf[length:]
    return Message.from_bytes(buf[:length])


release = threading.Event()


class SlowHandler(logging.Handler):
    """A slow log sink (think: remote syslog); only the write worker's line
    about the DPR is slow, and never for more than 3 seconds."""
    def createLock(self):
        self.lock = None

    def emit(self, record):
        if "sent diameter message Disconnect-Peer" in record.getMessage():
            release.wait(3)


peer_logger = logging.getLogger("diameter.peer")
peer_logger.setLevel(logging.DEBUG)
peer_logger.addHandler(SlowHandler())
peer_logger.propagate = False

probe = socket.socket()
probe.bind(("127.0.0.1", 0))
port = probe.getsockname()[1]
probe.close()

node = Node("node.example.org", "example.org",
            ip_addresses=["127.0.0.1"], tcp_port=port)
node.wakeup_interval = 1
peer = node.add_peer("aaa://peer.example.org", "example.org")
app = SimpleThreadingApplication(constants.APP_DIAMETER_BASE_ACCOUNTING,
                                 is_acct_application=True)
node.add_application(app, [peer])
node.start()

remote = socket.create_connection(("127.0.0.1", port))
cer = CapabilitiesExchangeRequest()
cer.header.hop_by_hop_identifier = 1
cer.header.end_to_end_identifier = 1
cer.origin_host = b"peer.example.org"
cer.origin_realm = b"example.org"
cer.host_ip_address = ["127.0.0.1"]
cer.vendor_id = 99999
cer.product_name = "remote"
cer.acct_application_id = [constants.APP_DIAMETER_BASE_ACCOUNTING]
remote.sendall(cer.as_bytes())
cea = read_msg(remote, 5)
assert cea.result_code == constants.E_RESULT_CODE_DIAMETER_SUCCESS
app.wait_for_ready(5)
conn = peer.connection

stop_done = threading.Event()


def stopper():
    node.stop(wait_timeout=15)
    stop_done.set()


t0 = time.time()
threading.Thread(target=stopper, daemon=True).start()

dpr = read_msg(remote, 5)
assert (dpr.header.command_code == constants.CMD_DISCONNECT_PEER
        and dpr.header.is_request)
assert dpr.disconnect_cause == constants.E_DISCONNECT_CAUSE_REBOOTING

dwr = DeviceWatchdogRequest()
dwr.header.hop_by_hop_identifier = 7
dwr.header.end_to_end_identifier = 7
dwr.origin_host = b"peer.example.org"
dwr.origin_realm = b"example.org"
dpa = dpr.to_answer()
dpa.origin_host = b"peer.example.org"
dpa.origin_realm = b"example.org"
dpa.result_code = constants.E_RESULT_CODE_DIAMETER_SUCCESS
remote.sendall(dwr.as_bytes() + dpa.as_bytes())

received = []
while True:
    m = read_msg(remote, 10)
    if not isinstance(m, Message):
        end = m
        break
    received.append(m)
closed_after = time.time() - t0
left_in_queue = conn._write_msg_queue.qsize()
release.set()
stop_done.wait(20)

dwa_seen = any(m.header.command_code == constants.CMD_DEVICE_WATCHDOG
               and not m.header.is_request for m in received)
print(f"observed: peer answered the DPR with DWR + DPA; node closed the "
      f"connection ({'reset/close' if end is None else end}) {closed_after:.2f}s "
      f"after stop() began")
print(f"observed: DWA received before the close: {dwa_seen}; messages left "
      f"un-encoded in the connection's output queue at close: {left_in_queue}")
print("required: the connection is closed once its DPA has arrived AND its "
      "pending output has been flushed")

violated = not dwa_seen

for c in list(node.connections.values()):
    c.close(signal_node=False)
remote.close()

if violated:
    print("VIOLATION")
    sys.exit(1)
print("ok")
sys.exit(0)
