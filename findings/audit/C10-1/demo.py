"""
C10 finding 1: an answer that arrives just as the blocked sender's wait times
out is swallowed: the sender gets TimeoutError AND the answer is never passed
to Application.handle_answer.

The schedule (answer thread runs between `waiting.event.wait()` returning False
and the `del self._answer_waiting[...]` in the finally block of
Application.send_request) is forced deterministically by giving WaitingMessage
an Event whose wait() - after the REAL wait has genuinely timed out - lets the
peer's answer come in over the connection (conn.add_in_bytes) and waits until
the node has dispatched it, before returning the (already decided) False.
"""
import sys
import threading
import time

from diameter.message import constants
from diameter.message.commands import (CapabilitiesExchangeAnswer,
                                       CreditControlRequest, Message)
from diameter.node import Node
from diameter.node import application as app_mod
from diameter.node.application import Application
from diameter.node.peer import (PeerConnection, PEER_SEND, PEER_CONNECTED,
                                PEER_TRANSPORT_TCP, PEER_READY)


class FakeSocket:
    _n = 1000

    def __init__(self):
        FakeSocket._n += 1
        self._fileno = FakeSocket._n

    def fileno(self):
        return self._fileno

    def close(self):
        pass

    def setsockopt(self, *a):
        pass


def connect_ready(node, peer, sent):
    """Does what Node._connect_to_peer does, minus the real socket, then lets
    the peer answer the CER with a successful CEA over the wire."""
    conn = PeerConnection(peer.ip_addresses, peer.port, PEER_SEND,
                          node.interrupt_write)
    conn.state = PEER_CONNECTED
    conn.node_name = peer.node_name
    conn.origin_host = node.origin_host
    conn.host_ip_address = ["127.0.0.1"]
    real_add = conn.add_out_msg

    def recorder(msg):
        sent.append((conn, msg))
        real_add(msg)
    conn.add_out_msg = recorder
    node._add_peer_connection(conn, FakeSocket(), PEER_TRANSPORT_TCP)
    node.send_cer(conn)
    cer = sent[-1][1]
    cea = CapabilitiesExchangeAnswer()
    cea.header.hop_by_hop_identifier = cer.header.hop_by_hop_identifier
    cea.header.end_to_end_identifier = cer.header.end_to_end_identifier
    cea.result_code = constants.E_RESULT_CODE_DIAMETER_SUCCESS
    cea.origin_host = peer.node_name.encode()
    cea.origin_realm = peer.realm_name.encode()
    cea.host_ip_address = "10.0.0.1"
    cea.vendor_id = 99999
    cea.product_name = "fake"
    cea.auth_application_id = [constants.APP_DIAMETER_CREDIT_CONTROL_APPLICATION]
    conn.add_in_bytes(cea.as_bytes())
    deadline = time.time() + 10
    while conn.state != PEER_READY and time.time() < deadline:
        time.sleep(0.01)
    assert conn.state == PEER_READY, "connection did not become ready"
    return conn


class RecordingApp(Application):
    def __init__(self, *a, **kw):
        super().__init__(*a, **kw)
        self.unexpected = []
        self.dispatched = threading.Event()

    def handle_request(self, message):
        pass

    def handle_answer(self, message):
        self.unexpected.append(message)

    def receive_answer(self, message):
        try:
            super().receive_answer(message)
        finally:
            self.dispatched.set()


node = Node("client.realm.net", "realm.net")
peer = node.add_peer("aaa://srv.realm.net", "realm.net", ["10.0.0.1"])
app = RecordingApp(constants.APP_DIAMETER_CREDIT_CONTROL_APPLICATION,
                   is_auth_application=True)
node.add_application(app, [peer])
sent = []
conn = connect_ready(node, peer, sent)

state = {}


class RacingEvent(threading.Event):
    """A threading.Event; wait() really waits and really times out. Only the
    *moment at which the answering thread gets the CPU* is pinned down: right
    after the timeout has been decided, before send_request resumes."""
    def wait(self, timeout=None):
        got = super().wait(timeout)
        if got is False and "injected" not in state:
            state["injected"] = True
            req = sent[-1][1]
            ans = req.to_answer()
            ans.session_id = req.session_id
            ans.origin_host = b"srv.realm.net"
            ans.origin_realm = b"realm.net"
            ans.result_code = constants.E_RESULT_CODE_DIAMETER_SUCCESS
            ans.auth_application_id = req.auth_application_id
            ans.cc_request_type = req.cc_request_type
            ans.cc_request_number = req.cc_request_number
            state["answer_ids"] = (ans.header.hop_by_hop_identifier,
                                   ans.header.end_to_end_identifier)
            conn.add_in_bytes(ans.as_bytes())   # peer's answer on the wire
            app.dispatched.wait(10)             # node thread handles it now
        return got


class RacingWaiting(app_mod.WaitingMessage):
    def __init__(self):
        super().__init__()
        self.event = RacingEvent()


app_mod.WaitingMessage = RacingWaiting

ccr = CreditControlRequest()
ccr.session_id = node.session_generator.next_id()
ccr.origin_host = b"client.realm.net"
ccr.origin_realm = b"realm.net"
ccr.destination_realm = b"realm.net"
ccr.auth_application_id = constants.APP_DIAMETER_CREDIT_CONTROL_APPLICATION
ccr.service_context_id = "x@y"
ccr.cc_request_type = constants.E_CC_REQUEST_TYPE_EVENT_REQUEST
ccr.cc_request_number = 0

outcome = None
try:
    r = app.send_request(ccr, timeout=1)
    outcome = ("answer", r.header.hop_by_hop_identifier,
               r.header.end_to_end_identifier)
except TimeoutError:
    outcome = ("timeout",)
except Exception as e:
    outcome = ("other-exception", repr(e))

conn.close(signal_node=False)

req_ids = (ccr.header.hop_by_hop_identifier, ccr.header.end_to_end_identifier)
print(f"request ids (hbh, e2e)      : {req_ids}")
print(f"answer put on the wire      : {state.get('answer_ids')}")
print(f"node dispatched it to app   : {app.dispatched.is_set()}")
print(f"send_request outcome        : {outcome}")
print(f"handle_answer invocations   : {len(app.unexpected)}")
print("property requires: the blocked sender receives exactly the answer "
      "bearing its identifiers OR times out, and an answer nobody waits for "
      "is passed to the unexpected-answer handler of the sending application")

got_answer = outcome[0] == "answer" and outcome[1:] == req_ids
handled = (len(app.unexpected) == 1 and
           app.unexpected[0].header.hop_by_hop_identifier == req_ids[0])
if got_answer != handled and outcome[0] in ("answer", "timeout"):
    print("OK: the answer reached exactly one of the two destinations")
    sys.exit(0)
print("VIOLATION: the answer was delivered to nobody (sender timed out, "
      "handle_answer not called)" if not got_answer and not handled else
      "VIOLATION: unexpected outcome")
sys.exit(1)
