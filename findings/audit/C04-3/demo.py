"""
C04 / finding 3

diameter.message.dump() - the library's documented way of rendering a decoded
message as text ("Will work also on unknown AVPs and message command codes")
- raises AvpDecodeError when the decoded message carries a Grouped AVP whose
payload is not a valid AVP sequence and which is not one of the message's
typed attributes (or when the message was decoded with plain_msg=True).

str(avp) on that very AVP works (it prints "Val: (unset)"), because
Avp.__str__ catches AvpDecodeError; _dump_avps() however calls
single_avp.value a second time, unguarded, in order to recurse.

Property clause: "rendering any decoded AVP or message header as text never
raises".
"""
import logging
import struct
import sys

from diameter.message import Message, dump, constants

logging.disable(logging.CRITICAL)


def avp(code: int, payload: bytes, flags: int = 0x40) -> bytes:
    pad = b"\0" * (-len(payload) % 4)
    return struct.pack(">II", code, (flags << 24) | (8 + len(payload))) + payload + pad


# A Device-Watchdog-Request carrying one additional Grouped AVP
# (Subscription-Id, 443) with 5 bytes of garbage as its payload
body = (avp(constants.AVP_ORIGIN_HOST, b"peer.example.org") +
        avp(constants.AVP_ORIGIN_REALM, b"example.org") +
        avp(constants.AVP_SUBSCRIPTION_ID, b"\xff\xff\xff\xff\xff"))
dwr = struct.pack(">IIIII", (1 << 24) | (20 + len(body)), (0x80 << 24) | 280, 0, 1, 2) + body

failures = 0
for plain in (False, True):
    msg = Message.from_bytes(dwr, plain_msg=plain)
    print(f"decoded (plain_msg={plain}): {type(msg).__name__}: {msg}")
    for a in msg.avps:
        print(f"   str(avp): {a}")
    try:
        text = dump(msg)
        print(f"OK        dump(msg) returned {len(text)} characters")
    except Exception as e:
        failures += 1
        print(f"VIOLATION dump(msg) raised {type(e).__name__}: {e}")

print()
print("property requires: rendering a decoded message / its AVPs as text "
      "never raises")
print(f"observed: dump() raised for {failures} of 2 successfully decoded "
      f"messages")
sys.exit(1 if failures else 0)
