"""C12 / finding 4: the reconnect policy looks only at Peer.connection, which can be
None while the node still holds a live, READY connection with that peer.  A peer
that re-connects to the node while the node still believes in the old (half-open)
connection gets its new connection accepted but NOT recorded in Peer.connection
(_assign_peer_connection keeps the old one).  When the old connection is finally
dropped, Peer.connection becomes None and, after reconnect_wait, the node dials
the persistent peer although it already has a connection with it.

Node is driven directly (not started); virtual clock; the peer's listening
socket shows the dial.
Run: PYTHONPATH=/repo/src /venv/bin/python /repo/_audit/4/demo.py
"""
import socket
import sys
import time

from diameter.message import constants
from diameter.message.commands import CapabilitiesExchangeRequest
from diameter.node import Node
from diameter.node.peer import *

PEER = "peer.remote.realm"
_real_time = time.time
_offset = [0.0]
time.time = lambda: _real_time() + _offset[0]          # virtual clock


def wait_for(cond, timeout=5.0):
    end = _real_time() + timeout
    while _real_time() < end:
        if cond():
            return True
        time.sleep(0.01)
    return cond()


def cer(n):
    m = CapabilitiesExchangeRequest()
    m.header.hop_by_hop_identifier = n
    m.header.end_to_end_identifier = n
    m.origin_host = PEER.encode()
    m.origin_realm = b"remote.realm"
    m.host_ip_address = "127.0.0.1"
    m.vendor_id = 99999
    m.product_name = "fake peer"
    m.auth_application_id = [constants.APP_RELAY]
    return m


def inbound(node, port):
    """What Node._handle_connections does after accept()."""
    ours, theirs = socket.socketpair()
    conn = PeerConnection("127.0.0.1", port, PEER_RECV,
                          interrupt_fileno=node.interrupt_write)
    conn.state = PEER_CONNECTED
    node._add_peer_connection(conn, ours, PEER_TRANSPORT_TCP)
    return conn, ours, theirs


def main():
    listener = socket.socket(socket.AF_INET, socket.SOCK_STREAM)
    listener.bind(("127.0.0.1", 0))
    listener.listen(5)
    listener.settimeout(1.5)

    node = Node("node.local.realm", "local.realm")
    peer = node.add_peer(f"aaa://{PEER}:{listener.getsockname()[1]}",
                         "remote.realm", ["127.0.0.1"], is_persistent=True)
    peer.reconnect_wait = 5
    socks = [listener]
    conns = []
    try:
        # 1. the peer connects, CER/CEA completes
        a, s1, s2 = inbound(node, 40001)
        conns.append(a); socks += [s1, s2]
        a.add_in_bytes(cer(1).as_bytes())
        assert wait_for(lambda: a.state == PEER_READY)
        assert peer.connection is a
        print(f"A {a} READY, peer.connection is A")

        # 2. the peer loses the connection on its side (half-open for the node)
        #    and connects again; the node accepts the new connection
        b, s3, s4 = inbound(node, 40002)
        conns.append(b); socks += [s3, s4]
        b.add_in_bytes(cer(2).as_bytes())
        assert wait_for(lambda: b.state == PEER_READY), "second CER not accepted"
        print(f"B {b} READY, handled by node: {b.ident in node.connections}, "
              f"peer.connection is A: {peer.connection is a}")

        # 3. the node finally notices that A is dead (RST / zero read / DWA
        #    timeout all end in close_connection_socket)
        node.close_connection_socket(a, DISCONNECT_REASON_GONE_AWAY)
        print(f"A dropped: peer.connection={peer.connection}, "
              f"disconnect_reason={peer.disconnect_reason:#x}; "
              f"B state={b.state:#x} (READY={PEER_READY:#x}), "
              f"B.node_name={b.node_name}, B handled by node: "
              f"{b.ident in node.connections}")

        # 4. reconnect_wait elapses
        _offset[0] += peer.reconnect_wait + 1
        node._reconnect_peers()
        try:
            c, _ = listener.accept()
            socks.append(c)
            dialled = True
        except socket.timeout:
            dialled = False
        to_peer = [c for c in node.connections.values() if c.node_name == PEER]
        print(f"after reconnect_wait: node dialled the peer: {dialled}; "
              f"connections the node now holds with {PEER}: "
              f"{[(str(c), 'self-initiated' if c.is_sender else 'peer-initiated', hex(c.state)) for c in to_peer]}")
        conns += to_peer
    finally:
        for c in conns:
            c.close(signal_node=False)
        for s in socks + list(node.peer_sockets.values()):
            s.close()

    print("REQUIRED: a persistent peer is dialled again after reconnect_wait "
          "'unless it already has a connection' - B is a live READY connection "
          "with the peer, so no dial may happen.")
    if dialled:
        print("OBSERVED: the node dialled the peer although it holds connection B "
              "-> VIOLATION")
        return 1
    print("OBSERVED: no dial, property holds")
    return 0


if __name__ == "__main__":
    sys.exit(main())
