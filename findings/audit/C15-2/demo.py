"""
C15 / finding 2 -- an unencodable message is NOT "dropped alone": if encoding
fails with an exception that the writer's handler cannot deal with, the
connection's writer thread dies and every message queued afterwards is blocked
for ever (never handed to the transport).

PeerConnection.work_write_queue protects the encode step with

        except Exception as e:
            self.logger.warning(f"failed to encode ...: {e}; message discarded")

which (a) lets every BaseException that is not an Exception escape and
(b) formats the exception with str(e) INSIDE the handler, so an exception whose
__str__ raises escapes from the handler itself.  Either way the thread function
returns and nothing ever reads conn._write_msg_queue again.

Scenario: real TCP peer on loopback, CER/CEA, then the application queues with
the public Node.send_message():   DWR#1, BAD, DWR#2, DWR#3
where BAD is a Message whose encoding raises.  Two variants of BAD are tried on
two separate connections:
   variant A: as_bytes() raises an exception whose __str__ raises
   variant B: as_bytes() raises SystemExit (a BaseException)
A control variant (as_bytes() raises plain ValueError) shows the intended
behaviour.

Observation point: byte log of the server side socket's send() calls.
exit 1 = violation observed, exit 0 = library behaved as the property says.
"""
import logging
import socket
import sys
import threading
import time

from diameter.message import Message
from diameter.message.commands import (CapabilitiesExchangeRequest,
                                       DeviceWatchdogRequest)
from diameter.message.constants import (APP_RELAY,
                                        E_RESULT_CODE_DIAMETER_SUCCESS)
from diameter.node import Node

# keep the (expected) traceback of the dying thread out of the demo output
threading.excepthook = lambda args: print(
    f"    [thread {args.thread.name} died with {args.exc_type.__name__}]")

send_log: dict[int, bytearray] = {}
_orig_send = socket.socket.send


def _logging_send(self, data, *args):
    n = _orig_send(self, data, *args)
    send_log.setdefault(id(self), bytearray()).extend(bytes(data)[:n])
    return n


socket.socket.send = _logging_send


class BrokenStrError(Exception):
    def __str__(self):
        raise RuntimeError("cannot render this error")


class BadA(Message):
    def as_bytes(self):
        raise BrokenStrError()


class BadB(Message):
    def as_bytes(self):
        raise SystemExit(3)


class BadControl(Message):
    def as_bytes(self):
        raise ValueError("plain encode failure")


def read_msg(sock: socket.socket) -> bytes:
    buf = b""
    while len(buf) < 20:
        chunk = sock.recv(20 - len(buf))
        if not chunk:
            raise EOFError
        buf += chunk
    length = int.from_bytes(buf[1:4], "big")
    while len(buf) < length:
        chunk = sock.recv(length - len(buf))
        if not chunk:
            raise EOFError
        buf += chunk
    return buf


def split_messages(data: bytes) -> list[Message]:
    out = []
    while len(data) >= 20:
        length = int.from_bytes(data[1:4], "big")
        if length < 20 or length > len(data):
            break
        out.append(Message.from_bytes(data[:length]))
        data = data[length:]
    return out


def free_port() -> int:
    s = socket.socket()
    s.bind(("127.0.0.1", 0))
    p = s.getsockname()[1]
    s.close()
    return p


def dwr(node: Node, hbh: int) -> DeviceWatchdogRequest:
    m = DeviceWatchdogRequest()
    m.header.hop_by_hop_identifier = hbh
    m.header.end_to_end_identifier = hbh
    m.origin_host = node.origin_host.encode()
    m.origin_realm = node.realm_name.encode()
    return m


def run_variant(node: Node, port: int, label: str, bad: Message, base: int) -> bool:
    """Returns True if the good messages all reached the transport intact."""
    send_log.clear()
    client = socket.create_connection(("127.0.0.1", port), timeout=5)
    conn = None
    try:
        cer = CapabilitiesExchangeRequest()
        cer.header.hop_by_hop_identifier = base
        cer.header.end_to_end_identifier = base
        cer.origin_host = b"client.example.com"
        cer.origin_realm = b"example.com"
        cer.host_ip_address = "127.0.0.1"
        cer.vendor_id = 99999
        cer.product_name = "demo-peer"
        cer.auth_application_id = [APP_RELAY]
        client.sendall(cer.as_bytes())
        cea_bytes = read_msg(client)
        assert Message.from_bytes(cea_bytes).result_code == E_RESULT_CODE_DIAMETER_SUCCESS

        conn = list(node.connections.values())[0]
        sock_key = id(node.peer_sockets[conn.ident])

        good = [dwr(node, base + 1), dwr(node, base + 2), dwr(node, base + 3)]
        expected = cea_bytes + b"".join(m.as_bytes() for m in good)

        node.send_message(conn, good[0])
        node.send_message(conn, bad)
        node.send_message(conn, good[1])
        node.send_message(conn, good[2])

        deadline = time.time() + 4
        while time.time() < deadline:
            if bytes(send_log.get(sock_key, b"")) == expected:
                break
            time.sleep(0.02)
        handed = bytes(send_log.get(sock_key, b""))

        got = [f"{m.name} hbh={m.header.hop_by_hop_identifier}"
               for m in split_messages(handed)[1:]]
        print(f"  variant {label}: queued DWR#{base+1}, <unencodable>, "
              f"DWR#{base+2}, DWR#{base+3}")
        print(f"    handed to the transport after the CEA: {got}")
        print(f"    writer thread alive: {conn._write_thread.is_alive()}, "
              f"messages stuck in the queue: {conn._write_msg_queue.qsize()}")
        return handed == expected
    finally:
        try:
            client.close()
        except OSError:
            pass
        if conn is not None:
            node.close_connection_socket(conn)
            conn.close(signal_node=False)
        time.sleep(0.2)


def main() -> int:
    logging.getLogger("diameter").setLevel(logging.CRITICAL)
    port = free_port()
    node = Node("srv.example.com", "example.com",
                ip_addresses=["127.0.0.1"], tcp_port=port)
    node.wakeup_interval = 1
    node.idle_timeout = 600
    node.add_peer("aaa://client.example.com", "example.com")
    node.start()
    try:
        ok_control = run_variant(node, port, "control (ValueError)", BadControl(), 100)
        ok_a = run_variant(node, port, "A (exception whose __str__ raises)", BadA(), 200)
        ok_b = run_variant(node, port, "B (SystemExit, a BaseException)", BadB(), 300)
    finally:
        try:
            node.stop(wait_timeout=2, force=True)
        except Exception as e:  # noqa
            print(f"(node.stop: {e})")
        for c in list(node.connections.values()):
            c.close(signal_node=False)

    if not ok_control:
        print("UNEXPECTED: even the control variant lost messages")
    if ok_control and ok_a and ok_b:
        print("OK: the unencodable message was dropped alone in every variant")
        return 0
    print("VIOLATION OBSERVED: after the unencodable message the connection's "
          "writer thread is dead; DWR#2 and DWR#3, queued after it, are never "
          "handed to the transport (blocked for ever).")
    print("REQUIRED (C15): 'A message that cannot be encoded is dropped alone "
          "without corrupting, reordering or blocking the others.'")
    return 1


if __name__ == "__main__":
    rc = main()
    sys.stdout.flush()
    sys.exit(rc)
