"""
C10 finding 4: Node.route_request checks connection readiness only BEFORE the
selection callback runs and never again; Node.send_message does not look at
the connection state at all.  If the chosen peer stops being ready while the
request is being routed (here: its DPR arrives and is answered with DPA while
the custom peer_route_select_func is still deciding), the request is written
to a connection in PEER_DISCONNECTING state although another configured peer
is still ready.

The interleaving is pinned down with the selection callback itself: while it
is "thinking", the peer's Disconnect-Peer-Request comes in over the wire
(conn.add_in_bytes) and is processed by the connection's reader thread; the
callback then returns the peer it picked among exactly the peers it was
offered.
"""
import sys
import time

from diameter.message import constants
from diameter.message.commands import (CapabilitiesExchangeAnswer,
                                       CreditControlRequest,
                                       DisconnectPeerRequest)
from diameter.node import Node
from diameter.node.node import NotRoutable, state_names
from diameter.node.application import Application
from diameter.node.peer import (PeerConnection, PEER_SEND, PEER_CONNECTED,
                                PEER_TRANSPORT_TCP, PEER_READY,
                                PEER_READY_STATES)

APP = constants.APP_DIAMETER_CREDIT_CONTROL_APPLICATION


class FakeSocket:
    _n = 1000

    def __init__(self):
        FakeSocket._n += 1
        self._fileno = FakeSocket._n

    def fileno(self):
        return self._fileno

    def close(self):
        pass

    def setsockopt(self, *a):
        pass


class App(Application):
    def handle_request(self, message):
        pass


node = Node("client.realm.net", "realm.net")
peer_a = node.add_peer("aaa://a.realm.net", "realm.net", ["10.0.0.1"])
peer_b = node.add_peer("aaa://b.realm.net", "realm.net", ["10.0.0.2"])
app = App(APP, is_auth_application=True)
node.add_application(app, [peer_a, peer_b])

written = []      # (connection, message, connection state when written)


def connect_ready(peer):
    conn = PeerConnection(peer.ip_addresses, peer.port, PEER_SEND,
                          node.interrupt_write)
    conn.state = PEER_CONNECTED
    conn.node_name = peer.node_name
    conn.origin_host = node.origin_host
    conn.host_ip_address = ["127.0.0.1"]
    real_add = conn.add_out_msg

    def recorder(msg):
        written.append((conn, msg, conn.state))
        real_add(msg)
    conn.add_out_msg = recorder
    node._add_peer_connection(conn, FakeSocket(), PEER_TRANSPORT_TCP)
    node.send_cer(conn)
    cer = written[-1][1]
    cea = CapabilitiesExchangeAnswer()
    cea.header.hop_by_hop_identifier = cer.header.hop_by_hop_identifier
    cea.header.end_to_end_identifier = cer.header.end_to_end_identifier
    cea.result_code = constants.E_RESULT_CODE_DIAMETER_SUCCESS
    cea.origin_host = peer.node_name.encode()
    cea.origin_realm = peer.realm_name.encode()
    cea.host_ip_address = "10.0.0.1"
    cea.vendor_id = 99999
    cea.product_name = "fake"
    cea.auth_application_id = [APP]
    conn.add_in_bytes(cea.as_bytes())
    deadline = time.time() + 10
    while conn.state != PEER_READY and time.time() < deadline:
        time.sleep(0.01)
    assert conn.state == PEER_READY
    return conn


conn_a = connect_ready(peer_a)
conn_b = connect_ready(peer_b)
offered = []


def deliberate_select(node_, app_, message, peers):
    offered.append([p.node_name for p in peers])
    chosen = peers[0]
    # ... while the callback is deciding, the chosen peer announces that it
    # is going away (a perfectly regular DPR), handled by the reader thread:
    dpr = DisconnectPeerRequest()
    dpr.header.hop_by_hop_identifier = 0x7001
    dpr.header.end_to_end_identifier = 0x7002
    dpr.origin_host = chosen.node_name.encode()
    dpr.origin_realm = chosen.realm_name.encode()
    dpr.disconnect_cause = constants.E_DISCONNECT_CAUSE_REBOOTING
    chosen.connection.add_in_bytes(dpr.as_bytes())
    deadline = time.time() + 10
    while (chosen.connection.state in PEER_READY_STATES and
           time.time() < deadline):
        time.sleep(0.01)
    return chosen          # one of exactly the peers that were offered


node.peer_route_select_func = deliberate_select

ccr = CreditControlRequest()
ccr.session_id = node.session_generator.next_id()
ccr.origin_host = b"client.realm.net"
ccr.origin_realm = b"realm.net"
ccr.destination_realm = b"realm.net"
ccr.auth_application_id = APP
ccr.service_context_id = "x@y"
ccr.cc_request_type = constants.E_CC_REQUEST_TYPE_EVENT_REQUEST
ccr.cc_request_number = 0

try:
    app.send_request(ccr, timeout=0.3)
    outcome = "answered"
except NotRoutable as e:
    outcome = f"NotRoutable: {e}"
except TimeoutError:
    outcome = "sent, timed out waiting for the answer"

hits = [(c, st) for c, m, st in written if m is ccr]
state_b = conn_b.state
conn_a.close(signal_node=False)
conn_b.close(signal_node=False)

print(f"peers offered to the callback : {offered}")
print(f"send_request outcome          : {outcome}")
for c, st in hits:
    print(f"request written to            : {c.node_name}, connection state "
          f"at that moment = {state_names.get(st, hex(st))}")
if not hits:
    print("request written to            : nobody")
print(f"state of the other peer (b)   : {state_names.get(state_b)}")
print("property requires: a request is sent only to a peer ... whose "
      "connection is ready; when none exists NotRoutable is raised and "
      "nothing is sent")
bad = [(c, st) for c, st in hits if st not in PEER_READY_STATES]
if bad:
    print("VIOLATION: the request was written to a connection that was not "
          "ready (DPR received, DPA already queued) while peer b was READY")
    sys.exit(1)
print("OK")
sys.exit(0)
