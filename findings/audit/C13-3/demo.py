"""C13 finding 3.

Tear-down of a connection (node thread: "peer gone", socket error, CER/CEA/DWA
timeout, ...) and completion of the capabilities exchange (the connection's own
read thread: receive_cer / receive_cea) are not synchronised.  The only guard
is the state check in PeerConnection.__dispatch_message, made BEFORE the
handler runs.  If the node thread closes and removes the connection while the
read thread is inside receive_cer/receive_cea, the read thread afterwards
  * stores the closed, already removed connection in Peer.connection and
    resets Peer.disconnect_reason to None  (_assign_peer_connection),
  * overwrites the connection state CLOSED with READY and sets
    Application.is_ready                    (_flag_connection_as_ready).
Nothing ever undoes this: the peer looks connected for ever (so it is never
re-dialled and every later connection of that peer is left unassigned), and
the application reports ready with no connection at all.

To make the schedule deterministic the demo only installs a slow logging
filter on the public "diameter.node" logger (logging is synchronous, a slow
handler/filter is a legitimate configuration): the CER comes from a relay
agent, for which receive_cer logs one INFO line before it completes the
handshake.  While that line is being logged the peer closes its socket.
Real TCP on 127.0.0.1 against a started Node.
"""
import logging
import socket
import sys
import threading
import time

from diameter.message import constants
from diameter.message.commands import CapabilitiesExchangeRequest
from diameter.node import Node
from diameter.node.application import SimpleThreadingApplication
from diameter.node.peer import PEER_READY_STATES, PEER_CLOSED

PEER = "relay1.test.realm"
CC = constants.APP_DIAMETER_CREDIT_CONTROL_APPLICATION

in_handler = threading.Event()
go = threading.Event()


class SlowFilter(logging.Filter):
    def filter(self, record):
        if "relay agent" in record.getMessage() and not in_handler.is_set():
            in_handler.set()
            go.wait(20)          # "slow log sink"
        return True


logging.getLogger("diameter.node").setLevel(logging.INFO)
logging.getLogger("diameter.node").addFilter(SlowFilter())


def wait_until(cond, timeout=10.0):
    end = time.time() + timeout
    while time.time() < end:
        if cond():
            return True
        time.sleep(0.02)
    return cond()


tmp = socket.socket()
tmp.bind(("127.0.0.1", 0))
port = tmp.getsockname()[1]
tmp.close()

node = Node("srv.test.realm", "test.realm", ip_addresses=["127.0.0.1"],
            tcp_port=port)
node.wakeup_interval = 1
peer = node.add_peer(f"aaa://{PEER}")
app = SimpleThreadingApplication(CC, is_auth_application=True,
                                 request_handler=lambda a, m: None)
node.add_application(app, [peer])
node.start()

violations = []
s = None
try:
    s = socket.create_connection(("127.0.0.1", port), timeout=10)
    assert wait_until(lambda: len(node.connections) == 1)
    conn = next(iter(node.connections.values()))
    sock_obj = node.peer_sockets[conn.ident]

    cer = CapabilitiesExchangeRequest()
    cer.header.hop_by_hop_identifier = 1
    cer.header.end_to_end_identifier = 1
    cer.origin_host = PEER.encode()
    cer.origin_realm = b"test.realm"
    cer.host_ip_address = "127.0.0.1"
    cer.vendor_id = 99999
    cer.product_name = "demo-relay"
    cer.auth_application_id = constants.APP_RELAY
    s.sendall(cer.as_bytes())

    assert in_handler.wait(10), "receive_cer did not reach the relay log line"
    print(f"step 1: CER of {PEER} is being handled on the read thread of "
          f"{conn.ident} (inside receive_cer)")

    # step 2: peer gone - handled by the node thread
    s.close()
    assert wait_until(lambda: conn.ident not in node.connections)
    print(f"step 2: peer closed the socket; node thread removed {conn.ident}: "
          f"state={hex(conn.state)} (CLOSED={hex(PEER_CLOSED)}), "
          f"socket fileno={sock_obj.fileno()}, peer.connection="
          f"{peer.connection}, reason={peer.disconnect_reason}, "
          f"last_disconnect={peer.last_disconnect}")

    # step 3: the read thread continues
    go.set()
    wait_until(lambda: peer.connection is not None, 3)
    time.sleep(0.5)      # quiescent

    in_tables = (conn.ident in node.connections or
                 conn.ident in node.peer_sockets or
                 conn in node.socket_peers.values() or
                 conn.ident in node._half_ready_connections)
    print(f"step 3: read thread finished receive_cer")
    print(f"        connection {conn.ident}: in a node table={in_tables}, "
          f"socket closed={sock_obj.fileno() == -1}, state={hex(conn.state)}")
    print(f"        peer.connection        = {peer.connection}")
    print(f"        peer.disconnect_reason = {peer.disconnect_reason}")
    print(f"        app.is_ready           = {app.is_ready.is_set()}")
    print(f"        node.connections       = {list(node.connections)}")

    live = [c for c in node.connections.values()
            if PEER in (c.node_name, c.host_identity)]
    if peer.connection is not None and peer.connection not in live:
        violations.append(
            "Peer.connection references a connection that was closed and "
            "removed from every node table; no live connection of the peer "
            "exists (property: 'a peer's connection attribute references a "
            "live connection of that peer exactly when one exists')")
    if peer.connection is None and peer.disconnect_reason is None:
        violations.append("peer disconnected without disconnect reason")
    if not live and app.is_ready.is_set():
        violations.append(
            "Application.is_ready is set although none of its configured "
            "peers has a connection (property: 'reports not ready once none "
            "of its configured peers has a connection')")
finally:
    go.set()
    try:
        if s:
            s.close()
    except OSError:
        pass
    node.stop(force=True)

if violations:
    print("VIOLATION:")
    for v in violations:
        print("  - " + v)
    sys.exit(1)
print("OK: tables and readiness consistent")
sys.exit(0)
