"""
C04 / finding 2

A CER received from the network whose Host-IP-Address AVP (type Address) uses
address family 8 (E.164) and whose digits contain a "." or ":" decodes fine:
Message.from_bytes returns a CapabilitiesExchangeRequest and
msg.host_ip_address == [(8, "1.2")].

But the AVP list of that *decoded* message can no longer be read or rendered:
msg.avps, msg.find_avps(...) and diameter.message.dump(msg) all raise
AvpEncodeError, because a typed message throws the received AVPs away and
regenerates them from the decoded python values, and AvpAddress' setter
refuses to encode what AvpAddress' getter has just produced.

Property clauses: "Decoding arbitrary bytes ... either returns a result or
raises one of the library's own decode errors; it never raises any other
exception" and "rendering any decoded AVP or message header as text never
raises".
"""
import logging
import struct
import sys

from diameter.message import Message, dump, constants
from diameter.message.avp import AvpDecodeError, AvpEncodeError
from diameter.message import packer

logging.disable(logging.CRITICAL)


def avp(code: int, payload: bytes, flags: int = 0x40) -> bytes:
    pad = b"\0" * (-len(payload) % 4)
    return struct.pack(">II", code, (flags << 24) | (8 + len(payload))) + payload + pad


body = (avp(constants.AVP_ORIGIN_HOST, b"evil.example.org") +
        avp(constants.AVP_ORIGIN_REALM, b"example.org") +
        # Address: family 8 (E.164), value "1.2"
        avp(constants.AVP_HOST_IP_ADDRESS, b"\x00\x08" + b"1.2") +
        avp(constants.AVP_VENDOR_ID, struct.pack(">I", 0)) +
        avp(constants.AVP_PRODUCT_NAME, b"x", flags=0))
cer = struct.pack(">IIIII", (1 << 24) | (20 + len(body)), (0x80 << 24) | 257, 0, 1, 2) + body

msg = Message.from_bytes(cer)
print(f"decoded: {type(msg).__name__}, host_ip_address={msg.host_ip_address!r}")

allowed = (AvpDecodeError, packer.Error)
failures = []
for label, op in (
        ("msg.avps", lambda: msg.avps),
        ("msg.find_avps((AVP_ORIGIN_HOST, 0))",
         lambda: msg.find_avps((constants.AVP_ORIGIN_HOST, 0))),
        ("dump(msg)", lambda: dump(msg))):
    try:
        op()
        print(f"OK        {label} returned")
    except allowed as e:
        print(f"          {label} raised a decode error {type(e).__name__}: {e}")
        if label.startswith("dump"):
            failures.append(label)
    except Exception as e:
        failures.append(label)
        print(f"VIOLATION {label} raised {type(e).__name__}: {e}")

# the same bytes decoded as a plain message render fine, so it is not the
# input that cannot be rendered
plain = Message.from_bytes(cer, plain_msg=True)
print("contrast: dump() of the same bytes decoded with plain_msg=True:")
print(dump(plain))

print("property requires: reading / rendering the AVPs of a successfully "
      "decoded message never raises anything but a library decode error, and "
      "rendering never raises at all")
print(f"observed: {len(failures)} operation(s) raised AvpEncodeError: {failures}")
sys.exit(1 if failures else 0)
