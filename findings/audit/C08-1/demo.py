"""C08 / finding 1: requests of commands without a typed class (UndefinedMessage)
that the node must reject itself (3007 / 3003 / 5012) are answered with a bare
20-byte header: no Result-Code (and no Origin-Host/Origin-Realm) AVP at all.

Run: PYTHONPATH=/repo/src /venv/bin/python /repo/_audit/1/demo.py
exit 1 = violation observed, exit 0 = behaves as the property says.
"""
import logging
import socket
import sys
import time

from diameter.message import Message, constants
from diameter.message._base import MessageHeader
from diameter.message.avp import Avp
from diameter.message.commands import (CapabilitiesExchangeRequest,
                                       DeviceWatchdogRequest)
from diameter.node import Node
from diameter.node.application import Application
from diameter.node.peer import (PeerConnection, PEER_RECV, PEER_CONNECTED,
                                PEER_READY_STATES, PEER_TRANSPORT_TCP)

logging.disable(logging.CRITICAL)

OWN_REALM = "own.realm"
PEER_HOST = "peer1.own.realm"


class RecApp(Application):
    def __init__(self, *a, **k):
        super().__init__(*a, **k)
        self.got = []
        self.fail = False

    def handle_request(self, message):
        self.got.append(message)
        if self.fail:
            raise RuntimeError("application failed to handle the request")


def take_answers(conn):
    """Parse and consume every complete message in the virtual socket."""
    out = []
    with conn.write_lock:
        buf = conn.write_buffer
        pos = 0
        while len(buf) - pos >= 20:
            ln = int.from_bytes(buf[pos + 1:pos + 4], "big")
            if len(buf) - pos < ln:
                break
            out.append(Message.from_bytes(buf[pos:pos + ln]))
            pos += ln
        conn.remove_out_bytes(pos)
    return out


def exchange(conn, wire, sentinel_id, timeout=10.0):
    """Feed bytes, then a DWR sentinel; returns the answers that the node wrote
    before the DWA of the sentinel (the read thread works sequentially)."""
    dwr = DeviceWatchdogRequest()
    dwr.header.hop_by_hop_identifier = sentinel_id
    dwr.header.end_to_end_identifier = sentinel_id
    dwr.origin_host = PEER_HOST.encode()
    dwr.origin_realm = OWN_REALM.encode()
    conn.add_in_bytes(wire + dwr.as_bytes())
    got = []
    deadline = time.time() + timeout
    while time.time() < deadline:
        got += take_answers(conn)
        if any(m.header.command_code == 280 and
               m.header.hop_by_hop_identifier == sentinel_id for m in got):
            return [m for m in got if m.header.command_code != 280], True
        time.sleep(0.02)
    return [m for m in got if m.header.command_code != 280], False


def raw_request(code, app_id, ident, realm=OWN_REALM):
    avps = [Avp.new(constants.AVP_SESSION_ID, value=f"{PEER_HOST};1;{ident}"),
            Avp.new(constants.AVP_ORIGIN_HOST, value=PEER_HOST.encode()),
            Avp.new(constants.AVP_ORIGIN_REALM, value=OWN_REALM.encode()),
            Avp.new(constants.AVP_DESTINATION_REALM, value=realm.encode())]
    hdr = MessageHeader(command_flags=0xc0, command_code=code,
                        application_id=app_id, hop_by_hop_identifier=ident,
                        end_to_end_identifier=ident)
    return Message(hdr, avps).as_bytes()


def main():
    node = Node("node.own.realm", OWN_REALM)
    peer = node.add_peer(f"aaa://{PEER_HOST}", OWN_REALM)
    app = RecApp(constants.APP_DIAMETER_CREDIT_CONTROL_APPLICATION,
                 is_auth_application=True)
    node.add_application(app, [peer])

    sock_a, sock_b = socket.socketpair()
    conn = PeerConnection("10.0.0.9", 3868, PEER_RECV,
                          interrupt_fileno=node.interrupt_write)
    conn.state = PEER_CONNECTED
    node._add_peer_connection(conn, sock_a, PEER_TRANSPORT_TCP)

    violations = []
    try:
        cer = CapabilitiesExchangeRequest()
        cer.header.hop_by_hop_identifier = 1
        cer.header.end_to_end_identifier = 1
        cer.origin_host = PEER_HOST.encode()
        cer.origin_realm = OWN_REALM.encode()
        cer.host_ip_address = ["10.0.0.9"]
        cer.vendor_id = 99999
        cer.product_name = "demo"
        cer.auth_application_id = [4]
        conn.add_in_bytes(cer.as_bytes())
        deadline = time.time() + 10
        cea = []
        while time.time() < deadline and not cea:
            cea = take_answers(conn)
            time.sleep(0.02)
        assert cea and cea[0].result_code == 2001, "CER/CEA failed"
        assert conn.state in PEER_READY_STATES
        print(f"connection of {PEER_HOST} is ready (CEA 2001)")

        # Provide-Location-Request (8388620, SLg) - a command the library knows
        # by name but has no typed class for; 999 - a completely unknown command
        cases = [
            ("unregistered application id -> 3007 expected",
             raw_request(8388620, 16777255, 101), 3007, False),
            ("foreign destination realm -> 3003 expected",
             raw_request(8388620, 4, 102, realm="foreign.realm"), 3003, False),
            ("unknown command code 999, unregistered app -> 3007 expected",
             raw_request(999, 16777255, 103), 3007, False),
            ("registered app whose handle_request raises -> 5012 expected",
             raw_request(8388620, 4, 104), 5012, True),
        ]
        sentinel = 5000
        for label, wire, want, app_fails in cases:
            app.got.clear()
            app.fail = app_fails
            sentinel += 1
            answers, ok = exchange(conn, wire, sentinel)
            print(f"\n{label}")
            if not ok:
                print("  connection stopped responding")
            print(f"  application saw {len(app.got)} request(s); node wrote "
                  f"{len(answers)} answer(s)")
            for a in answers:
                rc = [v.value for v in a.avps
                      if v.code == constants.AVP_RESULT_CODE and v.vendor_id == 0]
                print(f"  answer: length={a.header.length} bytes, "
                      f"{len(a.avps)} AVPs, Result-Code AVPs={rc}")
            rcs = [v.value for a in answers for v in a.avps
                   if v.code == constants.AVP_RESULT_CODE and v.vendor_id == 0]
            if len(answers) != 1 or rcs != [want]:
                violations.append(
                    f"{label}: required one answer with Result-Code {want}, "
                    f"observed {len(answers)} answer(s) with Result-Codes {rcs}")
            if not app_fails and app.got:
                violations.append(f"{label}: application saw the request")
    finally:
        conn.close(signal_node=False)
        sock_a.close()
        sock_b.close()

    print()
    if violations:
        print("VIOLATION of C08 ('Otherwise the node answers itself ...: 3003 "
              "for a realm it does not serve, 3007 when no application "
              "matches, 5012 when handling fails'):")
        for v in violations:
            print("  -", v)
        return 1
    print("OK: every rejected request was answered with the specified "
          "Result-Code")
    return 0


if __name__ == "__main__":
    sys.exit(main())
