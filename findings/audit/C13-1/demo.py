"""C13 finding 1.

A configured peer opens a second transport connection while its first one is
still registered (e.g. it restarts / re-dials before the old connection has
been torn down).  The node answers the second CER with DIAMETER_SUCCESS and
flags that connection READY, but leaves Peer.connection pointing at the first
connection.  When the first connection then goes away, Peer.connection becomes
None and the application is flagged "not ready" although a live READY
connection of that peer is still held in Node.connections.

Real TCP on 127.0.0.1 against a started Node; the script plays the remote peer.
"""
import socket
import sys
import time

from diameter.message import Message, constants
from diameter.message.commands import CapabilitiesExchangeRequest
from diameter.node import Node
from diameter.node.application import SimpleThreadingApplication
from diameter.node.peer import PEER_READY_STATES

PEER = "peer1.test.realm"


def wait_until(cond, timeout=10.0):
    end = time.time() + timeout
    while time.time() < end:
        if cond():
            return True
        time.sleep(0.02)
    return cond()


def free_port():
    s = socket.socket()
    s.bind(("127.0.0.1", 0))
    p = s.getsockname()[1]
    s.close()
    return p


def cer_bytes(hbh):
    cer = CapabilitiesExchangeRequest()
    cer.header.hop_by_hop_identifier = hbh
    cer.header.end_to_end_identifier = hbh
    cer.origin_host = PEER.encode()
    cer.origin_realm = b"test.realm"
    cer.host_ip_address = "127.0.0.1"
    cer.vendor_id = 99999
    cer.product_name = "demo-peer"
    cer.auth_application_id = constants.APP_DIAMETER_CREDIT_CONTROL_APPLICATION
    return cer.as_bytes()


def read_msg(sock):
    sock.settimeout(10)
    buf = b""
    while len(buf) < 20:
        buf += sock.recv(4096)
    length = int.from_bytes(buf[1:4], "big")
    while len(buf) < length:
        buf += sock.recv(4096)
    return Message.from_bytes(buf[:length])


def handshake(port, hbh):
    s = socket.create_connection(("127.0.0.1", port), timeout=10)
    s.sendall(cer_bytes(hbh))
    cea = read_msg(s)
    return s, cea.result_code


port = free_port()
node = Node("srv.test.realm", "test.realm", ip_addresses=["127.0.0.1"],
            tcp_port=port)
node.wakeup_interval = 1
peer = node.add_peer(f"aaa://{PEER}")
app = SimpleThreadingApplication(
    constants.APP_DIAMETER_CREDIT_CONTROL_APPLICATION,
    is_auth_application=True, request_handler=lambda a, m: None)
node.add_application(app, [peer])
node.start()

violations = []
s1 = s2 = None
try:
    # step 1: accept + CER/CEA success  -> connection #1
    s1, rc1 = handshake(port, 1)
    assert rc1 == 2001, rc1
    assert wait_until(lambda: peer.connection is not None
                      and peer.connection.state in PEER_READY_STATES)
    c1 = peer.connection
    print(f"step 1: connection #1 {c1.ident} READY, CEA result {rc1}, "
          f"app.is_ready={app.is_ready.is_set()}")

    # step 2: second connection from the already connected peer, one CER
    s2, rc2 = handshake(port, 2)
    print(f"step 2: second connection answered with CEA result {rc2}")
    wait_until(lambda: len(node.connections) == 2 and all(
        c.state in PEER_READY_STATES for c in node.connections.values()), 3)
    print("        node.connections: " + ", ".join(
        f"{c.ident}(node_name={c.node_name}, state={hex(c.state)})"
        for c in node.connections.values()))

    # step 3: peer gone on connection #1 only
    s1.close()
    assert wait_until(lambda: c1.ident not in node.connections)
    time.sleep(0.3)   # quiescent

    live = [c for c in node.connections.values()
            if (c.node_name == PEER or c.host_identity == PEER)]
    live_ready = [c for c in live if c.state in PEER_READY_STATES]
    print(f"step 3: connection #1 removed; live connections of {PEER} in "
          f"node.connections: {[c.ident for c in live]} "
          f"(READY: {[c.ident for c in live_ready]})")
    print(f"        peer.connection      = {peer.connection}")
    print(f"        peer.disconnect_reason = {peer.disconnect_reason}, "
          f"last_disconnect = {peer.last_disconnect}")
    print(f"        app.is_ready         = {app.is_ready.is_set()}")

    if live and peer.connection is None:
        violations.append(
            "Peer.connection is None although a live connection of that peer "
            "exists in Node.connections (property: 'a peer's connection "
            "attribute references a live connection of that peer exactly when "
            "one exists')")
    if live and peer.connection is not None and peer.connection not in live:
        violations.append("Peer.connection references a non-live connection")
    if live_ready and not app.is_ready.is_set():
        violations.append(
            "Application.is_ready is cleared although a configured peer has a "
            "READY connection (property: 'An application reports ready "
            "whenever at least one of its configured peers has a ready "
            "connection')")
finally:
    for s in (s1, s2):
        try:
            if s:
                s.close()
        except OSError:
            pass
    node.stop(force=True)

if violations:
    print("VIOLATION:")
    for v in violations:
        print("  - " + v)
    sys.exit(1)
print("OK: tables and readiness consistent")
sys.exit(0)
