"""
C16 / finding 1: the node hands out the SAME hop-by-hop identifier to two
concurrent callers of Application.send_request()/Node.route_request() when the
two requests are routed over two different peer connections, and the answer of
one request is then delivered to the other caller.

Hop-by-hop ids are drawn from a generator that lives on every PeerConnection
(peer.py: `self.hop_by_hop_seq = SequenceGenerator()`), each one started at an
independent random value, while Application._answer_waiting is keyed by the
bare hop-by-hop id.  Two free running 32-bit counters that advance at different
speeds cross sooner or later; to reach the crossing point deterministically
(instead of after up to 2^32 draws) this demo calls the public stdlib function
random.seed() before each of the two connections is created, which makes both
per-connection generators start at the same value.  Nothing inside the library
is patched or modified.

exit 1 = two concurrent callers got the same hop-by-hop id (violation)
exit 0 = ids were distinct and each caller got its own answer
"""
import logging
import os
import random
import socket
import sys
import threading
import time

from diameter.message.commands import CapabilitiesExchangeAnswer
from diameter.message.commands.credit_control import CreditControlRequest
from diameter.message.constants import *
from diameter.node import Node
from diameter.node.application import Application
from diameter.node.peer import PEER_READY

logging.disable(logging.CRITICAL)


class ClientApp(Application):
    def __init__(self):
        super().__init__(APP_DIAMETER_CREDIT_CONTROL_APPLICATION,
                         is_auth_application=True)
        self.unexpected = []

    def handle_request(self, message):
        pass

    def handle_answer(self, message):
        self.unexpected.append(message)


node = Node("client.a.realm", "a.realm")
app = ClientApp()

# two listening loopback sockets play the two remote peers' TCP endpoints
listeners = []
peers = []
for name, realm in (("ocs1.a.realm", "a.realm"), ("ocs2.b.realm", "b.realm")):
    ls = socket.socket(socket.AF_INET, socket.SOCK_STREAM)
    ls.bind(("127.0.0.1", 0))
    ls.listen(1)
    listeners.append(ls)
    peers.append(node.add_peer(
        f"aaa://{name}:{ls.getsockname()[1]}", realm,
        ip_addresses=["127.0.0.1"], is_persistent=False))
node.add_application(app, peers)

conns = []
for peer in peers:
    # an embedding program may legitimately seed the stdlib PRNG at any time
    random.seed(20240924)
    node._connect_to_peer(peer)
    conn = peer.connection
    assert conn is not None
    conns.append(conn)
    sent = []
    conn.add_out_msg = sent.append          # record instead of the socket
    conn.sent = sent
    node._flag_peer_as_connected(conn)
    node.send_cer(conn)
    cer = sent[-1]
    cea = CapabilitiesExchangeAnswer()
    cea.header.hop_by_hop_identifier = cer.header.hop_by_hop_identifier
    cea.header.end_to_end_identifier = cer.header.end_to_end_identifier
    cea.result_code = E_RESULT_CODE_DIAMETER_SUCCESS
    cea.origin_host = peer.node_name.encode()
    cea.origin_realm = peer.realm_name.encode()
    cea.host_ip_address = ["127.0.0.1"]
    cea.vendor_id = 1
    cea.product_name = "fake"
    cea.auth_application_id = [APP_DIAMETER_CREDIT_CONTROL_APPLICATION]
    node._receive_message(conn, cea)
    assert conn.state == PEER_READY, conn.state


def make_ccr(realm: str) -> CreditControlRequest:
    ccr = CreditControlRequest()
    ccr.session_id = node.session_generator.next_id()
    ccr.origin_host = node.origin_host.encode()
    ccr.origin_realm = node.realm_name.encode()
    ccr.destination_realm = realm.encode()
    ccr.auth_application_id = app.application_id
    ccr.service_context_id = "32274@3gpp.org"
    ccr.cc_request_type = E_CC_REQUEST_TYPE_EVENT_REQUEST
    ccr.cc_request_number = 1
    return ccr


results = {}


def caller(name, req):
    try:
        results[name] = app.send_request(req, timeout=3)
    except BaseException as e:
        results[name] = e


def wait_for(cond, what):
    end = time.time() + 10
    while not cond():
        if time.time() > end:
            print("demo setup problem: timed out waiting for", what)
            os._exit(2)
        time.sleep(0.01)


req_a = make_ccr("a.realm")      # routed to ocs1 over conns[0]
req_b = make_ccr("b.realm")      # routed to ocs2 over conns[1]

n0, n1 = len(conns[0].sent), len(conns[1].sent)
ta = threading.Thread(target=caller, args=("A", req_a))
ta.start()
wait_for(lambda: len(conns[0].sent) > n0, "request A on connection 1")
tb = threading.Thread(target=caller, args=("B", req_b))
tb.start()
wait_for(lambda: len(conns[1].sent) > n1, "request B on connection 2")

hbh_a = req_a.header.hop_by_hop_identifier
hbh_b = req_b.header.hop_by_hop_identifier
print(f"caller A (-> ocs1): hop-by-hop {hbh_a:#010x}, end-to-end "
      f"{req_a.header.end_to_end_identifier:#010x}")
print(f"caller B (-> ocs2): hop-by-hop {hbh_b:#010x}, end-to-end "
      f"{req_b.header.end_to_end_identifier:#010x}")

# both requests are in flight; peer ocs1 answers request A first
ans_a = req_a.to_answer()
ans_a.session_id = req_a.session_id
ans_a.origin_host = b"ocs1.a.realm"
ans_a.origin_realm = b"a.realm"
ans_a.result_code = E_RESULT_CODE_DIAMETER_SUCCESS
node._receive_message(conns[0], ans_a)
time.sleep(0.3)
# ... then peer ocs2 answers request B
ans_b = req_b.to_answer()
ans_b.session_id = req_b.session_id
ans_b.origin_host = b"ocs2.b.realm"
ans_b.origin_realm = b"b.realm"
ans_b.result_code = E_RESULT_CODE_DIAMETER_SUCCESS
node._receive_message(conns[1], ans_b)

ta.join(10)
tb.join(10)


def describe(r):
    if isinstance(r, BaseException):
        return f"raised {type(r).__name__}({r})"
    return (f"answer from {r.origin_host.decode()} for session "
            f"{r.session_id}")


print("caller A asked about session", req_a.session_id, "and got:",
      describe(results.get("A")))
print("caller B asked about session", req_b.session_id, "and got:",
      describe(results.get("B")))
print("answers dropped into handle_answer():", len(app.unexpected))

for conn in conns:
    conn.close(signal_node=False)
for ls in listeners:
    ls.close()

ok_ids = hbh_a != hbh_b and hbh_a != 0 and hbh_b != 0
ok_a = getattr(results.get("A"), "session_id", None) == req_a.session_id
ok_b = getattr(results.get("B"), "session_id", None) == req_b.session_id

print()
print("REQUIRED by the property: 'Hop-by-hop ... identifiers handed out by a "
      "node are pairwise distinct among concurrent and successive callers "
      "until the 32-bit ... counter space wraps' - so A and B must hold "
      "different hop-by-hop ids and each must receive its own answer.")
if ok_ids and ok_a and ok_b:
    print("OBSERVED: ids distinct, answers delivered correctly -> OK")
    code = 0
else:
    print(f"OBSERVED: ids distinct={ok_ids}, A got own answer={ok_a}, "
          f"B got own answer={ok_b} -> VIOLATION")
    code = 1
sys.stdout.flush()
os._exit(code)
