"""
C14 finding 2: a request handler that raises an exception which is not derived
from `Exception` (asyncio.CancelledError, SystemExit from sys.exit(), ...)
makes ThreadingApplication lose the thread slot of that request for good.
With max_threads=N, N such requests leave the application answering
DIAMETER_TOO_BUSY to every peer forever.

Exit 1 = violation observed, exit 0 = library behaves as the property says.
"""
import asyncio
import logging
import socket
import sys
import threading
import time

from diameter.message import Message, constants
from diameter.message.commands import (AccountingRequest,
                                       CapabilitiesExchangeRequest)
from diameter.node import Node
from diameter.node.application import SimpleThreadingApplication

logging.basicConfig(level=logging.CRITICAL)
threading.excepthook = lambda args: print(
    f"   [thread {args.thread.name} died with {args.exc_type.__name__}]")

PEER_HOST = "client.example.net"
REALM = "example.net"
LIMIT = 1


def free_port():
    s = socket.socket()
    s.bind(("127.0.0.1", 0))
    p = s.getsockname()[1]
    s.close()
    return p


class Client:
    """A minimal remote Diameter peer on a real TCP socket."""
    def __init__(self, port):
        self.sock = socket.create_connection(("127.0.0.1", port), timeout=5)
        self.buf = b""

    def send(self, msg):
        self.sock.sendall(msg.as_bytes())

    def recv_msg(self, timeout):
        deadline = time.time() + timeout
        while True:
            if len(self.buf) >= 20:
                length = int.from_bytes(self.buf[1:4], "big")
                if len(self.buf) >= length:
                    raw, self.buf = self.buf[:length], self.buf[length:]
                    return Message.from_bytes(raw)
            left = deadline - time.time()
            if left <= 0:
                return None
            self.sock.settimeout(left)
            try:
                data = self.sock.recv(65535)
            except (socket.timeout, TimeoutError):
                return None
            if not data:
                return None
            self.buf += data

    def handshake(self):
        cer = CapabilitiesExchangeRequest()
        cer.header.hop_by_hop_identifier = 1000
        cer.header.end_to_end_identifier = 1000
        cer.origin_host = PEER_HOST.encode()
        cer.origin_realm = REALM.encode()
        cer.host_ip_address = ["127.0.0.1"]
        cer.vendor_id = 99999
        cer.product_name = "demo"
        cer.acct_application_id = [constants.APP_DIAMETER_BASE_ACCOUNTING]
        self.send(cer)
        cea = self.recv_msg(5)
        assert cea is not None and cea.result_code == 2001, "CEA failed"

    def close(self):
        self.sock.close()


def acr(hbh, e2e, session):
    r = AccountingRequest()
    r.header.hop_by_hop_identifier = hbh
    r.header.end_to_end_identifier = e2e
    r.header.application_id = constants.APP_DIAMETER_BASE_ACCOUNTING
    r.acct_application_id = constants.APP_DIAMETER_BASE_ACCOUNTING
    r.session_id = session
    r.origin_host = PEER_HOST.encode()
    r.origin_realm = REALM.encode()
    r.destination_realm = REALM.encode()
    r.accounting_record_type = constants.E_ACCOUNTING_RECORD_TYPE_EVENT_RECORD
    r.accounting_record_number = 1
    return r


async def _lookup_that_gets_cancelled():
    asyncio.current_task().cancel()
    await asyncio.sleep(0)


handled = []


def handler(app, msg):
    handled.append(msg.session_id)
    if msg.session_id.startswith("boom"):
        # the handler raises: asyncio.run() re-raises asyncio.CancelledError,
        # which derives from BaseException (like SystemExit of sys.exit())
        asyncio.run(_lookup_that_gets_cancelled())
    return app.generate_answer(msg, result_code=2001)


def main():
    port = free_port()
    node = Node("server.example.net", REALM, ip_addresses=["127.0.0.1"],
                tcp_port=port)
    node.wakeup_interval = 1
    peer = node.add_peer(f"aaa://{PEER_HOST}", REALM)
    app = SimpleThreadingApplication(constants.APP_DIAMETER_BASE_ACCOUNTING,
                                     is_acct_application=True,
                                     max_threads=LIMIT,
                                     request_handler=handler)
    node.add_application(app, [peer])
    node.start()
    verdict = 0
    try:
        # --- earlier transactions: LIMIT requests whose handler raises
        c1 = Client(port)
        c1.handshake()
        for i in range(LIMIT):
            c1.send(acr(hbh=10 + i, e2e=10 + i, session=f"boom-{i}"))
        t0 = time.time()
        while len(handled) < LIMIT and time.time() - t0 < 5:
            time.sleep(0.05)
        assert len(handled) == LIMIT, "fault requests were not delivered"
        print(f"{LIMIT} request(s) delivered whose handler raised "
              f"asyncio.CancelledError; answer received for them: "
              f"{c1.recv_msg(1)}")
        c1.close()
        t0 = time.time()
        while node.connections and time.time() - t0 < 5:
            time.sleep(0.05)

        # --- a peer connects afterwards: probe with LIMIT + 2 requests
        c2 = Client(port)
        c2.handshake()
        results = []
        for i in range(LIMIT + 2):
            c2.send(acr(hbh=100 + i, e2e=100 + i, session=f"probe-{i}"))
            ans = c2.recv_msg(8)
            results.append(None if ans is None else ans.result_code)
        delivered = [s for s in handled if s.startswith("probe")]
        print(f"probe after reconnect, thread limit {LIMIT}, "
              f"{LIMIT + 2} sequential requests:")
        print(f"   result codes received : {results}")
        print(f"   delivered to handler  : {delivered}")
        print(f"   thread slots in use   : {app._thread_slots.qsize()} "
              f"(no handler is running)")
        print("property requires: no processing capacity is consumed for "
              "good; every probe request is delivered to the handler and "
              "answered 2001 as on a fresh node")
        if results != [2001] * (LIMIT + 2) or len(delivered) != LIMIT + 2:
            print("VIOLATION: the slot of the failed handler was never "
                  "returned, the application rejects requests with "
                  "DIAMETER_TOO_BUSY (3004) although it is idle")
            verdict = 1
        else:
            print("OK")
        c2.close()
    finally:
        node.stop(wait_timeout=3, force=True)
    return verdict


if __name__ == "__main__":
    rc = main()
    sys.stdout.flush()
    sys.exit(rc)
