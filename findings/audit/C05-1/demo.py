#!/usr/bin/env python
"""
C05 finding 1: one decodable frame makes the reader thread of a peer
connection die; the connection stays "ready" but no frame behind it is ever
serviced, and the connection is not closed either.

Trigger (everything below is ordinary network input of a configured peer):
  1. CER  -> connection becomes PEER_READY
  2. one frame, 20-byte header + two Origin-Host AVPs + Origin-Realm, request
     bit set, command code without a Python message class (8388999; any of
     the ~137 dictionary commands that decode to UndefinedMessage works too)
  3. DWR  (a perfectly good frame behind it)

Property C05: "no input - whatever its length field says - can make the reader
[...] stop servicing the connection silently: it either resynchronises, waits
for more bytes, or closes the connection", and "a peer connection delivers
exactly those messages, each once and in stream order".

exit 1 = violation observed, exit 0 = library behaves as the property says.
"""
import logging
import socket
import sys
import threading
import time

from diameter.message import constants
from diameter.message import MessageHeader
from diameter.message.avp import Avp
from diameter.message.commands import (CapabilitiesExchangeRequest,
                                       DeviceWatchdogRequest)
from diameter.node import Node
from diameter.node.application import Application
from diameter.node.peer import (PeerConnection, PEER_RECV, PEER_CONNECTED,
                                PEER_READY, PEER_READY_STATES, PEER_CLOSED,
                                PEER_CLOSING, PEER_TRANSPORT_TCP)

logging.disable(logging.CRITICAL)

thread_errors = []
threading.excepthook = lambda a: thread_errors.append(
    f"{a.thread.name}: {a.exc_type.__name__}: {a.exc_value}")


class App(Application):
    def handle_request(self, message):
        pass

    def handle_answer(self, message):
        pass


def avp(code, value):
    a = Avp.new(code)
    a.value = value
    return a.as_bytes()


# --- a node with one configured peer and one application -------------------
node = Node("node.example.org", "example.org")
peer = node.add_peer("aaa://peer.example.org", "example.org")
node.add_application(App(4, is_auth_application=True), [peer])

# --- an accepted (inbound) TCP connection, exactly as Node does on accept() --
sock_a, sock_b = socket.socketpair()
conn = PeerConnection("10.0.0.1", 3868, PEER_RECV,
                      interrupt_fileno=node.interrupt_write)
conn.state = PEER_CONNECTED
node._add_peer_connection(conn, sock_a, PEER_TRANSPORT_TCP)

delivered = []          # everything handed to the message handler
node_handler = conn.message_handler


def recording_handler(c, m):
    delivered.append((m.header.command_code, m.header.is_request,
                      m.header.hop_by_hop_identifier))
    return node_handler(c, m)


conn.message_handler = recording_handler

sent = []               # everything the node queues towards the peer
orig_add_out = conn.add_out_msg


def recording_out(m):
    sent.append((m.header.command_code, m.header.is_request,
                 m.header.hop_by_hop_identifier))
    return orig_add_out(m)


conn.add_out_msg = recording_out

# --- the byte stream --------------------------------------------------------
cer = CapabilitiesExchangeRequest()
cer.origin_host = b"peer.example.org"
cer.origin_realm = b"example.org"
cer.host_ip_address = ["10.0.0.1"]
cer.vendor_id = 99999
cer.product_name = "demo"
cer.auth_application_id = [4]
cer.header.hop_by_hop_identifier = 1
cer.header.end_to_end_identifier = 1
frame_cer = cer.as_bytes()

body = (avp(constants.AVP_ORIGIN_HOST, b"peer.example.org") +
        avp(constants.AVP_ORIGIN_HOST, b"peer.example.org") +
        avp(constants.AVP_ORIGIN_REALM, b"example.org"))
frame_odd = MessageHeader(
    version=1, length=20 + len(body), command_flags=0x80,
    command_code=8388999, application_id=4,
    hop_by_hop_identifier=2, end_to_end_identifier=2).as_bytes() + body

dwr = DeviceWatchdogRequest()
dwr.origin_host = b"peer.example.org"
dwr.origin_realm = b"example.org"
dwr.header.hop_by_hop_identifier = 3
dwr.header.end_to_end_identifier = 3
frame_dwr = dwr.as_bytes()


def wait_for(cond, timeout=10.0):
    end = time.time() + timeout
    while time.time() < end:
        if cond():
            return True
        time.sleep(0.02)
    return cond()


reader = conn._read_thread

conn.add_in_bytes(frame_cer)
if not wait_for(lambda: conn.state == PEER_READY):
    print("setup problem: CER did not bring the connection to READY")
    conn.close(signal_node=False)
    sys.exit(2)

# one network read carrying the odd frame and a DWR right behind it ...
conn.add_in_bytes(frame_odd + frame_dwr)
# ... and, later, another DWR in a read of its own
wait_for(lambda: (constants.CMD_DEVICE_WATCHDOG, True, 3) in delivered
         or not reader.is_alive() or conn.state in (PEER_CLOSED, PEER_CLOSING))
dwr.header.hop_by_hop_identifier = 4
dwr.header.end_to_end_identifier = 4
conn.add_in_bytes(dwr.as_bytes())
wait_for(lambda: (constants.CMD_DEVICE_WATCHDOG, True, 4) in delivered
         or not reader.is_alive() or conn.state in (PEER_CLOSED, PEER_CLOSING),
         timeout=3.0)
time.sleep(0.3)

dwr_delivered = [d for d in delivered if d[0] == constants.CMD_DEVICE_WATCHDOG]
dwa_sent = [s for s in sent
            if s[0] == constants.CMD_DEVICE_WATCHDOG and not s[1]]
closed = conn.state in (PEER_CLOSED, PEER_CLOSING)
still_registered = conn.ident in node.connections

print("frames sent by the peer   : CER(hbh 1), cmd 8388999 request with two "
      "Origin-Host AVPs (hbh 2), DWR(hbh 3), DWR(hbh 4)")
print(f"delivered to handler      : {delivered}")
print(f"answers queued by the node: {sent}")
print(f"reader thread alive       : {reader.is_alive()}")
print(f"connection state          : {hex(conn.state)} "
      f"(READY={hex(PEER_READY)}, CLOSED={hex(PEER_CLOSED)}); "
      f"still in node.connections: {still_registered}")
print(f"unread chunks left in the connection's input queue: "
      f"{conn._read_buffer_queue.qsize()}, unframed bytes in buffer: "
      f"{len(conn._read_buffer)}")
print(f"uncaught exception in worker thread: {thread_errors}")
print()
print("property requires: the frames behind the odd one (DWR hbh 3 and 4) are "
      "delivered in order, or the connection is closed - never a connection "
      "that stays open and 'ready' while its reader no longer services input")

violation = False
if not closed:
    if not reader.is_alive():
        print("VIOLATION: reader thread is dead, connection is still "
              f"in state {hex(conn.state)} and registered with the node")
        violation = True
    if len(dwr_delivered) != 2:
        print(f"VIOLATION: {2 - len(dwr_delivered)} of 2 well-formed DWR frames "
              f"behind the odd frame were never delivered "
              f"(DWA sent: {len(dwa_sent)})")
        violation = True

conn.close(signal_node=False)
sock_a.close()
sock_b.close()
if violation:
    sys.exit(1)
print("OK: input behind the odd frame was serviced (or the connection was "
      "closed)")
sys.exit(0)
