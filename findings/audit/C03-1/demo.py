"""C03 finding 1: an UNSET container attribute is emitted as an (empty) grouped AVP.

DefaultEpsBearerQos.allocation_retention_priority and
EpsSubscribedQosProfile.allocation_retention_priority default to the *class object*
AllocationRetentionPriority instead of None, so the generator treats the attribute as set.
"""
import sys
from diameter.message import Message
from diameter.message.commands import CreditControlRequest
from diameter.message.avp.grouped import (DefaultEpsBearerQos, EpsSubscribedQosProfile,
                                          AllocationRetentionPriority)
from diameter.message.avp.generator import generate_avps_from_defs
from diameter.message.constants import *

failed = False

# --- through the public API: a CCR with only QoS-Class-Identifier set ------------------
ccr = CreditControlRequest()
ccr.session_id = "host;1;2"
ccr.default_eps_bearer_qos = DefaultEpsBearerQos(qos_class_identifier=9)   # ARP never set
wire = ccr.as_bytes()

plain = Message.from_bytes(wire, plain_msg=True)
inner = plain.find_avps((AVP_TGPP_DEFAULT_EPS_BEARER_QOS, VENDOR_TGPP))[0].value
print("sub-AVPs of Default-EPS-Bearer-QoS on the wire:")
for a in inner:
    print("   ", a)
arp = [a for a in inner if (a.code, a.vendor_id) == (AVP_TGPP_ALLOCATION_RETENTION_PRIORITY, VENDOR_TGPP)]
if len(inner) != 1 or arp:
    failed = True
    print("OBSERVED: %d sub-AVPs, among them an Allocation-Retention-Priority AVP for an attribute "
          "that was never set" % len(inner))
print("REQUIRED: exactly one AVP per set attribute (QoS-Class-Identifier only); unset attributes absent")

decoded = Message.from_bytes(wire)
got = decoded.default_eps_bearer_qos.allocation_retention_priority
print("decoded allocation_retention_priority:", got)
if got is not None:
    failed = True
    print("OBSERVED: the decoded message reports a value for the attribute that was not set")

# --- both affected containers, directly -------------------------------------------------
for cls in (DefaultEpsBearerQos, EpsSubscribedQosProfile):
    obj = cls()                      # nothing set at all
    avps = generate_avps_from_defs(obj)
    print(f"{cls.__name__}() with no attribute set -> {len(avps)} AVP(s); "
          f"default of allocation_retention_priority = {obj.allocation_retention_priority!r}")
    if avps or obj.allocation_retention_priority is not None:
        failed = True

if failed:
    print("VIOLATION: 'unset attributes ... being ... absent' / 'exactly one AVP per set scalar attribute'")
    sys.exit(1)
print("no violation")
sys.exit(0)
