"""C17 finding 1: the node-generated rejection of a T-flag duplicate carries NO
Result-Code (and no other AVP) when the command has no typed python class
(about 120 dictionary commands, e.g. MO-Forward-Short-Message 8388645, and
every unknown command code). `_generate_answer` -> `to_answer()` returns an
`UndefinedMessage`; `err.result_code = 5012` only sets a python attribute on
it, which `as_bytes()` never renders. The peer receives a bare 20-byte header
instead of a 5012 answer.

exit 1 = violation observed (current code), exit 0 = behaves as the property says
"""
import logging
import sys

from diameter.message import Message, Avp, constants
from diameter.message._base import MessageHeader
from diameter.node import Node
from diameter.node.application import Application
from diameter.node.peer import PeerConnection, PEER_RECV, PEER_CONNECTED, \
    PEER_TRANSPORT_TCP, PEER_READY

logging.disable(logging.CRITICAL)

APP_ID = constants.APP_3GPP_SGD
CMD = constants.CMD_MO_FORWARD_SHORT_MESSAGE
PEER_HOST = b"mme1.example.org"


class FakeSocket:
    def __init__(self, no): self._no = no
    def fileno(self): return self._no
    def close(self): pass
    def setsockopt(self, *a): pass


class RecordingApp(Application):
    def __init__(self):
        super().__init__(APP_ID, is_auth_application=True)
        self.delivered = []

    def handle_request(self, message):
        self.delivered.append(message)


def avp(code, value, vendor=0):
    a = Avp.new(code, vendor)
    a.value = value
    return a


def wire(msg: Message) -> Message:
    """what the peer puts on the socket -> what the node decodes"""
    return Message.from_bytes(msg.as_bytes())


def cer(hbh, e2e):
    m = Message(MessageHeader(command_flags=0x80, command_code=257,
                              application_id=0, hop_by_hop_identifier=hbh,
                              end_to_end_identifier=e2e))
    m.append_avp(avp(constants.AVP_ORIGIN_HOST, PEER_HOST))
    m.append_avp(avp(constants.AVP_ORIGIN_REALM, b"example.org"))
    m.append_avp(avp(constants.AVP_HOST_IP_ADDRESS, "10.0.0.1"))
    m.append_avp(avp(constants.AVP_VENDOR_ID, 99999))
    m.append_avp(avp(constants.AVP_PRODUCT_NAME, "demo"))
    m.append_avp(avp(constants.AVP_AUTH_APPLICATION_ID, APP_ID))
    return wire(m)


def request(hbh, e2e, t_flag):
    flags = 0x80 | 0x40 | (0x10 if t_flag else 0)
    m = Message(MessageHeader(command_flags=flags, command_code=CMD,
                              application_id=APP_ID, hop_by_hop_identifier=hbh,
                              end_to_end_identifier=e2e))
    m.append_avp(avp(constants.AVP_SESSION_ID, "mme1.example.org;1;1"))
    m.append_avp(avp(constants.AVP_AUTH_SESSION_STATE, 1))
    m.append_avp(avp(constants.AVP_ORIGIN_HOST, PEER_HOST))
    m.append_avp(avp(constants.AVP_ORIGIN_REALM, b"example.org"))
    m.append_avp(avp(constants.AVP_DESTINATION_REALM, b"example.org"))
    return wire(m)


def result_code_of(raw: bytes):
    m = Message.from_bytes(raw, plain_msg=True)
    found = m.find_avps((constants.AVP_RESULT_CODE, 0))
    return found[0].value if found else None


node = Node("smsc.example.org", "example.org")
node.retransmit_queue_size = 4
peer = node.add_peer("aaa://mme1.example.org")
app = RecordingApp()
node.add_application(app, [peer])

conn = PeerConnection("10.0.0.1", 3868, PEER_RECV, node.interrupt_write)
conn.state = PEER_CONNECTED
node._add_peer_connection(conn, FakeSocket(901), PEER_TRANSPORT_TCP)

sent = []
orig_add_out = conn.add_out_msg
def recorder(m):
    sent.append(m.as_bytes())
    orig_add_out(m)
conn.add_out_msg = recorder

rc = 0
try:
    node._receive_message(conn, cer(1, 100))
    assert conn.state == PEER_READY, conn.state
    assert result_code_of(sent[-1]) == 2001

    # 1. original request, no T flag
    req = request(hbh=2, e2e=7, t_flag=False)
    print("request class:", type(req).__name__, type(req).__mro__[1].__name__)
    node._receive_message(conn, req)
    assert len(app.delivered) == 1

    # 2. the application answers it (2001) through the documented API
    ans = req.to_answer()
    ans.append_avp(avp(constants.AVP_SESSION_ID, "mme1.example.org;1;1"))
    ans.append_avp(avp(constants.AVP_RESULT_CODE, 2001))
    ans.append_avp(avp(constants.AVP_ORIGIN_HOST, b"smsc.example.org"))
    ans.append_avp(avp(constants.AVP_ORIGIN_REALM, b"example.org"))
    app.send_answer(ans)
    assert result_code_of(sent[-1]) == 2001
    n_sent = len(sent)

    # 3. the same origin retransmits the same end-to-end id with the T flag
    dup = request(hbh=3, e2e=7, t_flag=True)
    node._receive_message(conn, dup)

    delivered_again = len(app.delivered) > 1
    node_answers = sent[n_sent:]
    node_rc = result_code_of(node_answers[-1]) if node_answers else None
    print(f"observed: T-flag duplicate (origin {PEER_HOST.decode()}, e2e 7, already "
          f"answered 2001, window 4): delivered to application again = "
          f"{delivered_again}; messages put on the socket by the node = "
          f"{[b.hex() for b in node_answers]}; Result-Code on the wire = {node_rc}")
    print("required: answered 5012 by the node itself and not delivered to any "
          "application again")
    print("node._sent_answers =", dict(node._sent_answers))
    if delivered_again or node_rc != 5012:
        print("VIOLATION")
        rc = 1
    else:
        print("OK")
except AssertionError as e:
    print("demo set-up failed (not the violation):", repr(e))
    rc = 2
finally:
    conn.close(signal_node=False)
sys.exit(rc)
