"""C01 / finding 3: a value too long for the 24-bit AVP length field is not
rejected; the length wraps modulo 2**24 and its overflow bit is OR-ed into the
flag octet.

Property clauses: "flag octet with V set iff a non-zero vendor id is present
and M/P as requested; 24-bit length counting header plus unpadded data" and
"a value outside the type's domain is rejected with an error instead of being
truncated or wrapped".  An OctetString / UTF8String / Grouped value whose
encoding needs more than 2**24-1 octets (header included) has no RFC 6733 wire
form, i.e. it is outside the type's domain.
"""
import sys

import diameter
from diameter.message import constants
from diameter.message.avp import Avp, AvpOctetString, AvpUtf8String, AvpGrouped
from diameter.message.avp import AvpDecodeError, AvpEncodeError
from diameter.message.packer import ConversionError

print("library under test:", diameter.__file__)

MAX_DATA = 2 ** 24 - 1 - 8          # longest data of an AVP without vendor id
violations = 0


def attempt(label, build):
    """build() must return the encoded bytes or raise."""
    global violations
    try:
        wire = build()
    except (AvpEncodeError, ConversionError, ValueError, OverflowError) as e:
        print(f"ok: {label}: rejected with {type(e).__name__}")
        return
    flags = wire[4]
    length = int.from_bytes(wire[5:8], "big")
    print(f"VIOLATION: {label}: accepted; header = {wire[:8].hex()} "
          f"(flag octet 0x{flags:02x}, length field {length}) followed by "
          f"{len(wire) - 8} octets")
    try:
        back = Avp.from_bytes(wire)
        print(f"           a receiver decodes: flags 0x{back.flags:02x}, "
              f"length {back.length}, {len(back.payload)} data octets")
    except AvpDecodeError as e:
        print(f"           a receiver fails to decode it: {e}")
    violations += 1


# sanity: the longest legal value is encoded correctly
a = AvpOctetString(constants.AVP_CLASS)
a.is_mandatory = True
a.value = b"a" * MAX_DATA
w = a.as_bytes()
assert w[4] == 0x40 and int.from_bytes(w[5:8], "big") == 2 ** 24 - 1, w[:8].hex()
b = Avp.from_bytes(w)
assert b.payload == a.payload and b.flags == 0x40
print(f"sanity: {MAX_DATA} data octets -> header {w[:8].hex()} (correct)")


def octets(n):
    def build():
        x = Avp.new(constants.AVP_CLASS, value=b"a" * n)   # M flag requested
        return x.as_bytes()
    return build


def utf8(n):
    def build():
        x = Avp.new(constants.AVP_USER_NAME, value="a" * n, is_mandatory=False)
        return x.as_bytes()
    return build


def grouped():
    child = AvpOctetString(constants.AVP_CLASS)
    child.value = b"a" * MAX_DATA                          # legal on its own
    g = Avp.new(constants.AVP_FAILED_AVP, value=[child], is_mandatory=False)
    return g.as_bytes()


attempt(f"OctetString of {MAX_DATA + 1} octets (AVP length 2**24)",
        octets(MAX_DATA + 1))
attempt(f"OctetString of {MAX_DATA + 9} octets (AVP length 2**24 + 8)",
        octets(MAX_DATA + 9))
attempt(f"UTF8String of {MAX_DATA + 1} characters, M flag not requested",
        utf8(MAX_DATA + 1))
attempt("Grouped holding one maximum-size member (group length 2**24 + 8)",
        grouped)

if violations:
    print(f"\n{violations} violation(s): over-long values are encoded with a "
          "wrapped length and a corrupted flag octet instead of being rejected")
    sys.exit(1)
print("no violation")
sys.exit(0)
