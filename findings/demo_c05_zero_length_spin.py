"""Demonstration (not a check): a frame whose header length field is 0 makes the
reader thread of a PeerConnection spin for ever ("discarding 0 bytes") instead of
closing. Run with PYTHONPATH=<repo>/src; exit 1 = spinning, 0 = connection closed."""
import os, sys, time, logging
from diameter.node.peer import PeerConnection, PEER_RECV, PEER_CLOSED, PEER_READY

class Count(logging.Handler):
    n = 0
    def emit(self, record):
        if "discarding 0 bytes" in record.getMessage():
            Count.n += 1
logging.getLogger("diameter.peer").addHandler(Count())
logging.getLogger("diameter.peer").setLevel(logging.WARNING)
r, w = os.pipe()
c = PeerConnection("127.0.0.1", 3868, PEER_RECV, w)
c.state = PEER_READY
hdr = bytes.fromhex("01000000" "80000101" "00000000" "00000001" "00000002")  # length field = 0
c.add_in_bytes(hdr)
time.sleep(1.0)
spinning = c.state != PEER_CLOSED
print("state closed:", not spinning, "| 'discarding 0 bytes' log lines in 1 s:", Count.n)
c.close(signal_node=False)
os._exit(1 if spinning else 0)
