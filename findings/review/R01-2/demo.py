"""69e8cd0 ("release the per-request records of outbound and inbound
transactions"): the record that Node.route_request creates in
Node._app_waiting_answer for every request sent by an application is only
released when the matching answer is delivered.  A request whose answer never
arrives - the sender timed out, the connection it was sent over was closed
and removed - keeps its record (and through it the Application object) for the
lifetime of the node.

Exit code 1 when records survive the timeout of all senders and the removal of
the connection, 0 when the table is empty again.
"""
import sys

from diameter.message.commands import CreditControlRequest
from diameter.node import Node
from diameter.node.application import Application
from diameter.node.peer import PeerConnection, PEER_SEND, PEER_READY

N = 25


class ClientApp(Application):
    def handle_request(self, message):
        pass


node = Node("client.example", "example")
peer = node.add_peer("aaa://server.example", "example", ["127.0.0.1"])
app = ClientApp(4, is_auth_application=True)
node.add_application(app, [peer])

conn = PeerConnection("127.0.0.1", 3868, PEER_SEND, node.interrupt_write)
try:
    conn.ident = "0a0b0c0d0e0f"
    conn.node_name = conn.host_identity = "server.example"
    conn.state = PEER_READY
    sent = []
    conn.add_out_msg = sent.append       # nothing goes to a network
    node.connections[conn.ident] = conn
    peer.connection = conn

    timed_out = 0
    for i in range(N):
        ccr = CreditControlRequest()
        ccr.session_id = node.session_generator.next_id()
        ccr.origin_host = b"client.example"
        ccr.origin_realm = b"example"
        ccr.destination_realm = b"example"
        ccr.auth_application_id = 4
        ccr.service_context_id = "demo@example"
        ccr.cc_request_type = 1
        ccr.cc_request_number = i
        try:
            app.send_request(ccr, timeout=0.05)
        except TimeoutError:
            timed_out += 1

    # the connection goes away, nothing sent over it can be answered any more
    node.remove_peer_connection(conn)
finally:
    conn.close(signal_node=False)

left = len(node._app_waiting_answer)
print(f"requests sent: {len(sent)}, senders timed out: {timed_out}, "
      f"connection removed: {conn.ident not in node.connections}")
print(f"records left in Node._app_waiting_answer: {left}")
if left:
    print("PROBLEM: the records of unanswered requests are never released")
    sys.exit(1)
sys.exit(0)
