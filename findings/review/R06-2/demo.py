"""f9fd7c8: answers to requests that carry no (usable) Origin-Host are no
longer counted in the peer / node statistics.

Before the commit `_receive_message` recorded every request of a typed
command in `_origin_waiting_answer` (with origin None when the AVP was
missing), so `_record_answer` accounted the answer - e.g. the 5005
DIAMETER_MISSING_AVP rejection the node itself sends for exactly such a
request - in `Peer.statistics` (sent_result_code_range_counters,
processed_req_time, avg_response_time ...). Now "anything else is treated as
absent" also skips that record, and `_record_answer` returns before touching
the statistics.

exit 1: the 5xxx answer that went out is missing from the statistics
exit 0: it is counted
"""
import logging
import socket
import sys

from diameter.message import Message
from diameter.message.commands import DeviceWatchdogRequest
from diameter.node import Node
from diameter.node.peer import (PeerConnection, PEER_RECV, PEER_READY,
                                PEER_TRANSPORT_TCP)

logging.disable(logging.CRITICAL)

node = Node("srv.realm", "realm")
peer = node.add_peer("aaa://cli.realm", "realm")
sock_a, sock_b = socket.socketpair()
conn = PeerConnection("127.0.0.1", 3868, PEER_RECV, node.interrupt_write)
conn.state = PEER_READY
conn.node_name = "cli.realm"
conn.host_identity = "cli.realm"
node._add_peer_connection(conn, sock_a, PEER_TRANSPORT_TCP)
sent = []
conn.add_out_msg = sent.append

try:
    # a DWR whose Origin-Host is missing
    dwr = DeviceWatchdogRequest()
    dwr.header.hop_by_hop_identifier = 7
    dwr.header.end_to_end_identifier = 7
    dwr.origin_realm = b"realm"
    node._receive_message(conn, Message.from_bytes(dwr.as_bytes()))

    if len(sent) != 1 or sent[0].result_code != 5005:
        print(f"setup failed, expected one 5005 answer, got {sent}")
        sys.exit(2)

    counters = {k: c.get_count() for k, c in
                peer.statistics.sent_result_code_range_counters.items()}
    node_counters = node.statistics.sent_result_code_range_counters
    print(f"answer sent: {sent[0].name} result {sent[0].result_code}")
    print(f"peer sent_result_code_range_counters: {counters}")
    print(f"node sent_result_code_range_counters: {node_counters}")
    print(f"peer processed_req_time: {dict(peer.statistics.processed_req_time)}")
    missing = counters.get("5xxx", 0) != 1
finally:
    conn.close(signal_node=False)
    sock_a.close()
    sock_b.close()

if missing:
    print("PROBLEM: the rejection answer is not accounted in the statistics")
    sys.exit(1)
print("ok")
sys.exit(0)
