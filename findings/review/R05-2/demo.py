"""63e19b4: the scenario named in the commit message - a connection's reader
thread closes the connection (rejected CEA) while the node's I/O thread
prepares its select() call - still ends the I/O thread.

The snapshot of `peer_sockets` keeps the loop from raising "dictionary changed
size during iteration", but the snapshot (like the live view before) hands out
the socket object of a connection that the reader thread closes a moment
later: `close_connection_socket` closes the socket first and marks the
connection CLOSED / removes it from the tables afterwards. select() is then
called with a closed socket and raises "ValueError: file descriptor cannot be
a negative integer (-1)", which nothing catches.

The interleaving is forced deterministically: a shim around select.select
feeds the rejecting CEA to the connection's own reader thread at the moment
the I/O thread has built its lists, waits until that thread has closed the
socket, and then calls the real select().

exit 1: the node's I/O thread has ended
exit 0: the I/O thread survives and the connection is gone from the tables
"""
import select as real_select
import socket
import sys
import threading
import time

from diameter.message import constants
from diameter.message.commands import CapabilitiesExchangeAnswer
from diameter.node import Node
from diameter.node import node as node_module
from diameter.node.peer import (PeerConnection, PEER_SEND, PEER_CONNECTED,
                                PEER_TRANSPORT_TCP)

errors = []
threading.excepthook = lambda args: errors.append(
    f"{args.thread.name}: {args.exc_type.__name__}: {args.exc_value}")

node = Node("me.realm", "realm")
node.wakeup_interval = 1
peer = node.add_peer("aaa://peer.realm", "realm")

ours, theirs = socket.socketpair()
ours.setblocking(False)

conn = PeerConnection(["127.0.0.1"], 3868, PEER_SEND, node.interrupt_write)
conn.state = PEER_CONNECTED
conn.node_name = "peer.realm"
conn.origin_host = node.origin_host
assert node._add_peer_connection(conn, ours, PEER_TRANSPORT_TCP)

cea = CapabilitiesExchangeAnswer()
cea.header.hop_by_hop_identifier = 1
cea.header.end_to_end_identifier = 1
cea.origin_host = b"peer.realm"
cea.origin_realm = b"realm"
cea.result_code = constants.E_RESULT_CODE_DIAMETER_NO_COMMON_APPLICATION
cea.host_ip_address = ["127.0.0.1"]
cea.vendor_id = 1
cea.product_name = "x"
cea_bytes = cea.as_bytes()

fired = threading.Event()


class SelectShim:
    error = real_select.error

    @staticmethod
    def select(r_list, w_list, x_list, timeout=None):
        if not fired.is_set() and ours in r_list:
            fired.set()
            # the reader thread of the connection handles the rejected CEA
            # right now, i.e. after the lists have been built
            conn.add_in_bytes(cea_bytes)
            deadline = time.time() + 5
            while ours.fileno() != -1 and time.time() < deadline:
                time.sleep(0.01)
        return real_select.select(r_list, w_list, x_list, timeout)


node_module.select = SelectShim
node.start()

fired.wait(5)
time.sleep(1.5)
alive = node._connection_thread.is_alive()
still_listed = conn.ident in node.connections

node_module.select = real_select
try:
    node.stop(force=True)
except Exception as e:
    print(f"stop failed: {e!r}")
conn.close(signal_node=False)
theirs.close()

print(f"forced interleaving happened: {fired.is_set()}")
print(f"socket closed by the reader thread: {ours.fileno() == -1}")
print(f"I/O thread alive: {alive}; connection still listed: {still_listed}")
for e in errors:
    print("thread died:", e)

if not fired.is_set() or ours.fileno() != -1:
    print("interleaving could not be produced, nothing demonstrated")
    sys.exit(0)
if not alive:
    print("PROBLEM: the node's I/O thread ended")
    sys.exit(1)
sys.exit(0)
