"""1ea6b29 (seen while checking 565250c; both meet in the PEER_CLOSING state):
a connection that is put into PEER_CLOSING *before* its last message is queued
(CER of an unknown peer -> 3010 CEA, lost election -> 4003 CEA) is never
closed when the I/O thread flushes the write buffer before the connection's
writer thread has called Queue.task_done().

The writer does   buffer += bytes ; demand_attention() ; msg_dump.sent() ;
logger.debug() ; task_done().  The I/O thread is woken by demand_attention(),
writes the buffer, finds `has_queued_messages` still True and skips the close;
afterwards the buffer is empty, the socket is not selected for writing any
more and no further interrupt arrives, so nothing ever looks at the connection
again: it stays open in PEER_CLOSING (ignoring everything it receives since
565250c, and without any timer) until the remote end gives up.

The window is hit occasionally with default logging (1 of 10 attempts here)
and always when message dumps are logged as in docs/guide/sample_application.md
(`logging.getLogger("diameter.peer.msg").setLevel(logging.DEBUG)`), because
the dump is produced between demand_attention() and task_done().  The demo
enables that logger with a handler that takes 0.2 s per record.

Exit code 1 when the rejected connection is still open 3 s after the 3010 CEA,
0 when the node closes it.
"""
import logging
import socket
import sys
import time

from diameter.message import Message
from diameter.message.commands import CapabilitiesExchangeRequest
from diameter.node import Node
from diameter.node.peer import PEER_CLOSING


class SlowHandler(logging.Handler):
    def emit(self, record):
        time.sleep(0.2)


dump_logger = logging.getLogger("diameter.peer.msg")
dump_logger.setLevel(logging.DEBUG)
dump_logger.addHandler(SlowHandler())
dump_logger.propagate = False

probe = socket.socket()
probe.bind(("127.0.0.1", 0))
port = probe.getsockname()[1]
probe.close()

node = Node("server.example", "example", ip_addresses=["127.0.0.1"],
            tcp_port=port)
node.wakeup_interval = 1
node.add_peer("aaa://known.example", "example")
node.start()

closed_by_node = False
answer_code = None
try:
    cer = CapabilitiesExchangeRequest()
    cer.header.hop_by_hop_identifier = 1
    cer.header.end_to_end_identifier = 1
    cer.origin_host = b"stranger.example"
    cer.origin_realm = b"example"
    cer.host_ip_address = ["127.0.0.1"]
    cer.vendor_id = 1
    cer.product_name = "demo"
    cer.auth_application_id = [4]

    client = socket.create_connection(("127.0.0.1", port))
    client.sendall(cer.as_bytes())
    client.settimeout(0.5)
    received = b""
    deadline = time.time() + 4
    while time.time() < deadline:
        try:
            data = client.recv(4096)
        except socket.timeout:
            continue
        except ConnectionError:
            closed_by_node = True
            break
        if not data:
            closed_by_node = True
            break
        received += data
    if received:
        answer_code = Message.from_bytes(received).result_code

    states = [(c.state == PEER_CLOSING, len(c.write_buffer),
               c.has_queued_messages) for c in node.connections.values()]
    print(f"answer result code: {answer_code}")
    print(f"closed by the node within 4 s: {closed_by_node}")
    print(f"connections still held by the node "
          f"(is CLOSING, buffered bytes, queued messages): {states}")
    client.close()
finally:
    node.stop(force=True)

if answer_code == 3010 and not closed_by_node:
    print("PROBLEM: the rejected connection is left open in PEER_CLOSING")
    sys.exit(1)
sys.exit(0)
