"""be906ce (incomplete): a connection that the node thread closes while the
reader thread is inside receive_cea / receive_cer is still resurrected as the
peer's READY connection.

The commit message promises that "a CER/CEA still in the reader's hands while
the node thread closed the connection (timeout, peer gone)" no longer
resurrects the closed connection. The new guard reads conn.state once at the
top of the handler; the completion (`_assign_peer_connection`,
`_flag_connection_as_ready`) runs later, unlocked and unconditionally, so a
close that lands in between (Node._check_timers -> close_connection_socket in
the node thread) is simply overwritten.

The interleaving is made deterministic here: `Node.auth_application_ids` (read
by receive_cea after the guard) performs, once, exactly what the node thread's
_check_timers does on a CEA timeout.

exit 1: the closed connection ends up READY and attached to the peer
exit 0: it stays closed
"""
import logging
import socket
import sys

from diameter.message import Message
from diameter.message.commands import CapabilitiesExchangeAnswer
from diameter.message.constants import (APP_RELAY,
                                        E_RESULT_CODE_DIAMETER_SUCCESS)
from diameter.node import Node
from diameter.node.peer import (PeerConnection, PEER_SEND, PEER_CONNECTED,
                                PEER_CLOSED, PEER_READY_STATES,
                                PEER_TRANSPORT_TCP,
                                DISCONNECT_REASON_FAILED_CONNECT_CE)

logging.disable(logging.CRITICAL)


class RacyNode(Node):
    victim = None

    @property
    def auth_application_ids(self):
        if self.victim is not None:
            conn, self.victim = self.victim, None
            # what _check_timers() does in the node thread when the CEA
            # timeout has expired
            self.close_connection_socket(
                conn, DISCONNECT_REASON_FAILED_CONNECT_CE)
        return super().auth_application_ids


node = RacyNode("cli.realm", "realm")
peer = node.add_peer("aaa://srv.realm", "realm", ip_addresses=["127.0.0.1"])
sock_a, sock_b = socket.socketpair()
conn = PeerConnection(["127.0.0.1"], 3868, PEER_SEND, node.interrupt_write)
conn.state = PEER_CONNECTED
conn.node_name = "srv.realm"
conn.origin_host = node.origin_host
node._add_peer_connection(conn, sock_a, PEER_TRANSPORT_TCP)
conn.add_out_msg = lambda m: None

try:
    cea = CapabilitiesExchangeAnswer()
    cea.header.hop_by_hop_identifier = 1
    cea.header.end_to_end_identifier = 1
    cea.result_code = E_RESULT_CODE_DIAMETER_SUCCESS
    cea.origin_host = b"srv.realm"
    cea.origin_realm = b"realm"
    cea.host_ip_address = ["127.0.0.1"]
    cea.vendor_id = 1
    cea.product_name = "demo"
    cea.auth_application_id = [APP_RELAY]

    node.victim = conn
    node._receive_message(conn, Message.from_bytes(cea.as_bytes()))

    socket_closed = sock_a.fileno() == -1
    print(f"socket closed by the node:      {socket_closed}")
    print(f"connection still in node table: {conn.ident in node.connections}")
    print(f"connection state:               {hex(conn.state)} "
          f"(PEER_CLOSED is {hex(PEER_CLOSED)})")
    print(f"peer.connection is the closed connection: "
          f"{peer.connection is conn}")
    print(f"peer.disconnect_reason:         {peer.disconnect_reason}")
    if not socket_closed:
        print("setup failed: the injected close did not happen")
        sys.exit(2)
    resurrected = (conn.state in PEER_READY_STATES or
                   peer.connection is conn)
finally:
    conn.close(signal_node=False)
    sock_b.close()

if resurrected:
    print("PROBLEM: a connection whose socket is closed and which is gone "
          "from the node's tables is READY and routable again; the peer is "
          "never reconnected (peer.connection is set) and every request "
          "routed to it is lost")
    sys.exit(1)
print("ok")
sys.exit(0)
