"""9ce2ff5: "with the same identifier pending on two peers the answer went to
the wrong peer" is only fixed when the end-to-end identifiers differ.

Both identifiers are chosen by the peer.  Two clients that number their
requests with plain counters (hop-by-hop == end-to-end == 1, 2, 3 ... is what
many simple clients and test tools do) have the same (hop-by-hop, end-to-end)
pair pending at the same time.  route_answer() still takes the FIRST
connection in `_peer_waiting_answer` that has the pair pending, so the answer
to the request of peer B is written to the connection of peer A - where it
matches A's own pending request and is accepted as its answer - and A's
answer goes to B.
"""
import os
import sys

from diameter.message import Message, constants
from diameter.message.commands import CapabilitiesExchangeRequest, \
    CreditControlRequest
from diameter.node import Node
from diameter.node.application import Application
from diameter.node.peer import PeerConnection, PEER_RECV, PEER_CONNECTED, \
    PEER_READY, PEER_TRANSPORT_TCP


class FakeSocket:
    count = 4000

    def __init__(self):
        FakeSocket.count += 1
        self._fileno = FakeSocket.count

    def fileno(self):
        return self._fileno

    def close(self):
        pass

    def setsockopt(self, *args):
        pass


class App(Application):
    def __init__(self):
        super().__init__(constants.APP_DIAMETER_CREDIT_CONTROL_APPLICATION,
                         is_auth_application=True)
        self.requests = []

    def handle_request(self, message):
        self.requests.append(message)


node = Node("ocs.example.net", "example.net")
peer_a = node.add_peer("aaa://a.example.net", "example.net")
peer_b = node.add_peer("aaa://b.example.net", "example.net")
app = App()
node.add_application(app, [peer_a, peer_b])
conns = []


def connect(name: str) -> PeerConnection:
    conn = PeerConnection("127.0.0.1", 40000, PEER_RECV, node.interrupt_write)
    conns.append(conn)
    conn.state = PEER_CONNECTED
    conn.sent = []
    conn.add_out_msg = conn.sent.append
    node._add_peer_connection(conn, FakeSocket(), PEER_TRANSPORT_TCP)
    cer = CapabilitiesExchangeRequest()
    cer.header.hop_by_hop_identifier = 1
    cer.header.end_to_end_identifier = 1
    cer.origin_host = name.encode()
    cer.origin_realm = b"example.net"
    cer.host_ip_address = ["127.0.0.1"]
    cer.vendor_id = 1
    cer.product_name = "demo"
    cer.auth_application_id = [4]
    node._receive_message(conn, Message.from_bytes(cer.as_bytes()))
    assert conn.state == PEER_READY, "CER/CEA failed"
    return conn


def ccr(name: str, ident: int, session: str) -> Message:
    msg = CreditControlRequest()
    msg.header.application_id = 4
    msg.header.hop_by_hop_identifier = ident
    msg.header.end_to_end_identifier = ident
    msg.session_id = session
    msg.origin_host = name.encode()
    msg.origin_realm = b"example.net"
    msg.destination_realm = b"example.net"
    msg.auth_application_id = 4
    msg.service_context_id = "demo"
    msg.cc_request_type = constants.E_CC_REQUEST_TYPE_EVENT_REQUEST
    msg.cc_request_number = 0
    return Message.from_bytes(msg.as_bytes())


problems = []
try:
    conn_a = connect("a.example.net")
    conn_b = connect("b.example.net")

    # both clients count their identifiers from 2 after the CER
    node._receive_message(conn_a, ccr("a.example.net", 2, "a.example.net;1"))
    node._receive_message(conn_b, ccr("b.example.net", 2, "b.example.net;1"))
    req_a, req_b = app.requests

    # the application answers B's request first
    for req, expected in ((req_b, conn_b), (req_a, conn_a)):
        answer = app.generate_answer(req, result_code=2001)
        answer.cc_request_type = req.cc_request_type
        answer.cc_request_number = req.cc_request_number
        app.send_answer(answer)
        got = [c for c in (conn_a, conn_b)
               if any(m is answer for m in c.sent)]
        where = got[0].node_name if got else None
        print(f"answer for session {answer.session_id} written to {where}")
        if not got or got[0] is not expected:
            problems.append(
                f"answer of {answer.session_id} sent to {where}, expected "
                f"{expected.node_name}")
finally:
    for conn in conns:
        conn.close(signal_node=False)
    os.close(node.interrupt_read)
    os.close(node.interrupt_write)

for p in problems:
    print("PROBLEM:", p)
sys.exit(1 if problems else 0)
