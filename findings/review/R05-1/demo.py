"""3c50894: a persistently failing accept() turns the node's I/O thread into
a busy loop that logs a warning on every turn.

The listening socket stays readable for as long as the pending connection sits
in its backlog, so select() returns at once, accept() fails again (EMFILE
stays until some descriptor is released), a warning is logged, and so on -
tens of thousands of turns and log records per second, for as long as the
process is out of descriptors.

The demo really exhausts the process' file descriptors, lets one client
connect, counts the accept failures logged during one second, then releases
the descriptors again.

exit 1: the failure was retried/logged more than 50 times within one second
exit 0: the retries are paced (or the condition is handled otherwise)
"""
import logging
import os
import resource
import socket
import sys
import time

from diameter.node import Node


class Count(logging.Handler):
    def __init__(self):
        super().__init__()
        self.failures = 0

    def emit(self, record):
        if "failed to accept" in record.getMessage():
            self.failures += 1


counter = Count()
conn_logger = logging.getLogger("diameter.connection")
conn_logger.addHandler(counter)
conn_logger.setLevel(logging.WARNING)
conn_logger.propagate = False

# a free port
probe = socket.socket()
probe.bind(("127.0.0.1", 0))
port = probe.getsockname()[1]
probe.close()

node = Node("me.realm", "realm", ip_addresses=["127.0.0.1"], tcp_port=port)
node.wakeup_interval = 1
node.start()

client = socket.socket()
client.settimeout(5)

soft, hard = resource.getrlimit(resource.RLIMIT_NOFILE)
resource.setrlimit(resource.RLIMIT_NOFILE, (min(soft, 128), hard))
hog = []
try:
    while True:
        hog.append(os.dup(client.fileno()))
except OSError:
    pass

failures = 0
accepted_after_release = False
try:
    # completes in the kernel, the connection waits in the listen backlog
    client.connect(("127.0.0.1", port))
    time.sleep(1.0)
    failures = counter.failures
finally:
    for fd in hog:
        os.close(fd)
    resource.setrlimit(resource.RLIMIT_NOFILE, (soft, hard))

# the node is expected to serve the connection once descriptors are back
deadline = time.time() + 5
while time.time() < deadline:
    if len(node.connections) == 1:
        accepted_after_release = True
        break
    time.sleep(0.05)

thread_alive = node._connection_thread.is_alive()
client.close()
node.stop(force=True)

print(f"accept failures logged within one second: {failures}")
print(f"I/O thread alive: {thread_alive}, connection accepted after "
      f"descriptors were released: {accepted_after_release}")

if failures == 0:
    print("could not provoke a failing accept(), nothing demonstrated")
    sys.exit(0)
if failures > 50:
    print("PROBLEM: the I/O thread spins on the failing accept() and floods "
          "the log")
    sys.exit(1)
sys.exit(0)
