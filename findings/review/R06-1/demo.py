"""be906ce: a CER received on a connection that is already open is dropped
without any answer, and the bookkeeping record made for the request is kept
for as long as the connection lives.

Before the commit the node answered such a CER with a CEA (that was the
behaviour RFC 3588 peers rely on for re-negotiating capabilities in the open
state); the commit only had to stop the *state change*, not the answer.

exit 1: second CER unanswered and/or its record leaked
exit 0: second CER is answered (whatever result code), connection state is
        untouched, nothing is left behind
"""
import logging
import socket
import sys

from diameter.message import Message
from diameter.message.commands import CapabilitiesExchangeRequest
from diameter.message.constants import APP_RELAY
from diameter.node import Node
from diameter.node.peer import (PeerConnection, PEER_RECV, PEER_CONNECTED,
                                PEER_READY, PEER_READY_WAITING_DWA,
                                PEER_TRANSPORT_TCP)

logging.disable(logging.CRITICAL)


def cer(ident: int) -> Message:
    m = CapabilitiesExchangeRequest()
    m.header.hop_by_hop_identifier = ident
    m.header.end_to_end_identifier = ident
    m.origin_host = b"cli.realm"
    m.origin_realm = b"realm"
    m.host_ip_address = ["127.0.0.1"]
    m.vendor_id = 1
    m.product_name = "demo"
    m.auth_application_id = [APP_RELAY]
    return Message.from_bytes(m.as_bytes())


node = Node("srv.realm", "realm")
peer = node.add_peer("aaa://cli.realm", "realm")
sock_a, sock_b = socket.socketpair()
conn = PeerConnection("127.0.0.1", 3868, PEER_RECV, node.interrupt_write)
conn.state = PEER_CONNECTED
node._add_peer_connection(conn, sock_a, PEER_TRANSPORT_TCP)
sent = []
conn.add_out_msg = sent.append

problems = []
try:
    node._receive_message(conn, cer(1))
    if conn.state != PEER_READY or len(sent) != 1:
        print("setup failed: first CER did not complete the exchange")
        sys.exit(2)

    # the connection is open and, say, waiting for a DWA
    conn.state = PEER_READY_WAITING_DWA
    repeats = 50
    for i in range(2, 2 + repeats):
        node._receive_message(conn, cer(i))

    answered = {m.header.hop_by_hop_identifier for m in sent[1:]
                if not m.header.is_request}
    unanswered = [i for i in range(2, 2 + repeats) if i not in answered]
    leaked = [k for k in node._origin_waiting_answer
              if k.startswith(f"{conn.ident}:")]

    print(f"CERs sent on the open connection: {repeats}")
    print(f"answers produced for them:        {len(answered)}")
    print(f"records left in Node._origin_waiting_answer: {len(leaked)}")
    print(f"connection state: {hex(conn.state)} "
          f"(expected {hex(PEER_READY_WAITING_DWA)})")

    if unanswered:
        problems.append(f"{len(unanswered)} CER requests got no answer at all")
    if leaked:
        problems.append(f"{len(leaked)} per-request records leaked")
    if conn.state != PEER_READY_WAITING_DWA:
        problems.append("a repeated CER changed the connection state")
finally:
    conn.close(signal_node=False)
    sock_a.close()
    sock_b.close()

if problems:
    print("PROBLEM: " + "; ".join(problems))
    sys.exit(1)
print("ok")
sys.exit(0)
