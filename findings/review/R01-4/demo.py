"""ef381af ("a malformed optional Grouped AVP no longer makes the whole message
undecodable") only repairs commands that have a python class
(assign_attr_from_defs).  A command without python implementation is decoded
by UndefinedMessage._assign_attr_values, which still reads `avp.value` of a
Grouped AVP unguarded: the same truncated optional Proxy-Info makes
Message.from_bytes raise, the connection's reader discards the otherwise valid
request as garbage and it is neither delivered nor answered.

The demo feeds two requests that differ in the command code only into a
PeerConnection: Credit-Control (python class) and command 8388999 (none).
Exit code 1 when the second one is not handed to the message handler.
"""
import sys
import time

from diameter.message import Avp, Message, MessageHeader
from diameter.message.constants import *
from diameter.node.peer import PeerConnection, PEER_RECV, PEER_READY


def build_request(command_code: int, hop_by_hop: int) -> bytes:
    msg = Message()
    msg.header = MessageHeader(
        command_code=command_code, application_id=4,
        hop_by_hop_identifier=hop_by_hop, end_to_end_identifier=hop_by_hop)
    msg.header.is_request = True
    msg.header.is_proxyable = True
    msg.append_avp(Avp.new(AVP_SESSION_ID, value="client.example;1;2"))
    msg.append_avp(Avp.new(AVP_ORIGIN_HOST, value=b"client.example"))
    msg.append_avp(Avp.new(AVP_ORIGIN_REALM, value=b"example"))
    msg.append_avp(Avp.new(AVP_DESTINATION_REALM, value=b"example"))
    msg.append_avp(Avp.new(AVP_AUTH_APPLICATION_ID, value=4))
    # optional Grouped AVP with a payload that is not a sequence of AVPs
    msg.append_avp(Avp(AVP_PROXY_INFO, payload=b"\x00\x00\x01\x18\x40"))
    return msg.as_bytes()


rd, wr = __import__("os").pipe()
conn = PeerConnection("127.0.0.1", 3868, PEER_RECV, wr)
received = []
try:
    conn.ident = "0a0b0c0d0e0f"
    conn.state = PEER_READY
    conn.message_handler = lambda c, m: received.append(m.header.command_code)

    conn.add_in_bytes(build_request(272, 1))
    conn.add_in_bytes(build_request(8388999, 2))
    deadline = time.time() + 3
    while len(received) < 2 and time.time() < deadline:
        time.sleep(0.05)
finally:
    conn.close(signal_node=False)

print(f"command codes handed to the message handler: {received}")
if 272 in received and 8388999 not in received:
    print("PROBLEM: the request without python class was dropped because of "
          "its malformed optional Grouped AVP")
    sys.exit(1)
sys.exit(0 if received == [272, 8388999] else 2)
