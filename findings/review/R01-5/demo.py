"""d3787ab rejects an AVP that does not fit the 24-bit AVP length field, but the
same wrap-around is still possible one level up: Message.as_bytes() or-s the
total length into the word that also carries the version octet without any
check.  The largest AVP the new check accepts (length 0xffffff), or several
smaller AVPs that add up to 2**24-20 bytes or more, are emitted as a frame
whose header announces a few bytes only, followed by 16 MB of data.  The
connection's writer thread sends it like that and the receiving end loses the
frame boundaries.

Exit code 1 when as_bytes() returns a frame whose length field does not match
the frame, 0 when the frame is consistent or an encode error is raised.
"""
import sys

from diameter.message import Avp, Message, MessageHeader
from diameter.message.avp import AvpEncodeError
from diameter.message.commands import CreditControlRequest
from diameter.message.constants import *

ccr = CreditControlRequest()
ccr.session_id = "client.example;1;2"
ccr.origin_host = b"client.example"
ccr.origin_realm = b"example"
ccr.destination_realm = b"example"
ccr.auth_application_id = 4
ccr.service_context_id = "demo@example"
ccr.cc_request_type = 1
ccr.cc_request_number = 0
# two AVPs of 8 MB each: both are fine for the AVP length field
for _ in range(2):
    ccr.append_avp(Avp.new(AVP_CLASS, value=bytes(8 * 1024 * 1024)))

try:
    frame = ccr.as_bytes()
except (AvpEncodeError, ValueError, OverflowError) as e:
    print(f"refused to encode: {e!r}")
    sys.exit(0)

header = MessageHeader.from_bytes(frame[:20])
print(f"frame is {len(frame)} bytes long, its header says version "
      f"{header.version}, length {header.length}")
if header.length != len(frame) or header.version != 1:
    print("PROBLEM: message length wrapped in the 24-bit length field")
    sys.exit(1)
sys.exit(0)
