"""a231b14: the CEA timeout is now (explicitly) measured from the moment the
PeerConnection object was created, i.e. from dialling, not from sending the
CER. An outgoing connection whose transport handshake (TCP SYN retries, SCTP
connectx over several addresses) takes longer than `cea_timeout` is closed by
the very first _check_timers() run after its CER has been queued: it has
waited 0 seconds for the CEA. With a persistent peer this repeats on every
reconnect, the peer can never be reached. docs/guide/node.md documents
cea_timeout as "time ... the node will wait for a CEA to arrive after sending
a CER".

Time is monkeypatched, no real waiting. exit 1 = problem, exit 0 = fine.
"""
import socket
import sys
import time

import diameter.node.node as nodemod
import diameter.node.peer as peermod
from diameter.node import Node
from diameter.node.peer import PeerConnection, PEER_SEND, PEER_CONNECTING, \
    PEER_CONNECTED, PEER_TRANSPORT_TCP

real_time = time.time
offset = [0.0]


class FakeTime:
    def time(self):
        return real_time() + offset[0]

    def __getattr__(self, name):
        return getattr(time, name)


peermod.time = FakeTime()
nodemod.time = FakeTime()

node = Node("cli.example.net", "example.net")
node.cea_timeout = 4
peer = node.add_peer("aaa://srv.example.net", "example.net",
                     ip_addresses=["127.0.0.1"], is_persistent=True)

sock_a, sock_b = socket.socketpair()
# what Node._connect_to_peer does for a connect() that returns EINPROGRESS
conn = PeerConnection(peer.ip_addresses, peer.port, PEER_SEND,
                      node.interrupt_write)
conn.state = PEER_CONNECTING
conn.node_name = peer.node_name
conn.origin_host = node.origin_host
node._add_peer_connection(conn, sock_a, PEER_TRANSPORT_TCP)
sent = []
conn.add_out_msg = lambda m: sent.append(m)

try:
    # the handshake takes 6 seconds (two SYN retransmissions)
    offset[0] = 6
    node._check_timers(conn)
    assert conn.state == PEER_CONNECTING

    # socket reported writable: what _handle_connections does now
    node._flag_peer_as_connected(conn)
    node.send_cer(conn)
    assert conn.state == PEER_CONNECTED and len(sent) == 1

    # ... and at the end of the same select round
    node._check_timers(conn)

    closed = conn.ident not in node.connections
    print("CER queued:", len(sent), "- seconds waited for the CEA: 0")
    print("connection dropped by _check_timers:", closed,
          "- disconnect reason:", hex(peer.disconnect_reason or 0))
finally:
    conn.close(signal_node=False)
    sock_a.close()
    sock_b.close()

if closed:
    print("PROBLEM: connection closed for 'exceeded CEA timeout' immediately "
          "after its CER was sent")
    sys.exit(1)
print("OK: the node waits cea_timeout seconds for the CEA")
sys.exit(0)
