"""1ea6b29: a CLOSING connection whose last message is flushed while the
writer thread is still between demand_attention() and task_done() is never
closed by the node.

An unknown peer sends a CER.  The node answers 3010, puts the connection in
PEER_CLOSING and is expected to close the socket as soon as the CEA has been
written (that is what the code did before the commit).  The writer thread is
held for a moment in its logging call (msg_dump.sent, i.e. what a slow DEBUG
log handler does) - the I/O loop flushes the buffer meanwhile, sees
has_queued_messages == True, skips the close and is never woken up for this
connection again.
"""
import os
import socket
import sys
import threading
import time

from diameter.node import Node
from diameter.node.peer import PeerConnection, PEER_RECV, PEER_CONNECTED, PEER_TRANSPORT_TCP
from diameter.message.commands import CapabilitiesExchangeRequest

node = Node("node.local", "realm.local")
node.wakeup_interval = 1
node.start()

a, b = socket.socketpair()
a.setblocking(False)
conn = PeerConnection("127.0.0.1", 1000, PEER_RECV, node.interrupt_write)
conn.state = PEER_CONNECTED

in_logging = threading.Event()
release = threading.Event()


def slow_sent(msg):
    # a slow log handler: the message is in the write buffer already
    in_logging.set()
    release.wait(10)


conn.msg_dump.sent = slow_sent
node._add_peer_connection(conn, a, PEER_TRANSPORT_TCP)
conn.demand_attention()

cer = CapabilitiesExchangeRequest()
cer.header.hop_by_hop_identifier = 1
cer.header.end_to_end_identifier = 1
cer.origin_host = b"stranger.local"
cer.origin_realm = b"realm.local"
cer.host_ip_address = ["127.0.0.1"]
cer.vendor_id = 1
cer.product_name = "x"
b.sendall(cer.as_bytes())

# the rejecting CEA arrives in full while the writer is still "logging"
b.settimeout(5)
data = b""
while len(data) < 20 or len(data) < int.from_bytes(data[1:4], "big"):
    data += b.recv(4096)
assert in_logging.wait(5)
time.sleep(0.3)         # let the I/O loop finish its pass
release.set()           # writer goes on to task_done()

# the node has to close the connection now; give it several wakeup intervals
closed = False
b.settimeout(6)
try:
    closed = b.recv(4096) == b""
except ConnectionResetError:
    closed = True
except socket.timeout:
    closed = False

still_tracked = conn.ident in node.connections
print(f"CEA received: {len(data)} bytes; socket closed by node: {closed}; "
      f"connection still tracked: {still_tracked}; state: {hex(conn.state)}; "
      f"write buffer: {len(conn.write_buffer)}; "
      f"has_queued_messages: {conn.has_queued_messages}")

rc = 0 if (closed and not still_tracked) else 1
if still_tracked:
    node.close_connection_socket(conn)
conn.close(signal_node=False)
b.close()
node.stop(wait_timeout=1, force=True)
sys.exit(rc)
