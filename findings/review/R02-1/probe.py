import logging, socket, sys, time, os
from diameter.node import Node
from diameter.node.peer import *
from diameter.message.commands import CapabilitiesExchangeRequest
from diameter.message import Message

mode = sys.argv[1] if len(sys.argv) > 1 else "none"
if mode == "debug":
    h = logging.StreamHandler(open(os.devnull, "w"))
    logging.getLogger("diameter").addHandler(h)
    logging.getLogger("diameter").setLevel(logging.DEBUG)
elif mode == "slow":
    class H(logging.Handler):
        def emit(self, record):
            time.sleep(0.02)
    logging.getLogger("diameter.peer.msg").addHandler(H())
    logging.getLogger("diameter.peer.msg").setLevel(logging.DEBUG)

node = Node("node.local", "realm.local")
node.wakeup_interval = 1
node.start()

def cer():
    m = CapabilitiesExchangeRequest()
    m.header.hop_by_hop_identifier = 1
    m.header.end_to_end_identifier = 1
    m.origin_host = b"stranger.local"
    m.origin_realm = b"realm.local"
    m.host_ip_address = ["127.0.0.1"]
    m.vendor_id = 1
    m.product_name = "x"
    return m.as_bytes()

stuck = 0
N = int(sys.argv[2]) if len(sys.argv) > 2 else 30
for i in range(N):
    a, b = socket.socketpair()
    a.setblocking(False)
    conn = PeerConnection("127.0.0.1", 1000 + i, PEER_RECV, node.interrupt_write)
    conn.state = PEER_CONNECTED
    node._add_peer_connection(conn, a, PEER_TRANSPORT_TCP)
    conn.demand_attention()
    b.sendall(cer())
    b.settimeout(3)
    data = b""
    closed = False
    try:
        while True:
            d = b.recv(4096)
            if not d:
                closed = True
                break
            data += d
    except socket.timeout:
        pass
    except ConnectionResetError:
        closed = True
    if not closed:
        stuck += 1
        print(i, "stuck; state", conn.state, "got", len(data), "in connections", conn.ident in node.connections)
        node.close_connection_socket(conn)
    b.close()
print("stuck", stuck, "of", N)
node.stop(wait_timeout=2, force=True)
