"""b091cc2: add_peer() now rewrites the configured identity to lower case.

`Node.peers` is a documented public table ("holds host identities as strings
as its keys", docs/guide/node.md) and `Peer.node_name` is documented as the
"Configured node name".  Up to this commit a peer configured as
aaa://OCS1.Example.NET was found under exactly that name (and outgoing
connections to it worked completely).  Now the table key and
`Peer.node_name` are silently lower-cased: looking the peer up by the name it
was configured with raises KeyError / `in` answers False.  Neither the
docstring of add_peer nor the guide mention the rewrite.

The demo exits 0 only if BOTH hold: the peer can be looked up by the name it
was configured with (what worked before the commit), and a CER from that peer
is accepted (what the commit fixed).
"""
import os
import sys

from diameter.message import Message, constants
from diameter.message.commands import CapabilitiesExchangeRequest
from diameter.node import Node
from diameter.node.peer import PeerConnection, PEER_RECV, PEER_CONNECTED, \
    PEER_TRANSPORT_TCP

CONFIGURED = "OCS1.Example.NET"


class FakeSocket:
    def fileno(self):
        return 4242

    def close(self):
        pass

    def setsockopt(self, *args):
        pass


node = Node("client.example.net", "example.net")
peer = node.add_peer(f"aaa://{CONFIGURED}:3868", "example.net",
                     ip_addresses=["127.0.0.1"])

problems = []
if CONFIGURED not in node.peers:
    problems.append(f"{CONFIGURED!r} in node.peers -> False "
                    f"(keys: {list(node.peers)})")
try:
    found = node.peers[CONFIGURED]
except KeyError:
    problems.append(f"node.peers[{CONFIGURED!r}] -> KeyError")
else:
    if found is not peer:
        problems.append("lookup returned another peer")

# what the commit is about must of course keep working
conn = PeerConnection("127.0.0.1", 40000, PEER_RECV, node.interrupt_write)
try:
    conn.state = PEER_CONNECTED
    sent = []
    conn.add_out_msg = sent.append
    node._add_peer_connection(conn, FakeSocket(), PEER_TRANSPORT_TCP)
    cer = CapabilitiesExchangeRequest()
    cer.header.hop_by_hop_identifier = 1
    cer.header.end_to_end_identifier = 1
    cer.origin_host = CONFIGURED.encode()
    cer.origin_realm = b"example.net"
    cer.host_ip_address = ["127.0.0.1"]
    cer.vendor_id = 1
    cer.product_name = "demo"
    cer.auth_application_id = [constants.APP_RELAY]
    node._receive_message(conn, Message.from_bytes(cer.as_bytes()))
    if not sent or sent[-1].result_code != 2001:
        problems.append(f"CER of {CONFIGURED} answered "
                        f"{sent[-1].result_code if sent else None}")
finally:
    conn.close(signal_node=False)
    os.close(node.interrupt_read)
    os.close(node.interrupt_write)

for p in problems:
    print("PROBLEM:", p)
print("Peer.node_name =", repr(peer.node_name))
sys.exit(1 if problems else 0)
