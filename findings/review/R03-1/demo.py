"""99ae8a5: to_answer() of a request decoded with plain_msg=True.

A user who decodes with plain_msg=True works with raw AVP lists ("holds the
list of parsed AVPs and does nothing else"): the answer is built with
append_avp() / `avps = [...]`.  Before the commit the answer of a plain
Credit-Control request was a plain `CreditControl` and went out with exactly
the AVPs that had been appended.  Now it is a `CreditControlAnswer`, whose
constructor pre-sets `auth_application_id = 4`: the attribute-generated AVP is
emitted *in addition to* (and in front of) the appended ones, so the answer
carries a second Auth-Application-Id that the caller never asked for (with
the wrong value for anything that is not app 4, e.g. Gx 16777238).
"""
import sys

from diameter.message import Message, constants
from diameter.message.avp import Avp
from diameter.message.commands import CreditControlRequest

GX = 16777238

ccr = CreditControlRequest()
ccr.header.application_id = GX
ccr.header.hop_by_hop_identifier = 0x1111
ccr.header.end_to_end_identifier = 0x2222
ccr.session_id = "pgw.example.net;1;1"
ccr.origin_host = b"pgw.example.net"
ccr.origin_realm = b"example.net"
ccr.destination_realm = b"example.net"
ccr.auth_application_id = GX
ccr.service_context_id = "gx"
ccr.cc_request_type = constants.E_CC_REQUEST_TYPE_INITIAL_REQUEST
ccr.cc_request_number = 0
wire = ccr.as_bytes()

# raw-AVP workflow
req = Message.from_bytes(wire, plain_msg=True)
ans = req.to_answer()
appended = [
    Avp.new(constants.AVP_SESSION_ID, value="pgw.example.net;1;1"),
    Avp.new(constants.AVP_AUTH_APPLICATION_ID, value=GX),
    Avp.new(constants.AVP_ORIGIN_HOST, value=b"pcrf.example.net"),
    Avp.new(constants.AVP_ORIGIN_REALM, value=b"example.net"),
    Avp.new(constants.AVP_RESULT_CODE, value=2001),
    Avp.new(constants.AVP_CC_REQUEST_TYPE, value=1),
    Avp.new(constants.AVP_CC_REQUEST_NUMBER, value=0),
]
for a in appended:
    ans.append_avp(a)

out = Message.from_bytes(ans.as_bytes(), plain_msg=True)
sent = [(a.code, a.vendor_id, a.value) for a in out.avps]
wanted = [(a.code, a.vendor_id, a.value) for a in appended]
auth_ids = [v for c, _, v in sent if c == constants.AVP_AUTH_APPLICATION_ID]

print("answer class        :", type(ans).__name__)
print("AVPs appended       :", len(wanted))
print("AVPs on the wire    :", len(sent))
print("Auth-Application-Id :", auth_ids)

if sent != wanted:
    print("PROBLEM: the answer does not consist of the appended AVPs; "
          "an Auth-Application-Id nobody set has been added")
    sys.exit(1)
print("ok")
sys.exit(0)
