"""7c199a3: a CER carrying a malformed Host-IP-Address is now decodable, but the
`None` that replaces the undecodable value reaches Node.receive_cer, which
raises TypeError ('NoneType' object is not subscriptable) after it has already
half-initialised the connection; the peer gets 5012 "Message handling error".

Handled properly = the CER is either accepted (CEA 2001, the undecodable
address skipped) or rejected as DIAMETER_INVALID_AVP_VALUE (5004).
exit 1 = problem present, exit 0 = handled properly.
"""
import logging
import socket
import sys
import time

from diameter.message import constants
from diameter.message.avp import Avp
from diameter.message.commands import CapabilitiesExchangeRequest
from diameter.node import Node
from diameter.node.application import SimpleThreadingApplication
from diameter.node.peer import PeerConnection, PEER_RECV, PEER_CONNECTED, \
    PEER_TRANSPORT_TCP


class Capture(logging.Handler):
    def __init__(self):
        super().__init__(logging.ERROR)
        self.records = []

    def emit(self, record):
        self.records.append(record)


capture = Capture()
logging.getLogger("diameter.node").addHandler(capture)
logging.getLogger("diameter.node").propagate = False

node = Node("srv.example.net", "example.net", ip_addresses=["127.0.0.1"])
peer = node.add_peer("aaa://client.example.net", "example.net")
app = SimpleThreadingApplication(constants.APP_DIAMETER_BASE_ACCOUNTING,
                                 is_acct_application=True)
node.add_application(app, [peer])

sock_a, sock_b = socket.socketpair()
conn = PeerConnection("127.0.0.1", 1234, PEER_RECV,
                      interrupt_fileno=node.interrupt_write)
conn.state = PEER_CONNECTED
node._add_peer_connection(conn, sock_a, PEER_TRANSPORT_TCP)
sent = []
conn.add_out_msg = lambda m: sent.append(m)

cer = CapabilitiesExchangeRequest()
cer.header.hop_by_hop_identifier = 1
cer.header.end_to_end_identifier = 2
cer.origin_host = b"client.example.net"
cer.origin_realm = b"example.net"
cer.host_ip_address = ["10.0.0.1"]          # one good address ...
cer.vendor_id = 1
cer.product_name = "demo"
cer.acct_application_id = [constants.APP_DIAMETER_BASE_ACCOUNTING]
bad = Avp.new(constants.AVP_HOST_IP_ADDRESS)  # ... and one with a 1-byte payload
bad.payload = b"\x00"
cer.append_avp(bad)

try:
    # through the reader thread, exactly as bytes from the network
    conn.add_in_bytes(cer.as_bytes())
    deadline = time.time() + 5
    while not sent and time.time() < deadline:
        time.sleep(0.05)

    codes = [getattr(m, "result_code", None) for m in sent]
    type_errors = [r for r in capture.records
                   if r.exc_info and r.exc_info[0] is TypeError]
    print("answers sent:", [(m.name, getattr(m, "result_code", None),
                             getattr(m, "error_message", None)) for m in sent])
    print("connection state:", hex(conn.state))
    print("TypeError logged by _receive_message:", bool(type_errors))

    ok = (codes in ([constants.E_RESULT_CODE_DIAMETER_SUCCESS],
                    [constants.E_RESULT_CODE_DIAMETER_INVALID_AVP_VALUE])
          and not type_errors)
finally:
    conn.close(signal_node=False)
    app.stop()
    sock_a.close()
    sock_b.close()

if ok:
    print("OK: malformed Host-IP-Address handled")
    sys.exit(0)
print("PROBLEM: receive_cer crashed on the None left by the undecodable "
      "Host-IP-Address; CER answered with 5012 'Message handling error'")
sys.exit(1)
