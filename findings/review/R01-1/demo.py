"""8c6e3e8: SequenceGenerator is documented as a base class that "can be
overwritten by implementing parties, if any kind of persistence over reboots
is required".  Two natural persistence subclasses that worked before the lock
was added no longer work:

 A) a subclass that restores the stored value in its own __init__ (without
    calling the base __init__, which only draws a random start value) now
    fails with AttributeError in the inherited next_sequence();
 B) a subclass that follows the naming used by SessionGenerator / Node for its
    own lock (`_busy_lock`) and wraps super().next_sequence() in it now
    deadlocks, because the base class takes the same non-reentrant lock.

Exit code 1 when either subclass is broken, 0 when both work.
"""
import sys
import threading

from diameter.node._helpers import SequenceGenerator

problems = []


class RestoredSequence(SequenceGenerator):
    """Continues from a value persisted by the previous process."""
    def __init__(self, stored_value: int):
        self._sequence = stored_value


try:
    gen = RestoredSequence(41)
    value = gen.next_sequence()
    if value != 42:
        problems.append(f"A: unexpected value {value}")
except Exception as e:
    problems.append(f"A: inherited next_sequence() raised {e!r}")


class PersistedSequence(SequenceGenerator):
    """Stores every handed out value, under its own lock."""
    def __init__(self):
        super().__init__()
        self._busy_lock = threading.Lock()
        self.stored = None

    def next_sequence(self) -> int:
        with self._busy_lock:
            value = super().next_sequence()
            self.stored = value
            return value


result = []
worker = threading.Thread(
    target=lambda: result.append(PersistedSequence().next_sequence()),
    daemon=True)
worker.start()
worker.join(5)
if worker.is_alive():
    problems.append("B: next_sequence() of a subclass with its own "
                    "`_busy_lock` deadlocked")

for p in problems:
    print("PROBLEM", p)
sys.exit(1 if problems else 0)
