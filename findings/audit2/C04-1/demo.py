"""
C04 / finding 1: diameter.message.dump() raises AvpDecodeError for a decoded
message that contains a Grouped AVP whose payload is not a valid AVP sequence.

Message.from_bytes() accepts such a message (for commands without python
implementation since commit 8c85a3e, for plain_msg=True always), str() of the
message, of its header and of every single AVP works - but the library's own
text renderer dump(), which is documented as "essentially the same as calling
str on the message and then recursively str(avp)", reads `.value` of every
Grouped AVP outside of any try/except and lets AvpDecodeError escape.

Property clause: "rendering any decoded AVP or message header as text never
raises".
"""
import logging
import struct
import sys

logging.disable(logging.CRITICAL)

from diameter.message import Message, dump
from diameter.message.avp import AvpDecodeError


def raw_avp(code: int, payload: bytes, flags: int = 0x40) -> bytes:
    head = struct.pack(">II", code, (flags << 24) | (8 + len(payload)))
    return head + payload + b"\x00" * ((4 - len(payload) % 4) % 4)


def raw_msg(cmd: int, flags: int, app: int, body: bytes) -> bytes:
    return struct.pack(">IIIII", (1 << 24) | (20 + len(body)),
                       (flags << 24) | cmd, app, 0x1111, 0x2222) + body


session_id = raw_avp(263, b"host.realm;1;2")
origin_host = raw_avp(264, b"peer.example.net")
# Proxy-Info (284, Grouped) whose content is cut short: 5 bytes cannot hold
# an AVP header
bad_group = raw_avp(284, b"\x00\x00\x01\x18\x40")
body = session_id + origin_host + bad_group

cases = {
    "command without python implementation (code 8388620)":
        (raw_msg(8388620, 0xc0, 16777255, body), False),
    "unknown command code 999":
        (raw_msg(999, 0xc0, 0, body), False),
    "Credit-Control-Request decoded with plain_msg=True":
        (raw_msg(272, 0xc0, 4, body), True),
    # typed decoding: Experimental-Result (297, Grouped) is not an attribute of
    # CreditControlRequest, so it is kept as a raw AVP among the others
    "typed Credit-Control-Request with a malformed Grouped AVP it does not declare":
        (raw_msg(272, 0xc0, 4, session_id + origin_host +
                 raw_avp(297, b"\x00\x00\x01\x0a\x40")), False),
}

violations = 0
for label, (data, plain) in cases.items():
    print(f"--- {label}")
    msg = Message.from_bytes(data, plain_msg=plain)
    print(f"decoded as {type(msg).__name__}; str(msg) = {msg}")
    for a in msg.avps:
        # rendering every AVP on its own works, the malformed one shows as
        # "(unset)"
        print("   ", str(a))
    try:
        text = dump(msg)
    except AvpDecodeError as e:
        violations += 1
        print(f"OBSERVED: dump(msg) raised AvpDecodeError: {str(e)[:90]}...")
    except Exception as e:
        violations += 1
        print(f"OBSERVED: dump(msg) raised {type(e).__name__}: {e}")
    else:
        print("dump(msg) returned text:")
        print(text)

print()
print("REQUIRED (C04): 'rendering any decoded AVP or message header as text "
      "never raises' - dump() of a message that from_bytes() has returned "
      "must produce text (the malformed group shown without members).")
if violations:
    print(f"VIOLATION: dump() raised for {violations} of {len(cases)} decoded "
          f"messages")
    sys.exit(1)
print("no violation")
sys.exit(0)
