"""C07 / finding 1

Two answers are transmitted for ONE Device-Watchdog-Request.

Cause: Node.send_message() first queues the answer (conn.add_out_msg) and then
runs the statistics bookkeeping (_record_answer -> PeerStats.add_sent_result_code
-> SecondSlotCounter.add_count).  The per-peer counter object is shared by every
thread that sends an answer to that peer (the connection's reader thread for
DWA/DPA/CEA/error answers, the application's response thread for application
answers) and is not protected by any lock.  When two of them purge the same
outdated one-second slot, the loser gets KeyError from dict.pop().  On the
reader thread that exception travels up into the `except Exception` handler of
Node._receive_message, which builds and transmits a SECOND answer (5012) for the
request whose answer is already in the write queue.

The schedule is forced with a trace hook (no library state is touched): the
reader thread is held just before `self._slots.pop(oldest_slot)` until the
application thread has finished its own add_count().

exit 1 = violation observed, exit 0 = behaviour conforms to the property.
"""
import linecache
import socket
import sys
import threading
import time

# ----------------------------------------------------------------- fake clock
_real_time = time.time
_offset = [0.0]
time.time = lambda: _real_time() + _offset[0]

from diameter.message import Message
from diameter.message.constants import *
from diameter.message.commands import (CapabilitiesExchangeRequest,
                                       CreditControlRequest,
                                       DeviceWatchdogRequest)
from diameter.node import Node
from diameter.node.application import SimpleThreadingApplication
from diameter.node.peer import PeerConnection, PEER_RECV, PEER_CONNECTED, \
    PEER_TRANSPORT_TCP, PEER_READY
from diameter.node import _helpers

# -------------------------------------------------------------- trace (schedule)
ADD_COUNT_CODE = _helpers.SecondSlotCounter.add_count.__code__
target_counter = [None]      # the peer's "2xxx" sent-result-code counter
reader_thread = [None]
reader_at_pop = threading.Event()
other_done = threading.Event()
armed = threading.Event()
paused_once = [False]


def local_trace(frame, event, arg):
    if not armed.is_set() or frame.f_locals.get("self") is not target_counter[0]:
        return local_trace
    me = threading.current_thread()
    if me is reader_thread[0]:
        if event == "line" and not paused_once[0]:
            src = linecache.getline(frame.f_code.co_filename, frame.f_lineno)
            if ".pop(" in src:
                paused_once[0] = True
                reader_at_pop.set()
                # hold the reader here; with a lock in the counter the other
                # thread could not finish and we simply continue after 5 s
                other_done.wait(5)
    else:
        if event == "return":
            other_done.set()
    return local_trace


def global_trace(frame, event, arg):
    if frame.f_code is ADD_COUNT_CODE:
        return local_trace
    return None


threading.settrace(global_trace)

# ------------------------------------------------------------------- the node
node = Node("node.local.realm", "local.realm")
peer = node.add_peer("aaa://peer.local.realm", "local.realm")

release_cca = threading.Event()


def handle_ccr(app, msg):
    release_cca.wait(20)
    return app.generate_answer(msg, result_code=E_RESULT_CODE_DIAMETER_SUCCESS)


app = SimpleThreadingApplication(APP_DIAMETER_CREDIT_CONTROL_APPLICATION,
                                 is_auth_application=True,
                                 request_handler=handle_ccr)
node.add_application(app, [peer])

s_node, s_peer = socket.socketpair()
conn = PeerConnection("127.0.0.1", 40000, PEER_RECV, node.interrupt_write)
conn.state = PEER_CONNECTED
node._add_peer_connection(conn, s_node, PEER_TRANSPORT_TCP)
reader_thread[0] = conn._read_thread


def sent_messages():
    """Decode everything the connection has put into its write buffer."""
    with conn.write_lock:
        buf = bytes(conn._write_buffer)
    out = []
    while len(buf) >= 20:
        ln = int.from_bytes(buf[1:4], "big")
        out.append(Message.from_bytes(buf[:ln]))
        buf = buf[ln:]
    return out


def wait_for(cond, timeout=10):
    end = time.monotonic() + timeout
    while time.monotonic() < end:
        if cond():
            return True
        time.sleep(0.02)
    return False


def base(msg, hbh, e2e):
    msg.header.hop_by_hop_identifier = hbh
    msg.header.end_to_end_identifier = e2e
    msg.origin_host = b"peer.local.realm"
    msg.origin_realm = b"local.realm"
    return msg


rc = 0
try:
    # 1. capabilities exchange; its CEA (2001) creates the first slot of the
    #    peer's "2xxx" counter
    cer = base(CapabilitiesExchangeRequest(), 1, 1)
    cer.host_ip_address = ["127.0.0.1"]
    cer.vendor_id = 99
    cer.product_name = "demo"
    cer.auth_application_id = [APP_DIAMETER_CREDIT_CONTROL_APPLICATION]
    conn.add_in_bytes(cer.as_bytes())
    assert wait_for(lambda: conn.state == PEER_READY and len(sent_messages()) == 1), "no CEA"
    target_counter[0] = peer.statistics.sent_result_code_range_counters["2xxx"]

    # 2. the link is quiet for a little more than the 1000 s the counter keeps
    _offset[0] += 1100

    # 3. the peer sends a CCR; the application works on it in its own thread
    ccr = base(CreditControlRequest(), 100, 100)
    ccr.header.application_id = APP_DIAMETER_CREDIT_CONTROL_APPLICATION
    ccr.session_id = "peer.local.realm;1;1"
    ccr.destination_realm = b"local.realm"
    ccr.auth_application_id = APP_DIAMETER_CREDIT_CONTROL_APPLICATION
    ccr.service_context_id = "demo@local.realm"
    ccr.cc_request_type = E_CC_REQUEST_TYPE_EVENT_REQUEST
    ccr.cc_request_number = 0
    conn.add_in_bytes(ccr.as_bytes())
    assert wait_for(lambda: (100, 100) in node._peer_waiting_answer.get(conn.ident, {})), "CCR not dispatched"

    # 4. ... and a DWR (hop-by-hop 200); its DWA is recorded by the reader thread
    armed.set()
    dwr = base(DeviceWatchdogRequest(), 200, 200)
    conn.add_in_bytes(dwr.as_bytes())
    hit = reader_at_pop.wait(10)
    # 5. at that very moment the application's answer goes out
    release_cca.set()
    wait_for(lambda: other_done.is_set(), 6)
    print(f"schedule: reader held before pop: {hit}; "
          f"application thread finished its add_count: {other_done.is_set()}")

    wait_for(lambda: not conn.has_queued_messages and
             len([m for m in sent_messages() if m.header.command_code == 280]) >= 1
             and len([m for m in sent_messages() if m.header.command_code == 272]) >= 1, 10)
    time.sleep(0.5)

    msgs = sent_messages()
    print("messages written to the connection:")
    for m in msgs:
        print(f"   cmd={m.header.command_code} request={m.header.is_request} "
              f"hbh={m.header.hop_by_hop_identifier} e2e={m.header.end_to_end_identifier} "
              f"result_code={getattr(m, 'result_code', None)}")
    dwas = [m for m in msgs if m.header.command_code == 280
            and not m.header.is_request and m.header.hop_by_hop_identifier == 200]
    print(f"received: exactly 1 DWR (hop-by-hop 200); transmitted answers for it: {len(dwas)} "
          f"(result codes {[m.result_code for m in dwas]})")
    print("property requires: 'The node never transmits two answers for one request' -> exactly 1")
    if len(dwas) > 1:
        print("VIOLATION: two Device-Watchdog-Answers for one Device-Watchdog-Request")
        rc = 1
    elif len(dwas) == 1:
        print("OK: one answer")
    else:
        print("inconclusive: no DWA at all")
        rc = 2
except AssertionError as e:
    print(f"inconclusive: demo set-up failed: {e}")
    rc = 2
finally:
    threading.settrace(None)
    release_cca.set()
    conn.close(signal_node=False)
    app.stop()
    s_node.close()
    s_peer.close()
sys.exit(rc)
