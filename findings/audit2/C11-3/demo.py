"""C11 finding 3: a DWR that carries the T (potentially retransmitted) flag and an
End-to-End identifier the node has already answered for that Origin-Host is
NOT answered 2001 + Origin-State-Id: the generic duplicate check in
Node._receive_message runs before the watchdog dispatch and answers
5012 DIAMETER_UNABLE_TO_COMPLY without Origin-State-Id (in READY and in
READY_WAITING_DWA alike). The peer's watchdog sees a failed DWA for a live link.
"""
import sys
import time

from diameter.message import Message, constants
from diameter.message.commands import (CapabilitiesExchangeRequest,
                                       DeviceWatchdogRequest,
                                       DeviceWatchdogAnswer)
from diameter.node import Node
from diameter.node.application import SimpleThreadingApplication
from diameter.node.peer import (PeerConnection, PEER_RECV, PEER_CONNECTED,
                                PEER_READY, PEER_READY_WAITING_DWA,
                                PEER_TRANSPORT_TCP)


def wait(cond, seconds=5.0):
    end = time.time() + seconds
    while time.time() < end:
        if cond():
            return True
        time.sleep(0.01)
    return False


class FakeSocket:
    def fileno(self): return 920
    def close(self): pass
    def setsockopt(self, *a): pass


node = Node("node.local.realm", "local.realm")
peer = node.add_peer("aaa://peer.local.realm", "local.realm")
app = SimpleThreadingApplication(
    constants.APP_DIAMETER_CREDIT_CONTROL_APPLICATION, is_auth_application=True)
node.add_application(app, [peer])

wire = []  # what the node transmits, re-decoded from the encoded bytes
conn = PeerConnection("127.0.0.1", 40000, PEER_RECV, node.interrupt_write)
conn.state = PEER_CONNECTED
node._add_peer_connection(conn, FakeSocket(), PEER_TRANSPORT_TCP)
conn.add_out_msg = lambda m: wire.append(Message.from_bytes(m.as_bytes()))


def cer():
    m = CapabilitiesExchangeRequest()
    m.header.hop_by_hop_identifier = 1
    m.header.end_to_end_identifier = 1
    m.origin_host = b"peer.local.realm"
    m.origin_realm = b"local.realm"
    m.host_ip_address = ["127.0.0.1"]
    m.vendor_id = 1
    m.product_name = "peer"
    m.auth_application_id = [4]
    return m.as_bytes()


def dwr(hbh, e2e, retransmit=False):
    m = DeviceWatchdogRequest()
    m.header.hop_by_hop_identifier = hbh
    m.header.end_to_end_identifier = e2e
    m.header.is_retransmit = retransmit
    m.origin_host = b"peer.local.realm"
    m.origin_realm = b"local.realm"
    return m.as_bytes()


def exchange(label, data):
    n = len(wire)
    conn.add_in_bytes(data)
    assert wait(lambda: len(wire) > n), "no answer at all"
    time.sleep(0.1)
    answers = [a for a in wire[n:] if isinstance(a, DeviceWatchdogAnswer)]
    a = answers[0]
    print(f"{label}: answered Result-Code={a.result_code}, "
          f"Origin-State-Id={a.origin_state_id} "
          f"(node.state_id={node.state_id})")
    return a


problems = []
try:
    conn.add_in_bytes(cer())
    assert wait(lambda: conn.state == PEER_READY), "CER/CEA failed"

    a = exchange("READY             DWR e2e=0x7001", dwr(0x10, 0x7001))
    assert a.result_code == 2001 and a.origin_state_id == node.state_id

    a = exchange("READY             DWR e2e=0x7001 with T flag",
                 dwr(0x11, 0x7001, retransmit=True))
    if a.result_code != 2001 or a.origin_state_id != node.state_id:
        problems.append(
            f"in READY the T-flagged DWR was answered {a.result_code} with "
            f"Origin-State-Id {a.origin_state_id}")

    node.send_dwr(conn)   # what _check_timers does for an idle connection
    assert conn.state == PEER_READY_WAITING_DWA
    a = exchange("READY_WAITING_DWA DWR e2e=0x7001 with T flag",
                 dwr(0x12, 0x7001, retransmit=True))
    if a.result_code != 2001 or a.origin_state_id != node.state_id:
        problems.append(
            f"in READY_WAITING_DWA the T-flagged DWR was answered "
            f"{a.result_code} with Origin-State-Id {a.origin_state_id}")
finally:
    conn.close(signal_node=False)
    app.stop()

print()
print("REQUIRED: 'a received DWR is answered 2001 with the node's "
      "Origin-State-Id in either ready sub-state'.")
if problems:
    print("OBSERVED (violation):")
    for p in problems:
        print("  -", p)
    sys.exit(1)
print("OBSERVED: every DWR answered 2001 with Origin-State-Id - property holds")
sys.exit(0)
