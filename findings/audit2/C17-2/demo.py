"""C17 / finding 2: Node.send_message hands the answer to the connection first
and notes it for the retransmission check afterwards.  A T-flagged repeat that
is read from the socket after the answer has already been put on the wire, but
before the answering thread reaches Node._record_answer, is not recognised and
is delivered to the application a second time.

Real PeerConnection reader/writer threads are used; the only instrumentation
is a wrapper around conn.add_out_msg (the hand-over point to the socket) that
plays the part of the network: as soon as the answer is in the connection's
write buffer, the peer's retransmission (sent while the answer was on its way)
is fed in with conn.add_in_bytes().

Run:  PYTHONPATH=/repo/src /venv/bin/python /repo/_audit/2/demo.py
exit 1 = violation observed, exit 0 = behaves as the property says.
"""
import os
import sys
import threading
import time
import traceback

from diameter.message import Message, constants
from diameter.message.commands import (CapabilitiesExchangeRequest,
                                       CreditControlRequest)
from diameter.node import Node
from diameter.node.application import Application
from diameter.node.peer import (PeerConnection, PEER_RECV, PEER_CONNECTED,
                                PEER_READY, PEER_TRANSPORT_TCP)

ORIGIN = b"client.example.com"
CONNS = []


class FakeSock:
    def fileno(self): return 4712
    def close(self): pass
    def setsockopt(self, *a): pass


class App(Application):
    def __init__(self):
        super().__init__(constants.APP_DIAMETER_CREDIT_CONTROL_APPLICATION,
                         is_auth_application=True)
        self.delivered = []

    def handle_request(self, message):
        # work is done elsewhere (see the warning in the documentation of
        # Application.handle_request); only note the delivery here
        self.delivered.append(
            (message.header.end_to_end_identifier, message.header.is_retransmit))


def ccr_bytes(hbh, e2e, t=False):
    m = CreditControlRequest()
    m.header.application_id = 4
    m.header.hop_by_hop_identifier = hbh
    m.header.end_to_end_identifier = e2e
    m.header.is_retransmit = t
    m.session_id = "client.example.com;1;5"
    m.origin_host = ORIGIN
    m.origin_realm = b"example.com"
    m.destination_realm = b"example.com"
    m.auth_application_id = 4
    m.service_context_id = "ctx@example.com"
    m.cc_request_type = constants.E_CC_REQUEST_TYPE_EVENT_REQUEST
    m.cc_request_number = 0
    return m.as_bytes()


def wait_for(cond, timeout=10.0):
    end = time.time() + timeout
    while time.time() < end:
        if cond():
            return True
        time.sleep(0.005)
    return cond()


def main():
    node = Node("srv.example.com", "example.com")
    node.retransmit_queue_size = 4
    peer = node.add_peer("aaa://relay.example.com", "example.com")
    app = App()
    node.add_application(app, [peer])

    conn = PeerConnection("10.0.0.1", 3868, PEER_RECV, node.interrupt_write)
    CONNS.append(conn)
    conn.state = PEER_CONNECTED
    node._add_peer_connection(conn, FakeSock(), PEER_TRANSPORT_TCP)

    handed_over = []            # every message handed to the connection
    real_add_out_msg = conn.add_out_msg
    state = {"armed": False, "answer_on_wire_first": None}

    def add_out_msg(msg):
        real_add_out_msg(msg)
        handed_over.append(msg)
        if (state["armed"] and not msg.header.is_request and
                msg.header.command_code == 272 and
                msg.header.end_to_end_identifier == 5 and
                getattr(msg, "result_code", None) == 2001):
            state["armed"] = False
            # the writer thread encodes the answer into the write buffer, from
            # where the node's select loop sends it: the request IS answered
            state["answer_on_wire_first"] = wait_for(
                lambda: len(conn.write_buffer) > 0)
            # the peer's retransmission, sent before it saw the answer
            conn.add_in_bytes(ccr_bytes(22, 5, t=True))
            wait_for(lambda: len(app.delivered) >= 2 or any(
                getattr(m, "result_code", None) == 5012 for m in handed_over), 5)

    conn.add_out_msg = add_out_msg

    cer = CapabilitiesExchangeRequest()
    cer.header.hop_by_hop_identifier = 1
    cer.header.end_to_end_identifier = 0x100
    cer.origin_host = b"relay.example.com"
    cer.origin_realm = b"example.com"
    cer.host_ip_address = ["10.0.0.1"]
    cer.vendor_id = 1
    cer.product_name = "relay"
    cer.auth_application_id = [4]
    conn.add_in_bytes(cer.as_bytes())
    assert wait_for(lambda: conn.state == PEER_READY and len(conn.write_buffer) > 0)
    conn.remove_out_bytes(len(conn.write_buffer))      # CEA "sent"

    conn.add_in_bytes(ccr_bytes(11, 5))
    assert wait_for(lambda: len(app.delivered) == 1)
    request = Message.from_bytes(ccr_bytes(11, 5))

    state["armed"] = True
    worker = threading.Thread(
        target=lambda: app.send_answer(app.generate_answer(
            request, result_code=constants.E_RESULT_CODE_DIAMETER_SUCCESS)),
        name="app-worker")
    worker.start()
    worker.join(30)
    wait_for(lambda: len(handed_over) >= 3, 1)

    print("answer 2001 for end-to-end id 5 was in the connection's write "
          "buffer before the repeat was read:", state["answer_on_wire_first"])
    print("deliveries to the application (e2e, T flag):", app.delivered)
    print("messages handed to the connection (cmd, e2e, result):",
          [(m.header.command_code, m.header.end_to_end_identifier,
            getattr(m, "result_code", None)) for m in handed_over])
    print("window for the origin afterwards:", node._sent_answers.get(ORIGIN))
    print("property requires: a T-flagged request whose origin host and "
          "end-to-end id equal those of an already answered request is "
          "answered 5012 by the node and not delivered to an application again")

    if not state["answer_on_wire_first"]:
        print("demo setup failed")
        return 2
    again = [d for d in app.delivered[1:] if d == (5, True)]
    rejected = [m for m in handed_over
                if getattr(m, "result_code", None) == 5012]
    if not again and len(rejected) == 1:
        print("OK: behaves as the property says")
        return 0
    print("VIOLATION: the repeat of an answered request reached the "
          "application (%d extra delivery, %d rejection(s) with 5012)"
          % (len(again), len(rejected)))
    return 1


if __name__ == "__main__":
    rc = 2
    try:
        rc = main()
    except BaseException:
        traceback.print_exc()
    finally:
        for c in CONNS:
            c.close(signal_node=False)
    sys.stdout.flush()
    os._exit(rc)
