"""C17 / finding 1: the first two answers to a new origin host, sent by two
threads at the same time, race on the creation of that origin's window in
Node._record_answer; one answered end-to-end identifier is lost, and its
T-flagged retransmission is delivered to the application a second time.

Run:  PYTHONPATH=/repo/src /venv/bin/python /repo/_audit/1/demo.py
exit 1 = violation observed, exit 0 = behaves as the property says.
"""
import os
import sys
import threading
import traceback

from diameter.message import Message, constants
from diameter.message.commands import (CapabilitiesExchangeRequest,
                                       CreditControlRequest)
from diameter.node import Node
from diameter.node import node as node_module
from diameter.node.application import Application
from diameter.node.peer import (PeerConnection, PEER_RECV, PEER_CONNECTED,
                                PEER_READY, PEER_TRANSPORT_TCP)

ORIGIN = b"client.example.com"
CONNS = []


class FakeSock:
    def fileno(self): return 4711
    def close(self): pass
    def setsockopt(self, *a): pass


class App(Application):
    """An application that answers from its own worker threads (allowed: the
    documentation of handle_request asks for exactly that)."""
    def __init__(self):
        super().__init__(constants.APP_DIAMETER_CREDIT_CONTROL_APPLICATION,
                         is_auth_application=True)
        self.delivered = []

    def handle_request(self, message):
        self.delivered.append(message)


def ccr(hbh, e2e, t=False):
    m = CreditControlRequest()
    m.header.application_id = 4
    m.header.hop_by_hop_identifier = hbh
    m.header.end_to_end_identifier = e2e
    m.header.is_retransmit = t
    m.session_id = "client.example.com;1;%d" % e2e
    m.origin_host = ORIGIN
    m.origin_realm = b"example.com"
    m.destination_realm = b"example.com"
    m.auth_application_id = 4
    m.service_context_id = "ctx@example.com"
    m.cc_request_type = constants.E_CC_REQUEST_TYPE_EVENT_REQUEST
    m.cc_request_number = 0
    return Message.from_bytes(m.as_bytes())      # what the reader thread decodes


def main():
    node = Node("srv.example.com", "example.com")
    node.retransmit_queue_size = 4
    peer = node.add_peer("aaa://relay.example.com", "example.com")
    app = App()
    node.add_application(app, [peer])

    conn = PeerConnection("10.0.0.1", 3868, PEER_RECV, node.interrupt_write)
    CONNS.append(conn)
    conn.state = PEER_CONNECTED
    node._add_peer_connection(conn, FakeSock(), PEER_TRANSPORT_TCP)
    wire = []                                   # the virtual socket
    conn.add_out_msg = wire.append

    cer = CapabilitiesExchangeRequest()
    cer.header.hop_by_hop_identifier = 1
    cer.header.end_to_end_identifier = 0x100
    cer.origin_host = b"relay.example.com"
    cer.origin_realm = b"example.com"
    cer.host_ip_address = ["10.0.0.1"]
    cer.vendor_id = 1
    cer.product_name = "relay"
    cer.auth_application_id = [4]
    node._receive_message(conn, Message.from_bytes(cer.as_bytes()))
    assert conn.state == PEER_READY

    # two requests of the same, so far unseen origin host; both are delivered
    r5, r6 = ccr(11, 5), ccr(12, 6)
    node._receive_message(conn, r5)
    node._receive_message(conn, r6)
    assert len(app.delivered) == 2

    # --- the schedule ------------------------------------------------------
    # Pure scheduling aid: `deque` as seen by node.py still returns a real
    # deque, it only decides WHEN each of the two threads continues.  Both
    # threads have then evaluated `origin_host not in self._sent_answers`
    # (true for both) before either of them stores its new deque.
    real_deque = node_module.deque
    second_arrived = threading.Event()
    first_done = threading.Event()
    order = []
    order_lock = threading.Lock()

    def scheduling_deque(*a, **kw):
        with order_lock:
            order.append(threading.current_thread().name)
            mine = len(order)
        if mine == 1:
            second_arrived.wait(5)     # let the other thread pass the check
        elif mine == 2:
            second_arrived.set()
            first_done.wait(5)         # first thread stores + appends now
        return real_deque(*a, **kw)

    node_module.deque = scheduling_deque

    def answer(req, done_evt=None):
        try:
            app.send_answer(app.generate_answer(
                req, result_code=constants.E_RESULT_CODE_DIAMETER_SUCCESS))
        finally:
            if done_evt is not None:
                done_evt.set()

    t1 = threading.Thread(target=answer, args=(r5, first_done), name="worker-1")
    t2 = threading.Thread(target=answer, args=(r6,), name="worker-2")
    t1.start()
    # make sure worker-1 is the first one inside
    while not order:
        pass
    t2.start()
    t1.join(30)
    t2.join(30)
    node_module.deque = real_deque
    # ------------------------------------------------------------------------

    answered = [(m.header.end_to_end_identifier, m.result_code)
                for m in wire if m.header.command_code == 272]
    print("answers written to the connection (e2e, result):", answered)
    print("window kept for %r: %r" % (ORIGIN, node._sent_answers.get(ORIGIN)))

    before = len(app.delivered)
    wire_before = len(wire)
    node._receive_message(conn, ccr(21, 5, t=True))   # retransmission of e2e 5
    redelivered = len(app.delivered) - before
    rejected = [m.result_code for m in wire[wire_before:]]

    print("T-flagged repeat of end-to-end id 5: delivered to the application "
          "%d time(s), node answers: %r" % (redelivered, rejected))
    print("property requires: both 5 and 6 are among the 4 most recent "
          "answers to %r, so the repeat is answered 5012 by the node and not "
          "delivered again" % ORIGIN)

    if sorted(e for e, _ in answered) != [5, 6]:
        print("demo setup failed: both answers should have been written")
        return 2
    if redelivered == 0 and rejected == [5012]:
        print("OK: behaves as the property says")
        return 0
    print("VIOLATION: an answered request was handed to the application again")
    return 1


if __name__ == "__main__":
    rc = 2
    try:
        rc = main()
    except BaseException:
        traceback.print_exc()
    finally:
        for c in CONNS:
            c.close(signal_node=False)
    sys.stdout.flush()
    os._exit(rc)
