"""
C14 demo 2: the node's connection thread is killed by an OSError when the
remote peer rejects our CER and closes the socket (outbound handshake,
orderly close).

Node.close_connection_socket() is run by two threads for the same connection:
  * the connection's reader thread  (receive_cea: "CER rejected ... closing")
  * the node's connection thread    (recv() returned 0 bytes: "has gone away")
Both do   sock = self.peer_sockets.get(ident); <log>; sock.setsockopt(SO_LINGER);
sock.close()   without any lock.  When both have fetched the socket object and
one of them has closed it, the other one's setsockopt() raises
OSError(EBADF).  In the reader thread that is caught by _receive_message; in
_handle_connections nothing catches it: the connection thread ends and the
node neither reads, writes, accepts, checks timers nor re-dials any more.

The interleaving is forced with a logging filter (a slow log sink is all it
takes in production: logging I/O releases the GIL exactly between the lookup
and the setsockopt call).  No library code or private state is touched.

exit 1: connection thread dead / later peer is not served   (violation)
exit 0: connection thread alive and a peer connecting afterwards gets its CEA
"""
import logging, os, socket, sys, threading, time

from diameter.message import Message, constants
from diameter.message.commands import (CapabilitiesExchangeAnswer,
                                       CapabilitiesExchangeRequest)
from diameter.node import Node
from diameter.node.application import SimpleThreadingApplication


def free_port():
    s = socket.socket(); s.bind(("127.0.0.1", 0)); p = s.getsockname()[1]; s.close()
    return p


def read_msg(s, timeout):
    s.settimeout(timeout)
    buf = b""
    try:
        while len(buf) < 20:
            d = s.recv(20 - len(buf))
            if not d:
                return None
            buf += d
        ln = int.from_bytes(buf[1:4], "big")
        while len(buf) < ln:
            d = s.recv(ln - len(buf))
            if not d:
                return None
            buf += d
    except (socket.timeout, OSError):
        return None
    return Message.from_bytes(buf)


listen_port = free_port()
remote_port = free_port()

# the remote diameter peer the node dials: reads the CER, answers 3010 and
# closes the connection in an orderly way
remote = socket.socket()
remote.setsockopt(socket.SOL_SOCKET, socket.SO_REUSEADDR, 1)
remote.bind(("127.0.0.1", remote_port))
remote.listen(5)


def remote_peer():
    c, _ = remote.accept()
    req = read_msg(c, 5)
    cea = req.to_answer()
    cea.origin_host = b"remote.example"
    cea.origin_realm = b"example"
    cea.result_code = constants.E_RESULT_CODE_DIAMETER_UNKNOWN_PEER
    cea.host_ip_address = ["127.0.0.1"]
    cea.vendor_id = 1
    cea.product_name = "remote"
    c.sendall(cea.as_bytes())
    c.close()                       # orderly close right after the rejection


threading.Thread(target=remote_peer, daemon=True).start()

# --- schedule control through logging only -----------------------------------
node_in_close = threading.Event()     # node thread fetched the socket object
reader_done = threading.Event()       # reader thread closed socket + removed conn
thread_errors = []


class Scheduler(logging.Filter):
    # a logger-level filter runs without any logging lock held
    def filter(self, record):
        msg = record.getMessage()
        tname = threading.current_thread().name
        if "CER rejected" in msg:
            # reader thread, before it calls close_connection_socket
            node_in_close.wait(10)
        elif "shutting down socket" in msg and "_handle_connections" in tname:
            # node thread, between peer_sockets.get() and setsockopt()
            node_in_close.set()
            reader_done.wait(10)
        elif msg.endswith(" removed") and "work_read_queue" in tname:
            reader_done.set()
        return False          # nothing is printed


sched = Scheduler()
for name in ("diameter.node", "diameter.connection"):
    lg = logging.getLogger(name)
    lg.setLevel(logging.DEBUG)
    lg.addFilter(sched)

threading.excepthook = lambda a: thread_errors.append(
    f"{a.thread.name}: {a.exc_type.__name__}: {a.exc_value}")

node = Node("client.example", "example", ip_addresses=["127.0.0.1"],
            tcp_port=listen_port)
node.wakeup_interval = 1
p_remote = node.add_peer(f"aaa://remote.example:{remote_port}", "example",
                         ip_addresses=["127.0.0.1"], is_persistent=True)
p_remote.reconnect_wait = 2
p_other = node.add_peer("aaa://other.example", "example")
app = SimpleThreadingApplication(
    constants.APP_DIAMETER_CREDIT_CONTROL_APPLICATION, is_auth_application=True,
    request_handler=lambda a, m: a.generate_answer(m, result_code=2001))
node.add_application(app, [p_remote, p_other])
node.start()

time.sleep(4)
alive = node._connection_thread.is_alive()
print("remote peer answered our CER with 3010 and closed the connection")
print("node connection thread alive:", alive)
for e in thread_errors:
    print("uncaught in thread ->", e)

# probe: a configured peer that connects afterwards
answer = None
try:
    s = socket.create_connection(("127.0.0.1", listen_port), timeout=3)
    m = CapabilitiesExchangeRequest()
    m.header.hop_by_hop_identifier = 1
    m.header.end_to_end_identifier = 1
    m.origin_host = b"other.example"
    m.origin_realm = b"example"
    m.host_ip_address = ["127.0.0.1"]
    m.vendor_id = 1
    m.product_name = "probe"
    m.auth_application_id = [4]
    s.sendall(m.as_bytes())
    answer = read_msg(s, 6)
    s.close()
except OSError as e:
    print("probe connection failed:", e)

served = answer is not None and getattr(answer, "result_code", None) == 2001
print("probe other.example: CEA", answer.result_code if answer else "never received")

if alive and served:
    print("OK: connection thread survived, later peer served")
    code = 0
else:
    print("OBSERVED: the CER rejection + close of ONE outbound connection ended "
          "Node._connection_thread with an uncaught OSError from "
          "close_connection_socket(); the later peer got no CEA")
    print("REQUIRED: 'the connection is lost at any point of a handshake ... no "
          "node, connection or application worker thread terminates abnormally "
          "... A peer that connects afterwards completes its capabilities "
          "exchange'")
    code = 1
sys.stdout.flush()
os._exit(code)
