"""
Supporting evidence for finding 2 (not the demonstration): no hooks at all.
A remote peer that answers every CER with 3010 and closes; the node re-dials
it immediately.  Prints after how many rejected handshakes the node's
connection thread died.  Usage: natural_rate.py [LOGLEVEL]   (default CRITICAL)
"""
import logging, os, socket, sys, threading, time, traceback
from diameter.message import Message
from diameter.node import Node
from diameter.node.application import SimpleThreadingApplication

logging.basicConfig(level=getattr(logging, sys.argv[1] if len(sys.argv) > 1 else "CRITICAL"),
                    stream=open(os.devnull, "w"))
errs = []


def hook(a):
    errs.append(f"{a.thread.name}: {a.exc_type.__name__}: {a.exc_value} at "
                + " < ".join(f"{f.name}:{f.lineno}" for f in reversed(traceback.extract_tb(a.exc_traceback)[-2:])))


threading.excepthook = hook


def read_msg(s):
    s.settimeout(5)
    buf = b""
    while len(buf) < 20:
        d = s.recv(20 - len(buf))
        if not d:
            return None
        buf += d
    ln = int.from_bytes(buf[1:4], "big")
    while len(buf) < ln:
        d = s.recv(ln - len(buf))
        if not d:
            return None
        buf += d
    return Message.from_bytes(buf)


srv = socket.socket()
srv.setsockopt(socket.SOL_SOCKET, socket.SO_REUSEADDR, 1)
srv.bind(("127.0.0.1", 0))
srv.listen(50)
rp = srv.getsockname()[1]
count = [0]


def remote():
    while True:
        c, _ = srv.accept()
        try:
            req = read_msg(c)
            if req is None:
                c.close()
                continue
            cea = req.to_answer()
            cea.origin_host = b"remote.example"
            cea.origin_realm = b"example"
            cea.result_code = 3010
            cea.host_ip_address = ["127.0.0.1"]
            cea.vendor_id = 1
            cea.product_name = "r"
            c.sendall(cea.as_bytes())
            c.close()
            count[0] += 1
        except OSError:
            pass


threading.Thread(target=remote, daemon=True).start()
node = Node("client.example", "example")
node.wakeup_interval = 0.05
p = node.add_peer(f"aaa://remote.example:{rp}", "example",
                  ip_addresses=["127.0.0.1"], is_persistent=True)
p.reconnect_wait = 0
app = SimpleThreadingApplication(4, is_auth_application=True)
node.add_application(app, [p])
node.start()
t0 = time.time()
while time.time() - t0 < 40 and node._connection_thread.is_alive():
    time.sleep(0.05)
print(f"after {time.time() - t0:.1f}s and {count[0]} rejected handshakes: "
      f"connection thread alive = {node._connection_thread.is_alive()}", errs)
os._exit(0)
