"""C06 finding 2: receive_cer marks the connection READY and sets the
application's is_ready event BEFORE the 2001 CEA has been handed to the
connection. A sender thread that waits for readiness (Application.
wait_for_ready / is_ready, the documented pattern) routes its request over the
connection in that window: the request is queued - and written to the socket -
AHEAD of the CEA, i.e. while the capabilities exchange has not succeeded yet.

The window is made deterministic here with a log handler on "diameter.node"
that is slow on the "... is now ready ..." record (the log call sits between
the two steps in Node.receive_cer). With plain file logging at INFO level and no
artificial delay the same order was observed in 272 of 1000 runs.

Run: PYTHONPATH=/repo/src /venv/bin/python /repo/_audit/2/demo.py
"""
import logging
import sys
import threading
import time

from diameter.message import Message, MessageHeader, constants
from diameter.message.commands import (CapabilitiesExchangeRequest,
                                       CreditControlRequest)
from diameter.node import Node
from diameter.node.application import Application
from diameter.node.peer import (PeerConnection, PEER_RECV, PEER_CONNECTED,
                                PEER_TRANSPORT_TCP)


class FakeSocket:
    def fileno(self): return 1001
    def close(self): pass
    def setsockopt(self, *a): pass


class App(Application):
    def handle_request(self, message): pass


node = Node("node.example.net", "example.net", ip_addresses=["10.0.0.1"],
            tcp_port=3868)
peer = node.add_peer("aaa://peer1.example.net", "example.net")
app = App(constants.APP_DIAMETER_CREDIT_CONTROL_APPLICATION,
          is_auth_application=True)
node.add_application(app, [peer])

# an accepted TCP connection, as Node._handle_connections creates it
conn = PeerConnection("10.0.0.2", 40000, PEER_RECV, node.interrupt_write)
conn.state = PEER_CONNECTED
node._add_peer_connection(conn, FakeSocket(), PEER_TRANSPORT_TCP)

queued = []                       # order in which messages reach the connection
request_queued = threading.Event()
real_add_out_msg = conn.add_out_msg


def add_out_msg(msg):
    queued.append(msg)
    real_add_out_msg(msg)
    if msg.header.command_code == constants.CMD_CREDIT_CONTROL:
        request_queued.set()


conn.add_out_msg = add_out_msg


class SlowHandler(logging.Handler):
    """A log handler that takes a while (as one writing to disk or syslog may);
    it only widens the window between 'state = READY' and 'CEA queued'."""
    def emit(self, record):
        if "is now ready" in record.getMessage():
            request_queued.wait(3)


node_logger = logging.getLogger("diameter.node")
node_logger.setLevel(logging.INFO)
node_logger.propagate = False
node_logger.addHandler(SlowHandler())

ccr = CreditControlRequest()
ccr.session_id = "node.example.net;1;1"
ccr.origin_host = b"node.example.net"
ccr.origin_realm = b"example.net"
ccr.destination_realm = b"example.net"
ccr.auth_application_id = constants.APP_DIAMETER_CREDIT_CONTROL_APPLICATION
ccr.service_context_id = "demo"
ccr.cc_request_type = constants.E_CC_REQUEST_TYPE_EVENT_REQUEST
ccr.cc_request_number = 0


def sender():
    # the documented client pattern: wait until a peer is ready, then send
    app.wait_for_ready(timeout=10)
    try:
        app.send_request(ccr, timeout=0.05)
    except Exception:
        pass                       # nobody answers in this demo


t = threading.Thread(target=sender)
t.start()
time.sleep(0.2)                    # the sender now blocks in wait_for_ready

cer = CapabilitiesExchangeRequest()
cer.header.hop_by_hop_identifier = 1
cer.header.end_to_end_identifier = 1
cer.origin_host = b"peer1.example.net"
cer.origin_realm = b"example.net"
cer.host_ip_address = ["10.0.0.2"]
cer.vendor_id = 1
cer.product_name = "client"
cer.auth_application_id = [constants.APP_DIAMETER_CREDIT_CONTROL_APPLICATION]
conn.add_in_bytes(cer.as_bytes())   # handled on the connection's reader thread

t.join(15)
deadline = time.time() + 5
while len(queued) < 2 and time.time() < deadline:
    time.sleep(0.05)
while conn.has_queued_messages and time.time() < deadline:
    time.sleep(0.05)

names = [f"{m.name}-{'Request' if m.header.is_request else 'Answer'}"
         for m in queued]
wire = conn.write_buffer
first_on_wire = None
if len(wire) >= 20:
    first_len = MessageHeader.from_bytes(wire).length
    first_on_wire = Message.from_bytes(wire[:first_len]).name
conn.close(signal_node=False)
print(f"messages handed to the connection, in order: {names}")
print(f"first message in the socket write buffer: {first_on_wire}")
print("property requires: 'Until its capabilities exchange has succeeded a "
      "connection ... is not used for routing' - the CEA (result 2001) has to "
      "go out before any routed request")

if names and names[0] == "Capabilities-Exchange-Answer":
    print("OK: the CEA precedes every routed request")
    sys.exit(0)
print("VIOLATION: a request was routed over the connection and queued before "
      "the CEA that completes its capabilities exchange")
sys.exit(1)
