"""C01 / finding 3: Float32 NaNs with a clear quiet bit are not carried bit-exactly.

AvpFloat32 converts between the 4 wire octets and the python float (a C double)
with struct "!f", i.e. through a C float<->double cast.  On the usual platforms
(x86-64, aarch64; CPython < 3.14) that cast turns a signalling NaN into a quiet
one.  Every other Float32 bit pattern (zeros, denormals, infinities, quiet NaNs
with payload) and every Float64 bit pattern survives.

  wire 7fa00000 --decode--> value --encode--> 7fe00000
  value double 7ff4000000000000 (exactly representable in binary32 as 7fa00000)
        --encode--> 7fe00000 --decode--> 7ffc000000000000
"""
import struct
import sys

from diameter.message.avp import Avp
from diameter.message.constants import AVP_BANDWIDTH   # Float32, RFC 5777


def f32_bits_of_double(x: float) -> bytes:
    """Independent binary64 -> binary32 conversion of a NaN: keep sign, set
    exponent to all ones, keep the top 23 mantissa bits (exact when the low 29
    bits are zero, which is the case for every value used here)."""
    q = struct.unpack(">Q", struct.pack(">d", x))[0]
    sign = q >> 63
    mant = q & ((1 << 52) - 1)
    assert (q >> 52) & 0x7ff == 0x7ff and mant and mant & ((1 << 29) - 1) == 0
    return struct.pack(">I", (sign << 31) | (0xff << 23) | (mant >> 29))


violations = 0
patterns = ["7fa00000", "7f800001", "ffa00000", "7fbfffff",   # signalling NaNs
            "7fc00000", "7fc00001", "ffc12345",               # quiet NaNs
            "00000001", "807fffff", "7f800000", "80000000"]   # denormal, inf, -0
for hexbits in patterns:
    bits = bytes.fromhex(hexbits)
    wire = struct.pack(">II", AVP_BANDWIDTH, (0x40 << 24) | 12) + bits

    dec = Avp.from_bytes(wire)
    assert dec.as_bytes() == wire
    value = dec.value                       # python float read from the AVP
    again = Avp.new(AVP_BANDWIDTH, value=value).as_bytes()
    if again != wire:
        violations += 1
        print(f"Float32 {hexbits}:")
        print(f"   observed: decoded value re-encodes as {again[8:].hex()}")
        print(f"   required: {hexbits} (floats are compared bitwise)")

# the other direction: a python float that IS in the Float32 domain
snan = struct.unpack(">d", bytes.fromhex("7ff4000000000000"))[0]
want = f32_bits_of_double(snan)
enc = Avp.new(AVP_BANDWIDTH, value=snan)
back = Avp.from_bytes(enc.as_bytes()).value
if enc.payload != want or struct.pack(">d", back) != struct.pack(">d", snan):
    violations += 1
    print("Float32 value = double 7ff4000000000000 (binary32 7fa00000):")
    print(f"   observed: payload {enc.payload.hex()}, decoded again as double "
          f"{struct.pack('>d', back).hex()}")
    print(f"   required: payload {want.hex()}, decoded value bitwise equal "
          f"to the input")

if violations:
    print(f"\nVIOLATION: {violations} Float32 NaN values do not survive "
          f"value <-> wire conversion bit-exactly")
    sys.exit(1)
print("all Float32 bit patterns survive")
sys.exit(0)
