"""C12 / finding 3

remove_peer_connection() restarts a peer's reconnect wait (Peer.last_disconnect
= now) for ANY connection that carries the peer's name while Peer.connection
is None - also for an inbound connection that never became the peer's
connection because its CER was refused with 5010 NO_COMMON_APPLICATION.

History (virtual clock, the I/O loop's per-round work is done by hand exactly
as Node._handle_connections does it: _check_timers for every connection, then
_reconnect_peers):

  t=1000  node dials persistent peer P (reconnect_wait 30): refused  -> lost
  t=1020  somebody connects and sends a CER with Origin-Host = P and an
          application the node does not have -> CEA 5010, not attached to P
  t=1021  that socket is closed by the other side
  t=1030  reconnect wait of P has elapsed            -> P must be dialled
          ... the node dials at t=1051 only (and never, if the visitor comes
          back every 25 s)

exit 1 = violation observed, exit 0 = dialled when the wait had elapsed
"""
import errno
import os
import socket
import sys
import time

import diameter.node.node as node_mod
from diameter.message import Message, constants
from diameter.message.commands import CapabilitiesExchangeRequest
from diameter.node import Node
from diameter.node.application import SimpleThreadingApplication
from diameter.node.peer import (PeerConnection, PEER_RECV, PEER_CONNECTED,
                                PEER_TRANSPORT_TCP,
                                DISCONNECT_REASON_GONE_AWAY)

# ----------------------------------------------------------- virtual clock
clock = [1000.0]
real_time = time.time
time.time = lambda: clock[0]

# ---------------------------------------------------- virtual socket layer
connect_calls = []
_fileno = [1000]


class FakeSocket:
    def __init__(self, *a, **kw):
        _fileno[0] += 1
        self._fd = _fileno[0]

    def setblocking(self, flag): pass
    def setsockopt(self, *a): pass
    def getsockname(self): return "127.0.0.1", 40000
    def fileno(self): return self._fd
    def close(self): self._fd = -1

    def connect(self, addr):
        connect_calls.append((clock[0], addr))
        raise ConnectionRefusedError(errno.ECONNREFUSED, "Connection refused")


real_socket = socket.socket
socket.socket = FakeSocket

node = Node("node.example.net", "example.net",
            ip_addresses=["127.0.0.1"], tcp_port=3868)
peer = node.add_peer("aaa://peer.example.net", "example.net",
                     ip_addresses=["10.0.0.1"], is_persistent=True)
peer.reconnect_wait = 30
app = SimpleThreadingApplication(constants.APP_DIAMETER_CREDIT_CONTROL_APPLICATION,
                                 is_auth_application=True)
node.add_application(app, [peer])


def io_round():
    """what one turn of Node._handle_connections does after select()"""
    for c in list(node.connections.values()):
        node._check_timers(c)
    node._reconnect_peers()


# t=1000: what Node.start() does for a persistent peer
node._connect_to_peer(peer)
print(f"t={clock[0]:.0f}: dialled, refused; peer.connection={peer.connection} "
      f"last_disconnect={peer.last_disconnect} "
      f"reason={hex(peer.disconnect_reason)}")
loss_time = clock[0]

conns = []
for t in range(1001, 1071):
    clock[0] = float(t)

    if t == 1020:
        # what _handle_connections does for an accepted TCP connection
        conn = PeerConnection("10.9.9.9", 55555, PEER_RECV,
                              interrupt_fileno=node.interrupt_write)
        conn.state = PEER_CONNECTED
        node._add_peer_connection(conn, FakeSocket(), PEER_TRANSPORT_TCP)
        conns.append(conn)
        cer = CapabilitiesExchangeRequest()
        cer.header.hop_by_hop_identifier = 1
        cer.header.end_to_end_identifier = 1
        cer.origin_host = b"peer.example.net"
        cer.origin_realm = b"example.net"
        cer.host_ip_address = ["10.9.9.9"]
        cer.vendor_id = 1
        cer.product_name = "visitor"
        cer.auth_application_id = [constants.APP_DIAMETER_BASE_ACCOUNTING + 1000]
        conn.add_in_bytes(cer.as_bytes())
        w = real_time()
        while not conn.write_buffer and real_time() - w < 5:
            time.sleep(0.01)
        cea = Message.from_bytes(conn.write_buffer)
        print(f"t={t}: visitor's CER (Origin-Host peer.example.net) answered "
              f"with {cea.result_code}; peer.connection={peer.connection}")

    if t == 1021:
        # recv() returned b"": what _handle_connections does then
        node.close_connection_socket(conn, DISCONNECT_REASON_GONE_AWAY)
        conn.close(signal_node=False)
        print(f"t={t}: visitor hung up; connections={len(node.connections)} "
              f"peer.connection={peer.connection} "
              f"last_disconnect={peer.last_disconnect}")

    before = len(connect_calls)
    io_round()
    if len(connect_calls) > before:
        print(f"t={t}: connect() to {connect_calls[-1][1]}")
        break

redial = connect_calls[1][0] if len(connect_calls) > 1 else None
print(f"observed: connection lost at t={loss_time:.0f}, reconnect_wait="
      f"{peer.reconnect_wait}, next connect() at t="
      f"{redial if redial is None else int(redial)}")
print("required: dialled again once its reconnect wait has elapsed, i.e. at "
      f"t={loss_time + peer.reconnect_wait:.0f} (persistent, no DPR, node not "
      "stopping, peer has had no connection at any time since t=1000)")

for c in conns:
    c.close(signal_node=False)
for c in list(node.connections.values()):
    c.close(signal_node=False)
app.stop()
socket.socket = real_socket
time.time = real_time
sys.stdout.flush()
if redial is None or redial > loss_time + peer.reconnect_wait + 1:
    print("VIOLATION: the reconnect wait was restarted by a connection that "
          "never was the peer's connection")
    sys.stdout.flush()
    os._exit(1)
print("ok")
sys.stdout.flush()
os._exit(0)
