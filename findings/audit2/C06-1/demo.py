"""C06 finding 1: a CER of a known peer that shares an application is answered
5012 (and the connection never becomes ready) when it carries the T flag and an
End-to-End identifier the node has already answered for that Origin-Host on an
EARLIER connection.

Run: PYTHONPATH=/repo/src /venv/bin/python /repo/_audit/1/demo.py
"""
import logging
import sys

from diameter.message import Message, constants
from diameter.message.commands import CapabilitiesExchangeRequest
from diameter.node import Node
from diameter.node.application import Application
from diameter.node.peer import (PeerConnection, PEER_RECV, PEER_CONNECTED,
                                PEER_READY, PEER_TRANSPORT_TCP,
                                DISCONNECT_REASON_GONE_AWAY)

logging.disable(logging.CRITICAL)


class FakeSocket:
    """Stands in for the accepted TCP socket; the node only needs these."""
    _next = 1000

    def __init__(self):
        FakeSocket._next += 1
        self._no = FakeSocket._next

    def fileno(self): return self._no
    def close(self): pass
    def setsockopt(self, *a): pass


class App(Application):
    def handle_request(self, message): pass


def accept(node):
    """What Node._handle_connections does for an accepted TCP connection."""
    conn = PeerConnection("10.0.0.2", 40000, PEER_RECV, node.interrupt_write)
    conn.state = PEER_CONNECTED
    node._add_peer_connection(conn, FakeSocket(), PEER_TRANSPORT_TCP)
    sent = []
    conn.add_out_msg = sent.append      # record what would go to the socket
    return conn, sent


def receive(conn, msg):
    """Deliver wire bytes exactly as the connection's reader thread does."""
    decoded = Message.from_bytes(msg.as_bytes())
    conn._PeerConnection__dispatch_message(decoded)


def cer(hbh, e2e, retransmit):
    m = CapabilitiesExchangeRequest()
    m.header.hop_by_hop_identifier = hbh
    m.header.end_to_end_identifier = e2e
    m.header.is_retransmit = retransmit
    m.origin_host = b"peer1.example.net"
    m.origin_realm = b"example.net"
    m.host_ip_address = ["10.0.0.2"]
    m.vendor_id = 1
    m.product_name = "client"
    m.auth_application_id = [constants.APP_DIAMETER_CREDIT_CONTROL_APPLICATION]
    return m


node = Node("node.example.net", "example.net", ip_addresses=["10.0.0.1"],
            tcp_port=3868)
peer = node.add_peer("aaa://peer1.example.net", "example.net")
app = App(constants.APP_DIAMETER_CREDIT_CONTROL_APPLICATION,
          is_auth_application=True)
node.add_application(app, [peer])

# connection 1: ordinary exchange, answered 2001
c1, sent1 = accept(node)
receive(c1, cer(hbh=1, e2e=0x5000, retransmit=False))
print(f"connection 1: CEA result {sent1[0].result_code}, "
      f"ready={c1.state == PEER_READY}")
# the transport is lost (e.g. before the peer could read the CEA)
node.close_connection_socket(c1, DISCONNECT_REASON_GONE_AWAY)

# connection 2: the peer connects again and repeats its CER; as rfc6733 3.
# demands for a request sent again after a link failure it keeps the
# End-to-End identifier and sets the T flag. First message on this connection.
c2, sent2 = accept(node)
receive(c2, cer(hbh=2, e2e=0x5000, retransmit=True))

results = [getattr(m, "result_code", None) for m in sent2]
ready = c2.state == PEER_READY
print(f"connection 2 (first CER on it, T flag set): answers {results}, "
      f"ready={ready}, Peer.connection={peer.connection}")
print("property requires: 'An inbound CER is answered by a CEA ... with result "
      "2001 and the connection becomes ready when the peer is known and shares "
      "an application'")

for c in (c1, c2):
    c.close(signal_node=False)

if results == [constants.E_RESULT_CODE_DIAMETER_SUCCESS] and ready:
    print("OK: CER answered 2001, connection ready")
    sys.exit(0)
print("VIOLATION: known peer sharing application 4 got "
      f"{results} instead of [2001]; connection not ready")
sys.exit(1)
