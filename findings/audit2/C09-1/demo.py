"""C09 / finding 1

A requester's DPR that is handled (reader thread) while the node thread is
inside PeerConnection.reset_last_dwr() - between its check
`if self.state in PEER_READY_STATES` and its assignment
`self.state = PEER_READY_WAITING_DWA` - is undone: the connection that has
just been answered with a DPA is back in a ready state, and an application
answer for a request that arrived on it is accepted and transmitted after the
DPA instead of failing with NotRoutable.

The interleaving is forced deterministically with a trace function that parks
the node thread on exactly that line; everything else is the unmodified
library, a real listening socket and a real TCP client.
"""
import linecache
import logging
import socket
import sys
import threading
import time

from diameter.message import Message, constants
from diameter.message.commands import (
    CapabilitiesExchangeRequest, CreditControlRequest, DisconnectPeerRequest)
from diameter.node import Node, NotRoutable
from diameter.node.application import Application
from diameter.node import peer as peer_mod
from diameter.node.peer import (
    PEER_DISCONNECTING, PEER_READY, PEER_READY_WAITING_DWA)

STATE = {PEER_DISCONNECTING: "DISCONNECTING", PEER_READY: "READY",
         PEER_READY_WAITING_DWA: "READY_WAITING_DWA"}

at_gap = threading.Event()      # node thread has passed the check
release = threading.Event()     # demo lets it perform the assignment
armed = threading.Event()
finished = threading.Event()    # node thread has left reset_last_dwr()


def local_trace(frame, event, arg):
    if event == "line" and armed.is_set():
        src = linecache.getline(frame.f_code.co_filename, frame.f_lineno)
        if "self.state = PEER_READY_WAITING_DWA" in src:
            armed.clear()
            at_gap.set()
            release.wait(20)
    if event == "return" and at_gap.is_set():
        finished.set()
    return local_trace


def global_trace(frame, event, arg):
    if (frame.f_code.co_name == "reset_last_dwr" and
            frame.f_code.co_filename == peer_mod.__file__):
        return local_trace
    return None


def free_port():
    s = socket.socket()
    s.bind(("127.0.0.1", 0))
    p = s.getsockname()[1]
    s.close()
    return p


class Client:
    def __init__(self, name, port):
        self.name = name
        self.sock = socket.create_connection(("127.0.0.1", port))
        self.buf = b""

    def send(self, msg):
        self.sock.sendall(msg.as_bytes())

    def recv_msg(self, timeout):
        self.sock.settimeout(timeout)
        try:
            while True:
                if len(self.buf) >= 20:
                    ln = int.from_bytes(self.buf[1:4], "big")
                    if len(self.buf) >= ln:
                        raw, self.buf = self.buf[:ln], self.buf[ln:]
                        return Message.from_bytes(raw)
                d = self.sock.recv(4096)
                if not d:
                    return None
                self.buf += d
        except (socket.timeout, OSError):
            return None

    def cer(self):
        m = CapabilitiesExchangeRequest()
        m.header.hop_by_hop_identifier = 1
        m.header.end_to_end_identifier = 1
        m.origin_host = self.name.encode()
        m.origin_realm = b"realm"
        m.host_ip_address = "127.0.0.1"
        m.vendor_id = 1
        m.product_name = "client"
        m.auth_application_id = [4]
        self.send(m)
        return self.recv_msg(5)

    def ccr(self, hbh, e2e):
        m = CreditControlRequest()
        m.header.application_id = 4
        m.header.hop_by_hop_identifier = hbh
        m.header.end_to_end_identifier = e2e
        m.session_id = "a.realm;1;1"
        m.origin_host = self.name.encode()
        m.origin_realm = b"realm"
        m.destination_realm = b"realm"
        m.auth_application_id = 4
        m.service_context_id = "ctx@realm"
        m.cc_request_type = 1
        m.cc_request_number = 0
        self.send(m)

    def dpr_bytes(self):
        m = DisconnectPeerRequest()
        m.header.hop_by_hop_identifier = 2
        m.header.end_to_end_identifier = 2
        m.origin_host = self.name.encode()
        m.origin_realm = b"realm"
        m.disconnect_cause = constants.E_DISCONNECT_CAUSE_DO_NOT_WANT_TO_TALK_TO_YOU
        return m.as_bytes()


class App(Application):
    def __init__(self):
        super().__init__(4, is_auth_application=True)
        self.requests = []

    def handle_request(self, message):
        self.requests.append(message)       # answered later


def main():
    logging.disable(logging.CRITICAL)     # keep the output readable
    threading.settrace(global_trace)        # for the node's threads
    port = free_port()
    node = Node("srv.realm", "realm", ip_addresses=["127.0.0.1"], tcp_port=port)
    node.wakeup_interval = 1
    node.idle_timeout = 2
    node.dwa_timeout = 30
    pa = node.add_peer("aaa://a.realm")
    app = App()
    node.add_application(app, [pa])
    node.start()
    a = Client("a.realm", port)
    verdict = 0
    try:
        cea = a.cer()
        assert cea.result_code == 2001, cea
        a.ccr(100, 200)
        t0 = time.time()
        while not app.requests and time.time() - t0 < 5:
            time.sleep(0.01)
        request = app.requests[0]
        conn = pa.connection

        # the client stays idle; the node thread's periodic timer check sends
        # a DWR and calls conn.reset_last_dwr()
        armed.set()
        if not at_gap.wait(15):
            print("INCONCLUSIVE: node thread never reached reset_last_dwr")
            return 0
        print(f"node thread is inside reset_last_dwr(), check passed, state = "
              f"{STATE.get(conn.state, conn.state)}")

        # the requester's DPR is handled by the connection's reader thread
        # exactly now (bytes handed over the way the node thread does it)
        conn.add_in_bytes(a.dpr_bytes())
        t0 = time.time()
        while conn.state != PEER_DISCONNECTING and time.time() - t0 < 3:
            time.sleep(0.01)
        print(f"DPR handed to the reader thread, state = "
              f"{STATE.get(conn.state, conn.state)}")

        release.set()
        finished.wait(5)
        # (a repaired library may have made the reader thread wait for the
        # node thread; give the DPR time to be handled in that case)
        t0 = time.time()
        while conn.state != PEER_DISCONNECTING and time.time() - t0 < 1:
            time.sleep(0.01)
        print(f"node thread finished reset_last_dwr(), state = "
              f"{STATE.get(conn.state, conn.state)}")

        answer = app.generate_answer(request, result_code=2001)
        answer.cc_request_type = request.cc_request_type
        answer.cc_request_number = request.cc_request_number
        raised = None
        try:
            app.send_answer(answer)
        except NotRoutable as e:
            raised = e
        print(f"app.send_answer() after the DPR/DPA raised: {raised!r}")

        seen = []
        while True:
            m = a.recv_msg(2)
            if m is None:
                break
            seen.append(f"{m.header.command_code}"
                        f"{'R' if m.header.is_request else 'A'}")
        print(f"client received after its CEA: {seen} (280R=DWR, 282A=DPA, "
              f"272A=application answer)")

        if "272A" in seen or raised is None:
            print("OBSERVED: the connection answered with a DPA is ready again; "
                  "the application answer was accepted and written to it after "
                  "the DPA.")
            print("REQUIRED: 'if that connection has closed or is no longer "
                  "ready the submission fails with the not-routable error and "
                  "nothing is transmitted to any peer'.")
            verdict = 1
        else:
            print("OK: submission failed with NotRoutable, nothing transmitted")
    finally:
        release.set()
        threading.settrace(None)
        a.sock.close()
        node.stop(force=True)
    return verdict


if __name__ == "__main__":
    sys.exit(main())
